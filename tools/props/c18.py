"""C18 — shared const objects are thread-safe with schedule-independent results (DESIGN.md §4 C18).

PARTIAL claim (LEVEL = "other"): a data race is a fact about the C++ memory model and the compiled code, which no Lean model of
the library can exhibit. Proved (Props/C18.lean): the LOGIC that makes the code race-free and schedule-independent. Tested and
labelled as testing: concurrent vs sequential runs (bit-identical), fits under different pool sizes / CPU affinity / injected
delays, ThreadSanitizer in the thorough tier.
"""
import os
import sys

sys.path.insert(0, os.path.dirname(os.path.dirname(os.path.abspath(__file__))))   # tools/ (when run as a script)
import vlib
from vlib import Toks, h2f

sys.path.insert(0, os.path.dirname(os.path.abspath(__file__)))
import _c18_scan

ID = "C18"
LEVEL = "other"
EXPLANATION = (
    "PARTIAL. A data race is a fact about the C++ memory model and the compiled code; no Lean model of the library exhibits one, so "
    "'no data races' and 'bit-identical results' are NOT proved. Proved in Lean (34 obligations, all schedules / assignments / "
    "interleavings / pool sizes): tasks running at the same time have different worker ids, hence per-worker buffers are never written "
    "concurrently (on the pool protocol model of C17); INLINE operator calls (the sequential path of pool_t::map: at most one chunk "
    "or a 1-thread pool, the caller runs the operator with tnum 0) and worker-run tasks that are live at the same time belong to "
    "different calls or use different slots, so buffers owned by a per-call object are never shared (inline_calls_share_no_buffer; "
    "with buffers owned by the shared object two inline calls collide on slot 0: kernel-checked witness = seeded C18-e1); after a "
    "client has left map no task of the call runs in any later state (no_task_outlives_call: stack captures are safe); the (trial, "
    "fold) tasks of ml::tune write disjoint ranges of m_values and distinct m_extras slots, in bounds, and read only slots written "
    "before the batch (C13 slot arithmetic + C16 addressing); the batch AS CODED (warm-start data read from the live result) leaves "
    "the same result for every order of its tasks because the closest trial is an earlier one (tune_schedule_independent; witness "
    "with a closest trial inside the batch = seeded C18-c1), hence the whole ml::result_t of a fit (fit_result_schedule_independent); "
    "sum_reduce / min_reduce_feature give the same value for every assignment of chunks to workers in exact arithmetic (min: for "
    "every schedule whose workers process their features in increasing index order - what pool_t::map produces -, exact ties "
    "allowed: the result is the lexicographic minimum of (score, feature index) = what one worker alone selects; for the table "
    "learners' lexicographic caches no order hypothesis; the score-only rule before commit 62472c9 is shown schedule dependent); the "
    "BFS decision-tree fit with an own feature->worker assignment at every node builds the tree one thread builds "
    "(dtree_fit_assignment_independent); select_iterator_t's loop visits the same features for every pool size "
    "(feature_selection_thread_count_independent; the seeded per-worker-range variant C18-e3 drops features: kernel-checked); with "
    "per-call clones of the line-search prototypes the state of a minimize call depends on the solver object and the call's own "
    "arguments only; every mutable member / non-const static (function-local ones included) / thread_local / namespace-scope "
    "variable / pointer-or-reference member / member whose class has mutable state found by a regex-level scan of the current "
    "sources is in a reviewed allow-list (kernel-checked; every hit outside it breaks the check BEFORE anything runs, naming "
    "file:line). "
    "TESTED, labelled as testing (the counts under evaluations / distinct_nontrivial): the same calls executed alone, then from "
    "2..16 threads at once, then alone again on ONE shared solver (every deterministic solver id also with functions of pairwise "
    "DIFFERENT sizes at the same time) / loss + tensors / dataset / fitted linear and gboost model (also with at most `batch` "
    "samples per call and with 1-thread dataset pools: every caller on the inline path) must be bit-identical; "
    "weak-learner fits and full fits of linear (4 regularisers) and gboost models repeated with dataset pools of 1..16 threads "
    "(grid: pools 1, 2, 3, 4, 5, 7, 16 x 1..32 scalar / 1..8 categorical features with the signal in the LAST feature), "
    "pool_t::max_size() capped to 1, 2, all (by interposing std::thread::hardware_concurrency in the harness, the hook H1b does "
    "not exist), CPU affinity of 1 or 2 cores and random delays at the pool's synchronisation points must select the same features "
    "and predict within 1e-5 relative (a selection that flips between two candidates whose scores agree within 1e-7 on inputs "
    "that differ by rounding only is counted as near_tie_flip, not compared); duplicated columns must give the smallest copy and "
    "identical results; the thorough tier runs ALL of these scenarios under ThreadSanitizer (halt_on_error): the harness and "
    "libnano are built with -fsanitize=thread, so every op family of the generator (reduce, shared minimize incl. different sizes, "
    "shared loss / dataset / predict incl. the inline path, wfit incl. the grid, wtie, fit linear / gboost incl. the grid) is a TSan "
    "scenario. Only the two reductions of reduce.h have a model/implementation correspondence (Lean driver at Float vs the real "
    "templates, exact).")
HARNESS = "c18"
LEAN_MODULES = ["NanoVerif.Props.C18"]
NS = "NanoVerif.C18."
OBLIGATIONS = [NS + t for t in [
    "perthread_buffers_exclusive", "seqpath_one_at_a_time", "tune_writes_disjoint", "sum_reduce_assignment_independent",
    "sum_reduce_schedules_agree", "min_reduce_assignment_independent", "min_reduce_schedules_agree",
    "table_min_reduce_assignment_independent", "old_min_reduce_schedule_dependent", "minimize_is_pure", "mutable_state_allowlisted",
    # gap-closing round: corollaries on the extended models of C09 / C10 / C11 / C13 / C17
    "inline_calls_share_no_buffer", "shared_object_inline_calls_collide", "served_rows_independent_of_slot",
    "no_task_outlives_call", "tune_schedule_independent",
    "tune_live_read_in_flight_schedule_dependent", "fit_result_schedule_independent", "dtree_fit_assignment_independent",
    "feature_selection_thread_count_independent", "seeded_feature_loop_drops_features",
]] + ["NanoVerif.Sharing." + t for t in [
    "reachable_owned", "live_has_call", "concurrent_acts_disjoint", "ready_forever",                    # Proofs/SharingPool.lean
    "foldl_set_perm", "runBatch_schedule_independent", "runBatchLive_eq", "runTune_schedule_independent",   # Proofs/SharingTune.lean
    "dtreeLoopS_eq", "stumpFitAssigned_eq", "dtree_fit_schedule_independent", "select_loop_thread_count_independent",
    "seeded_loop_drops_features",                                                                       # Proofs/SharingFit.lean
]]
TRUSTED = [
    "Lean 4.33.0 kernel; Mathlib modules Algebra.BigOperators.Group.List.Basic, Order.Defs.LinearOrder (+ what Props/C13 imports)",
    "axioms: at most propext, Classical.choice, Quot.sound (audited per theorem on every run)",
    "the models the theorems are about: Model/Pool.lean (C17, tied to the code by trace validation there), Model/Tune.lean (C13) and "
    "Model/Tensor.lean (C16) (each tied to the code by its own property's correspondence), Model/Reduce.lean (sum_reduce/min_reduce: "
    "tied by the `reduce` ops of this check; the World/exec model of solver_t::make_lsearch: hand-written from solver.cpp:94-106 and "
    "solver/lsearch.cpp, NOT tied by a correspondence — it states the sharing discipline, the tests observe its consequence)",
    "tools/props/_c18_scan.py: a regex-level scanner, not a C++ parser (comments/strings stripped, brace tracking); cross-checked on "
    "every run against a plain count of the `mutable` keyword, by the rule that every `static` / `thread_local` keyword of the "
    "sources must have been classified (variable / constant / function) and by a self-test on snippets of the constructs it must "
    "find; the reasons in the allow-list (ALLOW in tools/props/c18.py, mirrored into Proofs/SharingAllow.lean) are a human review, "
    "not a proof",
    "the new corollaries are theorems about the OTHER properties' models (Model/Pool.lean + PoolSection.lean of C17, Model/Tune.lean of "
    "C13, Model/MLResult.lean of C11, Model/WLearnerTree.lean of C10, Model/IteratorSelect.lean of C09), each tied to the code by its "
    "own property's correspondence; `Sharing.runBatchLive` (the live read of tune.cpp:25-41), `Sharing.dtreeLoopS`, `Sharing.Act` and "
    "`Sharing.seededVisits` are hand-written in Proofs/Sharing*.lean and NOT tied by a correspondence",
    "harness/c18.cpp (thread start barrier, per-thread function objects/buffers/loggers, link-time interposition of "
    "std::thread::hardware_concurrency, sched_setaffinity, delays through pool hook H1), tools/props/c18.py (generator + oracle)",
    "ThreadSanitizer (thorough tier) for the observation of data races on the schedules that happened; g++/libstdc++/Eigen",
]
ASSUMPTIONS = [
    "each thread uses its own function object, buffers and logger (statement of C18); a logger shared by concurrent calls writes to "
    "one unsynchronised std::ostream and is outside the claim",
    "exact arithmetic in the reduction theorems; in binary64 sum_reduce depends on the chunk->worker assignment at rounding level "
    "(that is the 'up to floating-point re-association' of the statement; tested with the 1e-5 relative tolerance only)",
    "min_reduce_assignment_independent: hypothesis SchedSorted = every worker processes ITS features in increasing index order "
    "(pool_t::map: chunks enqueued in order under one lock, FIFO queue, increasing loop inside a chunk) - true for ONE loop over "
    "one feature list (affine, stump, hinge, dtree through stump). The table learners run TWO loops (single-label, then "
    "multi-label features) into the same caches, so a worker may see indices out of order: with first-seen caches an exact tie "
    "between a single-label and a multi-label feature was still decided by the schedule on datasets whose multi-label features "
    "have the smaller indices (found while stating the hypothesis; `wtie mclassfirst` ops: 1 thread -> feature 3, 2+ threads -> 0 "
    "or 3; repaired by 5de0896: lexicographic cache update in table.cpp) - table_min_reduce_assignment_independent has no order "
    "hypothesis. Neither theorem is tied to table.cpp / stump.cpp by a translator: the cache-update line is mirrored by hand in "
    "Model/Reduce.lean and in the `reduce min` / `reduce minlex` ops (which call the real min_reduce_feature template)",
    "full fits are compared only where the comparison is decidable at 1e-5: gboost with the mse loss (any scaling / shrinkage / "
    "subsampling / prototypes) or with the logistic loss on non-separable data (labels flipped with probability `noise`), one "
    "scale for all samples and no decision trees (a pure leaf under tboost + logistic has its optimum at infinity: the replay "
    "`fit gboost 204708 71 5 1 cls2 s-logistic 2 72 11 3 tboost off subsample hinge,stump rss 940 ...` selected the same features "
    "under pools 1 and 16, train loss equal to 2.5e-16 at round 3, validation loss 3.67 vs 3.82: a flat objective amplifying the "
    "re-association noise of sum_reduce, not a schedule dependence); linear models with more samples than columns and noise",
    "near-tie rule (fit gboost): the harness wraps the prototypes into a pass-through decorator that records the inputs (fit "
    "samples, gradients) and the outcome of EVERY weak-learner fit of a run (all boosters, all rounds, kept by early stopping or "
    "not). Each fit of a configuration is matched with the reference configuration's fits of the same prototype on the same fit "
    "samples whose gradients agree within 1e-6 relative (the same computation up to rounding); when no partner fitted the same "
    "structure (features, thresholds, hashes, tree nodes) the selection flipped, and the harness reports gdiff, both scores and "
    "the RSS of each configuration's learner on the other's inputs. Bit-identical inputs => VIOLATION. 0 < gdiff <= 1e-7, scores "
    "within 1e-7 relative and both RSS margins within 1e-7 of the squared residuals => near-tie flipped by rounding (typically "
    "two features inducing the same partition of a small tree node): the configuration is skipped and counted (distribution: "
    "oracle:near_tie_flips). Anything else => VIOLATION: a flip with larger margins; or no flip at all but other features / "
    "trials / optimum / predictions beyond 1e-5 (a near-tie BETWEEN prototypes, in early stopping or between tuning trials is not "
    "recognised: continuous data make it improbable, it would be reported)",
    "the scan does not see: state reached through const_cast, globals of other libraries (Eigen, libstdc++), lambdas' captured "
    "references, placement of objects in shared memory by the caller, members typed by a std::variant / template alias of a class with "
    "mutable state (only std::vector / unique_ptr / shared_ptr / array / deque / list aliases are followed), classes identified by their "
    "unqualified name (two classes with the same name in different namespaces are merged: over-approximation); `indirect` / `holder` "
    "entries list declared types, not what is done through them; `static const` objects are skipped unless they are (smart) pointers to "
    "non-const",
    "inline_calls_share_no_buffer is a theorem about the pool MODEL (activities, calls, slots); that each libnano call site creates its "
    "iterator / function object per call is the reviewed `[per-call]` reason of the allow-list (a new member holding one is a scan hit), "
    "not a theorem about the C++ code",
    "feature_t::set_label is a const method that writes m_labels without synchronisation (used while loading only): concurrent "
    "set_label calls on a shared feature race; not an operation C18 quantifies over (harness op `shared setlabel` demonstrates it under TSan)",
    "pool sizes: the dataset's pool is set through the API; ml::tune's own pool only through the interposed hardware_concurrency "
    "(a harness device; with the real function it always has hardware_concurrency workers)",
]
RULE = ("corpus (duplicated-column fits, inline-path predicts, different-size minimize, (features, threads) pairs 9x8 / 17x16); exhaustive-small reduce schedules (every assignment of <= 4 contributions/candidates to <= 3 "
        "workers) + random reduce schedules (<= 16 workers, ties and non-finite scores included; min: 75% index-sorted schedules as the "
        "pool produces them - there the smallest feature index among the minimal scores is demanded -, 25% arbitrary ones - there any "
        "feature attaining the minimal score; minlex = the table learners' lexicographic caches: the smallest index on every "
        "schedule, workers seeing DEcreasing indices included); the 4 table learners on the dataset whose multi-label features precede "
        "the single-label ones with an exact tie across the two loops (1, 2..3, 4..16 threads x 40 repetitions); one `shared minimize` per deterministic solver type "
        "(all but the 4 gradient-sampling ones) with random line-search pairs, 2..16 threads x 1..3 calls on distinct function objects, "
        "one of them per solver id with 2..4 functions of pairwise DIFFERENT sizes (2..13) in flight at the same time; "
        "every loss id on shared tensors; shared datasets (flatten/select/targets + iterators on the shared pool); predict on shared "
        "fitted linear/gboost models, also with at most `batch` samples per call or a 1-thread dataset pool (every caller on the inline "
        "path of pool_t::map, tnum 0); every weak learner fitted repeatedly under pools of 1/2/3/16 threads, restricted affinity and "
        "delays; the GRID: scalar learners with 1..32 continuous features and table learners with 1..8 categorical features, signal in "
        "the LAST feature, under dataset pools 1, 2, 3, 4, 5, 7, 16 (every residue of features mod threads; distribution key grid:*), "
        "gboost fits over the same pools; full fits of ordinary/lasso/ridge/elastic-net and of gboost (weak-learner pools, subsample/bootstrap with fixed seed) "
        "under configurations (dataset threads, max pool size, cpus, delay permille) always starting with the sequential reference "
        "(1, 1, all, 0); 30-40% of the datasets with duplicated columns (exact ties: the smallest copy and identical results are "
        "demanded); fits generated well-conditioned (see assumptions). A case is non-trivial when the concurrent run used >= 2 threads on shared objects / the fit was "
        "compared under >= 2 different pool settings / the reduce schedule has >= 2 workers with work; distinct by op text")
FLAVOUR = {"quick": "plain", "thorough": "tsan"}
EXHAUSTIVE = {"quick": False, "thorough": False}
RTOL = 0.0
HARNESS_TIMEOUT = 3000
TMP = os.path.join(vlib.CACHE, "c18-tmp")
HARNESS_ENV = {"TMPDIR": TMP, "TSAN_OPTIONS": "halt_on_error=1:exitcode=66:second_deadlock_stack=1"}
TIE_KEY = "feature-tie:schedule-dependent-selection"   # fixed by 62472c9; the key a regression of the tie-break prints
COUNTS = {}                                            # filled by the oracle (near-tie flips, ...), shown in the distribution
DBL_MAX = "7fefffffffffffff"

DET_SOLVERS = ["gd", "sgm", "cgd-pr", "cgd-n", "cgd-hs", "cgd-fr", "cgd-cd", "cgd-ls", "cgd-dy", "cgd-dycd", "cgd-dyhs", "cgd-frpr",
               "osga", "lbfgs", "dfp", "sr1", "bfgs", "hoshino", "fletcher", "ellipsoid", "asga2", "asga4", "cocob", "sda", "wda",
               "pgm", "dgm", "fgm", "rqb", "fpba1", "fpba2"]
LSEARCH_SOLVERS = {"gd", "cgd-pr", "cgd-n", "cgd-hs", "cgd-fr", "cgd-cd", "cgd-ls", "cgd-dy", "cgd-dycd", "cgd-dyhs", "cgd-frpr",
                   "lbfgs", "dfp", "sr1", "bfgs", "hoshino", "fletcher"}
LS0 = ["linear", "constant", "quadratic", "cgdescent"]
LSK = ["fletcher", "backtrack", "cgdescent", "lemarechal", "morethuente"]
SMOOTH_FUNCTIONS = ["sphere", "trid", "sargan", "zakharov", "quadratic", "rosenbrock", "exponential", "dixon-price", "chung-reynolds",
                    "axis-ellipsoid", "styblinski-tang", "schumer-steiglitz", "rotated-ellipsoid", "powell", "qing", "cauchy",
                    "mse+ridge[1]", "logistic+ridge[1]", "geometric-optimization"]
NONSMOOTH_FUNCTIONS = ["maxq", "maxquad", "maxhilb", "chained_lq", "chained_cb3I", "chained_cb3II", "kinks", "mse+lasso[1]",
                       "mae+ridge[1]", "hinge+elasticnet[1,1]"]
LOSSES = ["mae", "mse", "cauchy", "m-hinge", "s-hinge", "m-squared-hinge", "s-squared-hinge", "s-classnll", "m-savage", "s-savage",
          "m-tangent", "s-tangent", "m-logistic", "s-logistic", "s-exponential", "m-exponential", "pinball"]
WLEARNERS = ["affine", "stump", "hinge", "dense-table", "kbest-table", "ksplit-table", "dstep-table", "dtree"]
LINEAR = ["ordinary", "lasso", "ridge", "elastic_net"]


def lean_str(s):
    return '"' + s.replace("\\", "\\\\").replace('"', '\\"') + '"'


# ---------------------------------------------------------------------------------------------------------------
# the REVIEWED allow-list of state a `const` method can modify or that all objects share: (kind, file, class-or-function,
# name, declared type, reason). The reason says why concurrent use through the const interface - each thread with its own
# function object, as the property states - does not share the entry, or what synchronises it. Tags: [per-function] owned by one
# function object, which one thread uses; [per-call] created inside the call; [per-worker] a vector with one slot per worker id
# (`perthread_buffers_exclusive`), owned by a per-call object (`inline_calls_share_no_buffer`); [sync] protected by a mutex /
# std::call_once / atomic; [owner] const access only calls const members of the pointee; [load] written while loading only.
# Every hit of the scan outside this list breaks the check naming file:line (`translate`); the list is mirrored into
# lean/NanoVerif/Proofs/SharingAllow.lean (`python3 tools/props/c18.py emit-allow`; `static_checks` compares the two) where
# `mutable_state_allowlisted` checks `Gen.MutableState.table ⊆ allow` in the kernel.
ALLOW = [
    ('holder', 'include/nano/core/parallel.h', 'pool_t', 'm_queue', 'queue_t',
     "[sync] the pool owns its queue: every access to m_tasks/m_stop is under m_mutex (lock discipline checked on traces by C17)"),
    ('holder', 'include/nano/core/parallel.h', 'pool_t', 'm_workers', 'std::vector<worker_t>',
     "[sync] written by the constructor, joined by the destructor; a worker only refers to the pool's queue"),
    ('holder', 'include/nano/dataset.h', 'dataset_t', 'm_datasource', 'const datasource_t&',
     "[owner] const access to the stored values; reaches feature_t::m_labels only through set_label, which no dataset / generator method calls ([load])"),
    ('holder', 'include/nano/dataset.h', 'dataset_t', 'm_target', 'feature_t',
     "[load] copy of the target feature made by the constructor; const methods only read it (no set_label)"),
    ('holder', 'include/nano/dataset/iterator.h', 'base_dataset_iterator_t', 'm_dataset', 'const dataset_t&',
     "[owner] iterators use the dataset's const interface with THEIR OWN buffers (flatten / select / targets) and its pool (C17: several submitters)"),
    ('holder', 'include/nano/datasource.h', 'datasource_t', 'm_features', 'features_t',
     "[load] feature_t::set_label is called by datasource_t::set while loading only (single-threaded)"),
    ('holder', 'include/nano/datasource/imclass_cifar.h', 'cifar_datasource_t', 'm_target', 'feature_t',
     "[load] used by do_load only"),
    ('holder', 'include/nano/datasource/imclass_mnist.h', 'base_mnist_datasource_t', 'm_target', 'feature_t',
     "[load] used by do_load only"),
    ('holder', 'include/nano/datasource/storage.h', 'feature_storage_t', 'm_feature', 'const feature_t&',
     "[load] the temporary through which datasource_t::set calls set_label: one per set() call while loading"),
    ('holder', 'include/nano/datasource/tabular.h', 'tabular_datasource_t', 'm_features', 'features_t',
     "[load] the declared features, handed to resize() by do_load"),
    ('holder', 'include/nano/function/penalty.h', 'penalty_function_t', 'm_function', 'const function_t&',
     "[per-call] built by the penalty / augmented-lagrangian solvers inside one minimize call around the caller's OWN function object"),
    ('holder', 'include/nano/gboost/function.h', 'bias_function_t', 'm_iterator', 'const targets_iterator_t&',
     "[per-call] the iterator is a local of the fit call that also builds this function (gboost/model.cpp: fit / fold task); buffers indexed by the pool's tnum"),
    ('holder', 'include/nano/gboost/function.h', 'grads_function_t', 'm_iterator', 'const targets_iterator_t&',
     "[per-call] the iterator is a local of the fit call that also builds this function (gboost/model.cpp: fit / fold task); buffers indexed by the pool's tnum"),
    ('holder', 'include/nano/gboost/function.h', 'scale_function_t', 'm_iterator', 'const targets_iterator_t&',
     "[per-call] the iterator is a local of the fit call that also builds this function (gboost/model.cpp: fit / fold task); buffers indexed by the pool's tnum"),
    ('holder', 'include/nano/generator.h', 'generator_t', 'm_datasource', 'const datasource_t*',
     "[owner] const access to the stored values; generators never call set_label"),
    ('holder', 'include/nano/learner.h', 'learner_t', 'm_inputs', 'features_t',
     "[load] copies of the dataset's features written by fit (non-const); predict only compares them with the dataset's"),
    ('holder', 'include/nano/learner.h', 'learner_t', 'm_target', 'feature_t',
     "[load] copy of the dataset's target written by fit (non-const); predict only compares it"),
    ('holder', 'include/nano/linear/function.h', 'function_t', 'm_iterator', 'const flatten_iterator_t&',
     "[per-call] the iterator is a local of the fit / fold task that also builds this function (linear.cpp:33); buffers indexed by the pool's tnum"),
    ('holder', 'include/nano/solver/csearch.h', 'csearch_t', 'm_function', 'const function_t&',
     "[per-call] csearch_t is a local of one bundle-solver minimize call and refers to the caller's own function object"),
    ('holder', 'include/nano/solver/state.h', 'solver_state_t', 'm_function', 'const function_t*',
     "[per-call] a state belongs to one minimize call and points to the caller's own function object (its call counters)"),
    ('holder', 'src/lsearchk/cgdescent.cpp', 'lsearchk_cgdescent_t::interval_t', 'state0', 'const solver_state_t&',
     "[per-call] local object of one lsearchk get() call, refers to the caller's own state"),
    ('indirect', 'include/nano/core/parallel.h', 'worker_t', 'm_queue', 'queue_t&',
     "[sync] the pool's queue: every access to m_tasks/m_stop is under m_mutex (lock discipline checked on traces by C17)"),
    ('indirect', 'include/nano/dataset.h', 'dataset_t', 'm_generators', 'rgenerators_t',
     '[owner] const dataset methods call only const generator members (select/flatten/feature); generators hold no mutable state'),
    ('indirect', 'include/nano/dataset.h', 'dataset_t', 'm_pool', 'rtpool_t',
     '[sync] thread_pool() const hands out the shared pool: pool_t::map is safe for several submitters (C17: queue under its mutex)'),
    ('indirect', 'include/nano/factory.h', 'factory_t::proto_t', 'm_prototype', 'trobject',
     '[owner] get() only clones the prototype (const); add() runs once under std::call_once'),
    ('indirect', 'include/nano/function/constraint.h', 'functional_t', 'm_function', 'rfunction_t',
     '[per-function] the wrapped function belongs to one constraint of one function object (own fcalls counters)'),
    ('indirect', 'include/nano/gboost/model.h', 'gboost_model_t', 'm_prototypes', 'rwlearners_t',
     '[owner] fit() clones each prototype per round (`prototype->clone()`), never fits the prototype itself'),
    ('indirect', 'include/nano/gboost/model.h', 'gboost_model_t', 'm_wlearners', 'rwlearners_t',
     '[owner] do_predict (const) calls wlearner_t::predict (const) only; written by fit() (non-const) after the parallel section'),
    ('indirect', 'include/nano/gboost/result.h', 'result_t', 'm_wlearners', 'rwlearners_t',
     '[per-call] the per-(trial, fold) booster, built inside one task and moved into its own m_extras slot (`tune_writes_disjoint`)'),
    ('indirect', 'include/nano/logger.h', 'logger_t', 'm_pimpl', 'std::unique_ptr<impl_t>',
     '[per-call] ml::tune makes one file logger per (trial, fold) task; a logger object shared by concurrent calls writes to one unsynchronised std::ostream — outside the statement, the harness gives every thread its own logger'),
    ('indirect', 'include/nano/machine/params.h', 'params_t', 'm_solver', 'rsolver_t',
     '[owner] solver() const returns const solver_t&: the ONE solver shared by all fold/trial tasks — see solver_t::m_lsearch0/k'),
    ('indirect', 'include/nano/machine/params.h', 'params_t', 'm_splitter', 'rsplitter_t',
     '[owner] split() is const and seeds its own rng per call; called before the parallel section'),
    ('indirect', 'include/nano/machine/params.h', 'params_t', 'm_tuner', 'rtuner_t',
     '[owner] optimize() is const, called by the one thread that runs ml::tune'),
    ('indirect', 'include/nano/solver.h', 'solver_t', 'm_lsearch0', 'rlsearch0_t',
     '[owner] PROTOTYPE: const methods only clone() it (make_lsearch) — the non-const lsearch0_t::get (m_prevf, m_prevdg) is called on the per-call clone (`minimize_is_pure`)'),
    ('indirect', 'include/nano/solver.h', 'solver_t', 'm_lsearchk', 'rlsearchk_t',
     '[owner] PROTOTYPE: const methods only clone() it (make_lsearch); lsearchk_t::get is const and keeps its state in locals'),
    ('indirect', 'include/nano/solver/lsearch.h', 'lsearch_t', 'm_lsearch0', 'rlsearch0_t',
     '[per-call] the clone made by make_lsearch for this minimize call; its history (m_prevf, m_prevdg) starts fresh'),
    ('indirect', 'include/nano/solver/lsearch.h', 'lsearch_t', 'm_lsearchk', 'rlsearchk_t',
     '[per-call] the clone made by make_lsearch for this minimize call'),
    ('indirect', 'include/nano/tensor/storage.h', 'tensor_marray_storage_t', 'm_data', 'tscalar*',
     '[owner] a mutable map is a view: who may write through it is decided by who holds the mapped buffer (per-worker / per-call buffers, disjoint slices by C16/C17 chunks_tile)'),
    ('indirect', 'src/lsearchk/cgdescent.cpp', 'lsearchk_cgdescent_t::interval_t', 'c', 'solver_state_t&',
     "[per-call] local object of one lsearchk get() call, refers to the caller's own state"),
    ('mutable', 'include/nano/core/parallel.h', 'queue_t', 'm_condition', 'std::condition_variable',
     '[sync] synchronisation primitive'),
    ('mutable', 'include/nano/core/parallel.h', 'queue_t', 'm_mutex', 'std::mutex',
     '[sync] synchronisation primitive'),
    ('mutable', 'include/nano/dataset/iterator.h', 'flatten_iterator_t', 'm_flatten_buffers', 'buffers_t',
     '[per-worker] concurrency() slots indexed by tnum; the iterator belongs to one function object / one fit call'),
    ('mutable', 'include/nano/dataset/iterator.h', 'select_iterator_t', 'm_buffers', 'buffers_t',
     "[per-worker] concurrency() slots indexed by tnum (tnum 0 on the caller's single-feature path); one iterator per weak-learner fit"),
    ('mutable', 'include/nano/dataset/iterator.h', 'targets_iterator_t', 'm_targets_buffers', 'buffers_t',
     '[per-worker] concurrency() slots indexed by tnum; the iterator belongs to one fit call'),
    ('mutable', 'include/nano/feature.h', 'feature_t', 'm_labels', 'strings_t',
     '[load] written by feature_t::set_label (const!) which datasource_t::set calls while loading, single-threaded. NOT synchronised: two threads calling set_label on a shared feature with free label slots would race — no const method of dataset/generator/model calls it; outside the operations C18 quantifies over (reported as an observation)'),
    ('mutable', 'include/nano/function.h', 'function_t', 'm_fcalls', 'tensor_size_t',
     '[per-function] call counter of one function object; each thread uses its own function object (statement of C18)'),
    ('mutable', 'include/nano/function.h', 'function_t', 'm_gcalls', 'tensor_size_t',
     '[per-function] call counter of one function object; each thread uses its own function object (statement of C18)'),
    ('mutable', 'include/nano/gboost/function.h', 'bias_function_t', 'm_accumulators', 'accumulators_t',
     '[per-function][per-worker] one slot per worker id, function object built inside one fold task'),
    ('mutable', 'include/nano/gboost/function.h', 'bias_function_t', 'm_outputs', 'tensor4d_t',
     '[per-function] written in disjoint sample ranges (chunks_tile), function object built inside one fold task'),
    ('mutable', 'include/nano/gboost/function.h', 'bias_function_t', 'm_values', 'tensor1d_t',
     '[per-function] written in disjoint sample ranges (chunks_tile), function object built inside one fold task'),
    ('mutable', 'include/nano/gboost/function.h', 'bias_function_t', 'm_vgrads', 'tensor4d_t',
     '[per-function] written in disjoint sample ranges (chunks_tile), function object built inside one fold task'),
    ('mutable', 'include/nano/gboost/function.h', 'grads_function_t', 'm_values', 'tensor1d_t',
     '[per-function] written in disjoint sample ranges (chunks_tile), function object built inside one fold task'),
    ('mutable', 'include/nano/gboost/function.h', 'grads_function_t', 'm_vgrads', 'tensor4d_t',
     '[per-function] written in disjoint sample ranges (chunks_tile), function object built inside one fold task'),
    ('mutable', 'include/nano/gboost/function.h', 'scale_function_t', 'm_accumulators', 'accumulators_t',
     '[per-function][per-worker] one slot per worker id, function object built inside one fold task'),
    ('mutable', 'include/nano/gboost/function.h', 'scale_function_t', 'm_outputs', 'tensor4d_t',
     '[per-function] written in disjoint sample ranges (chunks_tile), function object built inside one fold task'),
    ('mutable', 'include/nano/gboost/function.h', 'scale_function_t', 'm_values', 'tensor1d_t',
     '[per-function] written in disjoint sample ranges (chunks_tile), function object built inside one fold task'),
    ('mutable', 'include/nano/gboost/function.h', 'scale_function_t', 'm_vgrads', 'tensor4d_t',
     '[per-function] written in disjoint sample ranges (chunks_tile), function object built inside one fold task'),
    ('mutable', 'include/nano/linear/function.h', 'function_t', 'm_accumulators', 'accumulators_t',
     '[per-function][per-worker] one slot per worker id (linear/function.cpp:53), function object built inside one fit call'),
    ('mutable', 'include/nano/solver/lsearch.h', 'lsearch_t', 'm_last_step_size', 'scalar_t',
     '[per-call] member of the lsearch_t object that make_lsearch returns by value for this minimize call'),
    ('mutable', 'include/nano/tuner/surrogate.h', 'quadratic_surrogate_fit_t', 'm_loss_outputs', 'tensor4d_t',
     '[per-function] local function object of one surrogate tuner step, used by the tuning thread only'),
    ('mutable', 'include/nano/tuner/surrogate.h', 'quadratic_surrogate_fit_t', 'm_loss_values', 'tensor1d_t',
     '[per-function] local function object of one surrogate tuner step, used by the tuning thread only'),
    ('mutable', 'include/nano/tuner/surrogate.h', 'quadratic_surrogate_fit_t', 'm_loss_vgrads', 'tensor4d_t',
     '[per-function] local function object of one surrogate tuner step, used by the tuning thread only'),
    ('mutable', 'src/lsearchk/cgdescent.cpp', 'lsearchk_cgdescent_t::params_t', 'm_max_iterations', 'int',
     '[per-call] params_t is a local of one lsearchk get() call (make_params returns it by value)'),
    ('mutable', 'src/program/solver.cpp', 'solver_t::program_t', 'm_ldlt', 'lin_solver_t',
     '[per-call] program_t is a temporary of one solve() call'),
    ('mutable', 'src/program/solver.cpp', 'solver_t::program_t', 'm_lmat', 'matrix_t',
     '[per-call] program_t is a temporary of one solve() call'),
    ('mutable', 'src/program/solver.cpp', 'solver_t::program_t', 'm_lsol', 'vector_t',
     '[per-call] program_t is a temporary of one solve() call'),
    ('mutable', 'src/program/solver.cpp', 'solver_t::program_t', 'm_lvec', 'vector_t',
     '[per-call] program_t is a temporary of one solve() call'),
    ('static', 'src/core/parallel.cpp', 'nano::verif::pool_hook', 'hook', 'static std::atomic<pool_hook_t>',
     '[sync] verification hook H1 (NANO_VERIF builds only): an atomic function pointer'),
    ('static', 'src/core/parallel.cpp', 'nano::verif::trace_sink', 'sink', 'thread_local trace_sink_t',
     '[per-call] verification hook H2 (NANO_VERIF builds only): thread_local'),
    ('static', 'src/datasource.cpp', 'datasource_t::all', 'flag', 'static std::once_flag',
     '[sync] guards the registration below'),
    ('static', 'src/datasource.cpp', 'datasource_t::all', 'manager', 'static auto',
     '[sync] factory filled once under std::call_once, read-only afterwards (get() clones)'),
    ('static', 'src/function.cpp', 'function_t::all', 'flag', 'static std::once_flag',
     '[sync] guards the registration below'),
    ('static', 'src/function.cpp', 'function_t::all', 'manager', 'static auto',
     '[sync] factory filled once under std::call_once, read-only afterwards (get() clones)'),
    ('static', 'src/generator.cpp', 'generator_t::all', 'flag', 'static std::once_flag',
     '[sync] guards the registration below'),
    ('static', 'src/generator.cpp', 'generator_t::all', 'manager', 'static auto',
     '[sync] factory filled once under std::call_once, read-only afterwards (get() clones)'),
    ('static', 'src/linear.cpp', 'linear_t::all', 'flag', 'static std::once_flag',
     '[sync] guards the registration below'),
    ('static', 'src/linear.cpp', 'linear_t::all', 'manager', 'static auto',
     '[sync] factory filled once under std::call_once, read-only afterwards (get() clones)'),
    ('static', 'src/loss.cpp', 'loss_t::all', 'flag', 'static std::once_flag',
     '[sync] guards the registration below'),
    ('static', 'src/loss.cpp', 'loss_t::all', 'manager', 'static auto',
     '[sync] factory filled once under std::call_once, read-only afterwards (get() clones)'),
    ('static', 'src/lsearch0.cpp', 'lsearch0_t::all', 'flag', 'static std::once_flag',
     '[sync] guards the registration below'),
    ('static', 'src/lsearch0.cpp', 'lsearch0_t::all', 'manager', 'static auto',
     '[sync] factory filled once under std::call_once, read-only afterwards (get() clones)'),
    ('static', 'src/lsearchk.cpp', 'lsearchk_t::all', 'flag', 'static std::once_flag',
     '[sync] guards the registration below'),
    ('static', 'src/lsearchk.cpp', 'lsearchk_t::all', 'manager', 'static auto',
     '[sync] factory filled once under std::call_once, read-only afterwards (get() clones)'),
    ('static', 'src/solver.cpp', 'solver_t::all', 'flag', 'static std::once_flag',
     '[sync] guards the registration below'),
    ('static', 'src/solver.cpp', 'solver_t::all', 'manager', 'static auto',
     '[sync] factory filled once under std::call_once, read-only afterwards (get() clones)'),
    ('static', 'src/splitter.cpp', 'splitter_t::all', 'flag', 'static std::once_flag',
     '[sync] guards the registration below'),
    ('static', 'src/splitter.cpp', 'splitter_t::all', 'manager', 'static auto',
     '[sync] factory filled once under std::call_once, read-only afterwards (get() clones)'),
    ('static', 'src/tuner.cpp', 'tuner_t::all', 'flag', 'static std::once_flag',
     '[sync] guards the registration below'),
    ('static', 'src/tuner.cpp', 'tuner_t::all', 'manager', 'static auto',
     '[sync] factory filled once under std::call_once, read-only afterwards (get() clones)'),
    ('static', 'src/wlearner.cpp', 'wlearner_t::all', 'flag', 'static std::once_flag',
     '[sync] guards the registration below'),
    ('static', 'src/wlearner.cpp', 'wlearner_t::all', 'manager', 'static auto',
     '[sync] factory filled once under std::call_once, read-only afterwards (get() clones)'),
]
ALLOW_KEYS = {a[:5]: a[5] for a in ALLOW}
ALLOW_LEAN = os.path.join(vlib.LEAN, "NanoVerif", "Proofs", "SharingAllow.lean")
KIND_LEAN = {"mutable": ".mutable_", "static": ".static_", "indirect": ".indirect", "holder": ".holder"}
KIND_TEXT = {"mutable": "`mutable` member", "static": "non-const static / thread_local / namespace-scope object",
             "indirect": "member through which const does not propagate", "holder": "member of a class with mutable state"}


def allow_lean_text():
    lines = [
        "import NanoVerif.Gen.MutableState",
        "-- written by `python3 tools/props/c18.py emit-allow` from ALLOW of tools/props/c18.py (the reviewed list with its reasons);",
        "-- tools/props/c18.py::static_checks fails when this file and ALLOW differ",
        "namespace NanoVerif.C18",
        "open NanoVerif.Gen.MutableState",
        "",
        "/-- the reviewed entries with the reason of each (tags: see tools/props/c18.py) -/",
        "def allow : List (Entry × String) := [",
    ]
    rows = [f"  (⟨{KIND_LEAN[k]}, {lean_str(f)}, {lean_str(sc)}, {lean_str(n)}, {lean_str(t)}⟩,\n    {lean_str(r)})"
            for (k, f, sc, n, t, r) in sorted(ALLOW)]
    lines.append(",\n".join(rows))
    lines += ["]", "", "end NanoVerif.C18", ""]
    return "\n".join(lines)


def scan_hits(repo):
    """the scan evaluated against the allow-list: [message naming file:line] for every entry that was not reviewed, and the
    scanner's own problems (unparsed declarations, unclassified `static` keywords)"""
    r = _c18_scan.scan_full(repo)
    out = list(r["problems"])
    for e in r["entries"]:
        if e not in ALLOW_KEYS:
            k, f, sc, n, t = e
            out.append(f"{f}:{r['lines'].get(e, 0)}: {KIND_TEXT[k]} `{n}` ({t}) in `{sc}` is not in the reviewed allow-list "
                       f"(tools/props/c18.py ALLOW): state that concurrent const calls may share")
    return out, r


def translate():
    """regex-level scan of /repo/include + /repo/src -> lean/NanoVerif/Gen/MutableState.lean; every hit outside the reviewed
    allow-list breaks the check HERE, before anything runs, naming file:line (the Lean theorem `mutable_state_allowlisted` then
    fails as well: the table is written first)"""
    hits, r = scan_hits(vlib.REPO)
    entries = r["entries"]
    lines = [
        "-- GENERATED by tools/props/c18.py from a scan of include/ and src/ of the repository — do not edit",
        "/-! every `mutable` data member, every non-const `static`/`thread_local`/namespace-scope variable (function-local statics",
        "    included), every data member through which `const` does not propagate (pointers / references to non-const, unique_ptr",
        "    aliases) and every data member whose class has mutable state (`holder`) found in the current sources:",
        "    (kind, file, class or function, name, declared type). -/",
        "namespace NanoVerif.Gen.MutableState",
        "",
        "inductive Kind where",
        "  | mutable_ | static_ | indirect | holder",
        "deriving DecidableEq, Repr",
        "",
        "structure Entry where",
        "  kind : Kind",
        "  file : String",
        "  scope : String",
        "  name : String",
        "  type : String",
        "deriving DecidableEq, Repr",
        "",
        "def table : List Entry := [",
    ]
    rows = [f"  ⟨{KIND_LEAN[k]}, {lean_str(f)}, {lean_str(sc)}, {lean_str(n)}, {lean_str(t)}⟩" for (k, f, sc, n, t) in entries]
    lines.append(",\n".join(rows))
    lines += ["]", "", "end NanoVerif.Gen.MutableState", ""]
    vlib.write_if_changed(os.path.join(vlib.LEAN, "NanoVerif", "Gen", "MutableState.lean"), "\n".join(lines))
    if hits:
        raise vlib.Broken("scan", f"{len(hits)} hit(s) outside the reviewed allow-list: " + " | ".join(hits[:4]))


SCAN_SELFTEST = [
    # (file name, source text, [(kind, scope, name)] the scanner must report)
    ("a.cpp", "namespace { template <class T> auto f(const T& h) { static T I; if (I.rows() != h.rows()) { I = h; } return I; } }",
     [("static", "f", "I")]),
    ("b.cpp", "void g() { const auto op = [&](int i) -> bool { static thread_local int calls = 0; return ++calls > i; }; op(1); }",
     [("static", "g", "calls")]),
    ("c.cpp", "namespace nano { int g_counter = 0; const int g_const = 1; static double g_scale; thread_local int tl; }",
     [("static", "-", "g_counter"), ("static", "-", "g_scale"), ("static", "-", "tl")]),
    ("d.h", "struct base_t { virtual void p() const = 0; }; class derived_t final : public base_t { void p() const override; "
            "using buffers_t = std::vector<int>; mutable buffers_t m_buffers; int m_plain; };",
     [("mutable", "derived_t", "m_buffers")]),
    ("e.cpp", "int h() { static const auto cache = std::make_unique<int>(0); static const std::unique_ptr<int> p{new int}; "
              "static const int k = 3; static constexpr int m = 4; return *p + k + m; }",
     [("static", "h", "p")]),
    ("f.h", "struct it_t { mutable int m_buf; }; struct model_t { it_t m_iterator; const it_t& m_ref; std::vector<it_t> m_all; int m_n; };"
            " struct outer_t { model_t m_model; };",
     [("mutable", "it_t", "m_buf"), ("holder", "model_t", "m_iterator"), ("holder", "model_t", "m_ref"),
      ("holder", "model_t", "m_all"), ("holder", "outer_t", "m_model")]),
    ("g.h", "class k_t { public: static int s_count; static inline long s_total = 0; static int get(); static const int c = 1; };",
     [("static", "k_t", "s_count"), ("static", "k_t", "s_total")]),
]


def scan_selftest():
    """the scanner on hand-written snippets of the constructs the property cares about (seeded changes C18-e1, C18-e2 included)"""
    import shutil
    import tempfile
    out = []
    os.makedirs(TMP, exist_ok=True)
    root = tempfile.mkdtemp(prefix="scan-selftest-", dir=TMP)
    try:
        os.makedirs(os.path.join(root, "include"))
        os.makedirs(os.path.join(root, "src"))
        for name, text, _ in SCAN_SELFTEST:
            open(os.path.join(root, "include" if name.endswith(".h") else "src", name), "w").write(text + "\n")
        r = _c18_scan.scan_full(root)
        got = {(os.path.basename(f), k, sc, n) for (k, f, sc, n, t) in r["entries"]}
        want = {(name, k, sc, n) for name, _, es in SCAN_SELFTEST for (k, sc, n) in es}
        for w in sorted(want - got):
            out.append(f"scanner self-test: {w} not found")
        for g in sorted(got - want):
            out.append(f"scanner self-test: {g} reported but not expected")
        for pb in r["problems"]:
            out.append("scanner self-test: " + pb)
    finally:
        shutil.rmtree(root, ignore_errors=True)
    return out


def static_checks():
    """(1) the scan against the allow-list (file:line of every hit); (2) cross-check of the scanner: every `mutable` keyword
    that is not a lambda specifier must have produced an entry (every `static` / `thread_local` keyword must have been classified:
    a problem of the scan itself); (3) the scanner's self-test; (4) ALLOW == lean/NanoVerif/Proofs/SharingAllow.lean; (5) no
    stale entry in ALLOW (an entry the scan no longer finds must be removed: the list describes the current sources)"""
    import re
    hits, r = scan_hits(vlib.REPO)
    entries = r["entries"]
    out = list(hits)
    count = 0
    for top in ("include", "src"):
        for root, _, names in os.walk(os.path.join(vlib.REPO, top)):
            for fn in names:
                if fn.endswith((".h", ".cpp", ".hpp")):
                    text = _c18_scan.strip_code(open(os.path.join(root, fn), errors="replace").read())
                    for m in re.finditer(r"\bmutable\b\s*(\S{0,8})", text):
                        nxt = m.group(1)
                        if nxt.startswith("{") or nxt.startswith("->") or nxt.startswith("noexcept"):
                            continue  # lambda specifier
                        count += 1
    found = sum(1 for e in entries if e[0] == "mutable")
    if count != found:
        out.append(f"scanner found {found} mutable members but the sources contain {count} `mutable` declarations")
    out += scan_selftest()
    try:
        if open(ALLOW_LEAN).read() != allow_lean_text():
            out.append("lean/NanoVerif/Proofs/SharingAllow.lean differs from ALLOW of tools/props/c18.py "
                       "(run `python3 tools/props/c18.py emit-allow`)")
    except OSError as ex:
        out.append(f"cannot read {ALLOW_LEAN}: {ex}")
    for a in ALLOW:
        if a[:5] not in set(entries):
            out.append(f"stale allow-list entry (the scan no longer finds it): {a[:5]}")
    return out


# ---------------------------------------------------------------------------------------------------------------
# generator

REF = (1, 1, 0, 0)  # dataset threads, cap on pool_t::max_size(), cpus (0 = all), delay permille: the sequential reference


def show_configs(configs):
    return f"{len(configs)} " + " ".join(f"{a} {b} {c} {d}" for (a, b, c, d) in configs)


def pick_configs(rng, tier, n):
    pool = [(2, 2, 0, 0), (16, 0, 0, 0), (4, 0, 1, 100), (16, 0, 2, 50), (3, 2, 0, 200), (2, 0, 0, 300), (8, 4, 0, 20), (16, 16, 1, 0),
            (5, 0, 0, 0), (16, 1, 0, 0), (1, 0, 0, 0), (7, 3, 2, 150)]
    picked = [(16, 0, 0, 0)] + rng.shuffle(pool)[:max(0, n - 1)]
    return [REF] + picked[:n]


def fhex(x):
    return vlib.f2h(x)


def gen_reduce(rng, tier):
    import itertools
    ops = []
    vals = [1.0, 0.1, -2.5, 1e16]
    # exhaustive small: every assignment of K <= 4 contributions to W <= 3 workers (sum), D = 3
    for W in (1, 2, 3):
        for K in range(0, 5):
            for asg in itertools.product(range(W), repeat=K):
                items = " ".join(f"{a} {fhex(vals[k])} {fhex(vals[(k + 1) % 4] * 0.5)} {fhex(float(k))}" for k, a in enumerate(asg))
                ops.append(f"reduce sum {K + 1} {W} 3 {K} {items}".strip())
    # min: every assignment of 4 candidates (scores with a tie / without) to <= 3 workers, every order of the unique-minimum case
    for scores in ([3.0, 1.0, 2.0, 1.5], [3.0, 1.0, 1.0, 2.0], [1.0, 1.0, 1.0, 1.0]):
        for W in (1, 2, 3):
            for asg in itertools.product(range(W), repeat=4):
                items = " ".join(f"{a} {fhex(sc)} {k}" for k, (a, sc) in enumerate(zip(asg, scores)))
                ops.append(f"reduce min {W} 4 {items}")
                ritems = " ".join(f"{a} {fhex(sc)} {3 - k}" for k, (a, sc) in enumerate(zip(asg, scores)))
                ops.append(f"reduce minlex {W} 4 {ritems}")     # every worker sees DEcreasing feature indices
    for perm in itertools.permutations(range(4)):
        items = " ".join(f"{k % 2} {fhex([3.0, 1.0, 2.0, 1.5][k])} {k}" for k in perm)
        ops.append(f"reduce min 2 4 {items}")
    n = 150 if tier == "quick" else 1500
    for _ in range(n):
        W = rng.range(1, 16)
        K = rng.range(0, 40)
        D = rng.range(2, 6)
        scale = rng.choice([1.0, 1e-3, 1e6])
        items = []
        for _ in range(K):
            vs = " ".join(fhex(rng.uniform(-1.0, 1.0) * scale) for _ in range(D))
            items.append(f"{rng.below(W)} {vs}")
        ops.append(f"reduce sum {rng.range(1, 1000)} {W} {D} {K} " + " ".join(items))
    def score_tok(grid):
        if rng.chance(0.06):
            return rng.choice(["7ff0000000000000", "fff0000000000000", "nan", DBL_MAX])
        if grid:
            return fhex(float(rng.range(0, 4)))
        return fhex(rng.uniform(-5.0, 5.0))

    for _ in range(n):
        W = rng.range(1, 16)
        grid = rng.chance(0.6)   # scores from a small grid: many exact ties
        if rng.chance(0.75):
            # what the pool produces: every feature goes to one worker, every worker sees its features in increasing index
            # order (1..3 candidates per feature, consecutively); the workers' streams are interleaved arbitrarily
            nfeat = rng.range(0, 12)
            streams = [[] for _ in range(W)]
            for f in range(nfeat):
                w = rng.below(W)
                for _ in range(rng.range(1, 3)):
                    streams[w].append(f"{w} {score_tok(grid)} {f}")
            items = []
            live = [st for st in streams if st]
            while live:
                st = rng.choice(live)
                items.append(st.pop(0))
                live = [st for st in live if st]
        else:
            K = rng.range(0, 30)
            nfeat = rng.range(1, 8)
            items = [f"{rng.below(W)} {score_tok(grid)} {rng.below(nfeat)}" for _ in range(K)]
        ops.append(f"reduce min {W} {len(items)} " + " ".join(items))
        ops.append(f"reduce minlex {W} {len(items)} " + " ".join(rng.shuffle(items) if rng.chance(0.5) else items))
    return ops


DIFF_DIMS = [2, 3, 4, 5, 7, 9, 13]   # pairwise distinct sizes of the functions minimised concurrently on one shared solver


def gen_shared(rng, tier):
    ops = []
    thorough = tier == "thorough"
    for rep in range(4 if thorough else 2):
        for sid in DET_SOLVERS:
            T = rng.choice([2, 3, 4, 8, 16])
            reps = rng.range(1, 3)
            ls0 = rng.choice(LS0) if (sid in LSEARCH_SOLVERS and rng.chance(0.7)) else "-"
            lsk = rng.choice(LSK) if (sid in LSEARCH_SOLVERS and rng.chance(0.7)) else "-"
            pool = SMOOTH_FUNCTIONS if (sid in LSEARCH_SOLVERS or rng.chance(0.5)) else SMOOTH_FUNCTIONS + NONSMOOTH_FUNCTIONS
            if rep == 0:
                # EVERY solver id: functions of pairwise DIFFERENT sizes minimised at the same time (thread t, call r uses
                # function (t + r) mod nf): state shared between calls and sized by the function (a static work matrix, a
                # cached identity: seeded C18-e2) is resized under the other threads' feet
                nf = rng.range(2, 4)
                dims = rng.shuffle(list(DIFF_DIMS))[:nf]
                T = max(T, nf)
            else:
                nf = rng.range(1, 4)
                dims = [rng.range(2, 8) for _ in range(nf)]
            fs = " ".join(f"{rng.choice(pool)} {d}" for d in dims)
            eps = rng.choice([1e-6, 1e-8, 1e-10])
            evals = rng.choice([100, 300, 1000])
            if sid in ("rqb", "fpba1", "fpba2"):    # a QP per iteration: 16 threads x 3 phases of a long run dominate the quick tier
                evals = min(evals, 150)
                T = min(T, 8)
            ops.append(f"shared minimize {sid} {ls0} {lsk} {T} {reps} {rng.below(10**6)} {fhex(eps)} {evals} {nf} {fs}")
    for lid in LOSSES:
        for _ in range(3 if thorough else 2):
            tsize = rng.range(1, 4)
            ops.append(f"shared loss {lid} {rng.range(20, 400)} {tsize} {rng.choice([2, 4, 8, 16])} {rng.range(1, 3)} {rng.below(10**6)}")
    for _ in range(24 if thorough else 10):
        ops.append(f"shared dataset {rng.below(10**6)} {rng.range(30, 200)} {rng.range(1, 6)} {rng.range(0, 3)} "
                   f"{rng.choice([1, 2, 4, 16])} {rng.choice([2, 4, 8, 16])} {rng.range(1, 3)}")
    for kind in ["linear", "gboost"] * (5 if thorough else 2):
        ops.append(f"shared predict {kind} {rng.below(10**6)} {rng.range(40, 120)} {rng.range(2, 5)} {rng.range(0, 2)} "
                   f"{rng.choice([1, 2, 4, 16])} {rng.choice([2, 4, 8, 16])} {rng.range(1, 3)}")
    # the INLINE path of pool_t::map: every predict call has at most as many samples as the model's batch, or the dataset's
    # pool has one thread - the caller runs the operator itself with tnum 0, so all T callers use slot 0 of any per-thread
    # buffer that belongs to the shared model / dataset (`shared_object_inline_calls_collide`, seeded C18-e1)
    inline = [(16, 16, 12), (2, 16, 5), (1, 16, 0), (1, 10, 30), (16, 1000, 0), (4, 64, 40)]   # batch in [10, 10000]
    for kind in ["linear", "gboost"]:
        for (dsthreads, batch, maxn) in (inline if thorough else rng.shuffle(inline)[:3] + [(1, 16, 0)]):
            ops.append(f"shared predict {kind} {rng.below(10**6)} {rng.range(40, 120)} {rng.range(2, 5)} {rng.range(0, 2)} "
                       f"{dsthreads} {rng.choice([4, 8, 16])} {rng.range(2, 3)} {batch} {maxn}")
    return ops


def gen_wfit(rng, tier):
    ops = []
    thorough = tier == "thorough"
    for wid in WLEARNERS:
        for _ in range(6 if thorough else 3):
            configs = pick_configs(rng, tier, 3)
            task = rng.choice(["reg", "reg", "cls2"])
            dup = 1 if rng.chance(0.4) else 0
            ops.append(f"wfit {wid} {rng.below(10**6)} {rng.range(60, 150)} {rng.range(3, 8)} {rng.range(1, 3)} {task} {dup} "
                       f"{12 if thorough else 6} {show_configs(configs)}")
    return ops


GRID_POOLS = [2, 3, 4, 5, 7, 16]           # dataset pools compared with the sequential reference (pool 1)
SCALAR_WLEARNERS = ["affine", "stump", "hinge", "dtree"]
TABLE_WLEARNERS = ["dense-table", "kbest-table", "ksplit-table", "dstep-table"]


def gen_wgrid(rng, tier):
    """weak-learner fits over dataset pools of 1, 2, 3, 4, 5, 7, 16 threads with feature counts in every residue class modulo the
    pool size: d = 1..32 continuous features for the learners that loop over scalar features (32 covers every residue of every
    pool twice), 1..8 categorical features for the table learners (every residue of pools <= 7; 1..8 of 16). The residuals follow
    the LAST feature of the kind (dup modes 2 / 3): a loop that does not visit the trailing features for some (features, threads)
    pair (`feature_selection_thread_count_independent`, seeded C18-e3) fits another feature than the sequential reference."""
    ops = []
    thorough = tier == "thorough"
    configs = [REF] + [(p, 0, 0, 0) for p in GRID_POOLS]
    for d in range(1, 33):
        for wid in (SCALAR_WLEARNERS if thorough else [SCALAR_WLEARNERS[d % 4], SCALAR_WLEARNERS[(d + 1 + d // 4) % 4]]):
            ops.append(f"wfit {wid} {rng.below(10**6)} {rng.range(50, 90)} {d} {rng.range(0, 1)} reg 2 {2 if thorough else 1} "
                       f"{show_configs(configs)}")
    for ncat in range(1, 9):
        for wid in (TABLE_WLEARNERS if thorough else [TABLE_WLEARNERS[ncat % 4], TABLE_WLEARNERS[(ncat + 2) % 4]]):
            ops.append(f"wfit {wid} {rng.below(10**6)} {rng.range(60, 100)} {rng.range(0, 2)} {ncat} reg 3 {2 if thorough else 1} "
                       f"{show_configs(configs)}")
    return ops


def gen_wtie(rng, tier):
    """table fits on the dataset whose multi-label features precede the single-label ones (two loops into one cache, exact tie
    between features 0 and 3): the residue of 62472c9 repaired by 5de0896"""
    ops = []
    for wid in ["dense-table", "kbest-table", "ksplit-table", "dstep-table"]:
        for threads in ([1, 2, 4, 16] if tier == "thorough" else [1, rng.choice([2, 3]), rng.choice([4, 8, 16])]):
            ops.append(f"wtie mclassfirst {wid} {threads} {100 if tier == 'thorough' else 40}")
    return ops


GB_POOLS = ["stump", "stump,affine", "affine,dense-table", "stump,affine,dense-table", "hinge,stump", "dtree", "stump,dstep-table",
            "hinge,affine", "dtree,affine", "kbest-table,stump", "ksplit-table,hinge"]


def gen_fit(rng, tier):
    """full fits, generated WELL-CONDITIONED so that `predictions within 1e-5` is decidable (see ASSUMPTIONS)"""
    ops = []
    thorough = tier == "thorough"
    for mid in LINEAR:
        for _ in range(4 if thorough else 2):
            configs = pick_configs(rng, tier, 4 if thorough else 3)
            # smooth objectives are minimised with lbfgs, L1-regularised ones with a non-smooth solver (fixed budget)
            if mid in ("ordinary", "ridge"):
                loss, solver, evals = "mse", "lbfgs", 2000
            else:
                loss, solver, evals = "mse", "osga", (3000 if thorough else 1500)
            dup = 1 if (mid in ("ridge", "elastic_net") and rng.chance(0.3)) else 0
            # more samples than columns (<= 5 continuous + 2 x 3 one-hot), noisy targets
            ops.append(f"fit linear {rng.below(10**6)} {rng.range(70, 140)} {rng.range(2, 5)} {rng.range(0, 2)} reg {loss} "
                       f"{rng.range(2, 3)} {rng.below(100)} {mid} standard {solver} {fhex(1e-10)} {evals} "
                       f"{fhex(rng.choice([0.1, 0.2, 0.3]))} {rng.choice([10, 16, 32])} {dup} {show_configs(configs)}")
    # L1-regularised models tuned over two hyper-parameter batches with a fixed-budget non-smooth solver: the fitted model is
    # sensitive to the solver's STARTING points, i.e. to which earlier trial ml::tune hands over as warm start (seeded C18-c1: a
    # trial of the batch in flight, present or not depending on the schedule, showed up in about one such fit in five)
    for k in range(12 if thorough else 5):
        mid = "elastic_net" if k % 2 == 0 else "lasso"
        ops.append(f"fit linear {rng.below(10**6)} {rng.range(70, 120)} {rng.range(4, 5)} {rng.range(0, 2)} reg mse 3 {rng.below(100)} "
                   f"{mid} standard osga {fhex(1e-10)} 1500 {fhex(0.1)} {rng.choice([10, 16])} 0 2 1 1 0 0 16 0 0 0")
    for k in range(90 if thorough else 30):
        configs = pick_configs(rng, tier, 4 if thorough else 3)
        sub = rng.choice(["off", "subsample", "bootstrap"])
        dup = 1 if rng.chance(0.3) else 0
        crit = rng.choice(["rss", "rss", "rss", "aicc", "aicc", "bic"])
        if k % 3 != 2:
            # regression, mse: every scale problem is a strictly convex quadratic
            task, loss, noise = "reg", "mse", rng.choice([0.1, 0.2, 0.3])
            wscale = rng.choice(["gboost", "tboost"])
            protos = rng.choice(GB_POOLS)
            shrinkage = rng.choice(["off", "off", "global", "local"])
        else:
            # classification, logistic: labels flipped with probability `noise`, ONE scale per round, no trees
            task, loss, noise = "cls2", "s-logistic", rng.choice([0.15, 0.2, 0.25])
            wscale = "gboost"
            protos = rng.choice([q for q in GB_POOLS if "dtree" not in q])
            shrinkage = rng.choice(["off", "global"])
        ops.append(f"fit gboost {rng.below(10**6)} {rng.range(80, 150)} {rng.range(3, 6)} {rng.range(1, 2)} {task} {loss} "
                   f"2 {rng.below(100)} {rng.range(10, 16)} {rng.range(2, 4)} {wscale} {shrinkage} {sub} {protos} {crit} "
                   f"{gboost_seed(rng.below(1000))} {fhex(noise)} {rng.choice([10, 16, 32])} {dup} {show_configs(configs)}")
    return ops


def gboost_seed(g):
    """`gboost::seed` lives in [0, 1024]: both ends of the domain are ordinary seeds and come up one time in four each"""
    return 0 if g % 4 == 0 else 1024 if g % 4 == 1 else g


def gen_fit_grid(rng, tier):
    """full gboost fits (stump / affine / dense-table prototypes, mse, no subsampling) under dataset pools 1, 2, 3, 4, 5, 7, 16 with
    d + ncat around multiples of the pool sizes"""
    ops = []
    configs = [REF] + [(p, 0, 0, 0) for p in GRID_POOLS]
    shapes = [(4, 1), (5, 0), (7, 2), (8, 1), (9, 0), (15, 2), (16, 1), (17, 0), (6, 1), (13, 2), (21, 0), (31, 2)]
    for (d, ncat) in (shapes if tier == "thorough" else rng.shuffle(shapes)[:3] + [(9, 0)]):
        protos = rng.choice(["stump", "stump,affine", "stump,dense-table" if ncat else "hinge,stump", "dtree"])
        ops.append(f"fit gboost {rng.below(10**6)} {rng.range(80, 130)} {d} {ncat} reg mse 2 {rng.below(100)} 10 3 gboost off off "
                   f"{protos} rss {rng.below(1000)} {fhex(0.2)} {rng.choice([10, 16, 32])} 0 {show_configs(configs)}")
    return ops


def gen(rng, tier):
    os.makedirs(TMP, exist_ok=True)
    COUNTS.clear()
    ops = []
    cp = os.path.join(vlib.VERIF, "corpus", "C18", "ops.txt")
    if os.path.exists(cp):
        ops += [l.strip() for l in open(cp) if l.strip() and not l.startswith("#")]
    ops += gen_reduce(rng, tier)
    ops += gen_shared(rng, tier)
    ops += gen_wfit(rng, tier)
    ops += gen_wgrid(rng, tier)
    ops += gen_wtie(rng, tier)
    ops += gen_fit(rng, tier)
    ops += gen_fit_grid(rng, tier)
    return ops


# ---------------------------------------------------------------------------------------------------------------
# oracle: the property statement evaluated on the implementation's answers (python, independent of the Lean model)

def model_skip(aug):
    return not aug.startswith("reduce ")


NCONF_AT = {"wfit": 9, "fit linear": 18, "fit gboost": 21}   # index of <nconf> in the op line (see harness/c18.cpp)


def nconf_index(t):
    if t and t[0] == "wfit":
        return NCONF_AT["wfit"]
    if len(t) > 1 and t[0] == "fit":
        return NCONF_AT.get("fit " + t[1])
    return None


def parse_configs_of(op):
    """the configuration list `<n> {4 ints}*n` of a wfit / fit op ([] when the line is not of that shape)"""
    t = op.split()
    i = nconf_index(t)
    if i is None or i >= len(t):
        return []
    try:
        n = int(t[i])
        tail = [int(x) for x in t[i + 1:]]
    except ValueError:
        return []
    if n < 1 or len(tail) != 4 * n:
        return []
    return [tuple(tail[4 * k:4 * k + 4]) for k in range(n)]


def nontrivial(op):
    t = op.split()
    if t[0] == "shared":
        T = {"minimize": 5, "loss": 5, "dataset": 7, "predict": 8, "setlabel": 2}.get(t[1])
        return T is not None and int(t[T]) >= 2
    if t[0] in ("wfit", "fit"):
        return len(set(parse_configs_of(op))) >= 2
    if t[0] == "wtie":
        return int(t[3]) >= 2
    if t[0] == "reduce":
        r = Toks(op); r.s(); kind = r.s()
        if kind == "sum":
            r.int(); W = r.int(); D = r.int(); K = r.int()
            ws = set()
            for _ in range(K):
                ws.add(r.int())
                for _ in range(D):
                    r.s()
            return len(ws) >= 2
        W = r.int(); K = r.int(); ws = set()
        for _ in range(K):
            ws.add(r.int()); r.s(); r.s()
        return len(ws) >= 2
    return False


def ranges_text(values):
    vs = sorted(set(values))
    out, i = [], 0
    while i < len(vs):
        j = i
        while j + 1 < len(vs) and vs[j + 1] == vs[j] + 1:
            j += 1
        out.append(str(vs[i]) if i == j else f"{vs[i]}-{vs[j]}")
        i = j + 1
    return ",".join(out)


def distribution(ops):
    d = {}
    grid = {}
    for op in ops:
        t = op.split()
        k = f"{t[0]}/{t[1]}" if t[0] in ("shared", "fit", "reduce", "wtie") else t[0]
        if t[0] == "shared" and t[1] == "minimize":
            k += "/" + t[2]
        if t[0] == "wfit":
            k += "/" + t[1]
        if t[0] == "fit" and t[1] == "linear":
            k += "/" + t[10]
        if t[0] == "fit" and t[1] == "gboost":
            k += "/" + t[6]
        d[k] = d.get(k, 0) + 1
        if t[0] == "shared" and t[1] == "minimize":
            dims = [int(x) for x in t[12::2]]
            if len(set(dims)) >= 2:
                d["shared/minimize:different-sizes"] = d.get("shared/minimize:different-sizes", 0) + 1
                d["shared/minimize:different-sizes/" + t[2]] = d.get("shared/minimize:different-sizes/" + t[2], 0) + 1
        if t[0] == "shared" and t[1] == "predict" and len(t) >= 12:
            inline = int(t[7]) == 1 or (0 < int(t[11]) <= int(t[10]))
            kk = f"shared/predict/{t[2]}:" + ("inline-path" if inline else "explicit-batch")
            d[kk] = d.get(kk, 0) + 1
        if t[0] in ("wfit", "fit"):
            pools = sorted({c[0] for c in parse_configs_of(op)})
            if pools == [1] + GRID_POOLS:
                nfeat = int(t[4]) if (t[0] == "fit" or t[7] == "2") else int(t[5])
                kind = "fit-gboost" if t[0] == "fit" else ("scalar" if t[7] == "2" else "sclass")
                grid.setdefault(kind, []).append(nfeat)
        if t[0] in ("wfit", "fit"):
            i = nconf_index(t)
            if i is not None and t[i - 1 if t[0] == "fit" else 7] == "1":
                d["duplicated-columns"] = d.get("duplicated-columns", 0) + 1
    for kind, feats in grid.items():   # which pool sizes x feature counts were generated
        d[f"grid:{kind}:pools=1,2,3,4,5,7,16:features={ranges_text(feats)}"] = len(feats)
    for k, v in COUNTS.items():      # what the oracle saw on the implementation's answers
        d["oracle:" + k] = v
    return d


def oracle_shared(op, res):
    t = res.split()
    if t[0] != "ok":
        return f"implementation did not answer ok: {res[:120]}"
    T, n = int(t[1]), int(t[2])
    if len(t) != 3 + 3 * (n + 1) or t[3] != "S" or t[4 + n] != "C" or t[5 + 2 * n] != "A":
        return f"malformed answer ({len(t)} tokens for {n} calls)"
    S, C, A = t[4:4 + n], t[5 + n:5 + 2 * n], t[6 + 2 * n:6 + 3 * n]
    for k in range(n):
        for name, r in (("alone", S[k]), ("concurrent", C[k]), ("alone-again", A[k])):
            if r.startswith("EXC:"):
                return f"call {k} ({name}) threw: {r}"
    for k in range(n):
        if C[k] != S[k]:
            return f"call {k}: concurrent result differs from the same call executed alone: {diff_tokens(S[k], C[k])}"
    for k in range(n):
        if A[k] != S[k]:
            return f"call {k}: the same call executed alone AFTER the concurrent phase differs from before it: {diff_tokens(S[k], A[k])}"
    return None


def diff_tokens(a, b):
    pa, pb = a.split(","), b.split(",")
    for x, y in zip(pa, pb):
        if x != y:
            return f"{x[:60]} vs {y[:60]}"
    return f"{a[:60]} vs {b[:60]}"


def read_lists(r):
    k = r.int()
    out = []
    for _ in range(k):
        n = r.int()
        out.append(tuple(r.int() for _ in range(n)))
    return out


def count(key, n=1):
    COUNTS[key] = COUNTS.get(key, 0) + n


def copy_selected(feats, ncat, d):
    """duplicated columns: the continuous features x2, x4, … are bit-identical copies of x0 (dataset index ncat + i); a fit that
    breaks exact ties by the smallest feature index never selects one of them"""
    for f in feats:
        i = f - ncat
        if 2 <= i < d and i % 2 == 0:
            return f
    return None


def oracle_wfit(op, res):
    r = Toks(res)
    if r.s() != "ok":
        return f"implementation did not answer ok: {res[:120]}"
    t = op.split()
    d, ncat, dup = int(t[4]), int(t[5]), t[7] == "1"
    nconf = r.int()
    outcomes = []
    for c in range(nconf):
        reps = r.int()
        for rep in range(reps):
            score = r.s(); h = r.s()
            feats = read_lists(r)
            outcomes.append((c, rep, score, h, feats))
    if not r.done():
        return "malformed answer"
    ref = outcomes[0]
    for o in outcomes:
        if dup:
            bad = copy_selected([f for l in o[4] for f in l], ncat, d)
            if bad is not None:
                return (f"tie: config {o[0]} rep {o[1]}: duplicated columns, feature {bad} (a copy of feature {ncat}) was selected "
                        f"although the copy with the smallest index has the same score (features {o[4]})")
    for o in outcomes[1:]:
        if o[2] != ref[2]:
            return f"config {o[0]} rep {o[1]}: score {o[2]} differs from the sequential reference {ref[2]} (features {o[4]} vs {ref[4]})"
        if o[4] != ref[4]:
            # bit-identical inputs and bit-identical best scores, yet another feature: an exact score tie decided by the schedule
            return (f"tie: config {o[0]} rep {o[1]}: same inputs and same score {ref[2]} but the selected features differ from the "
                    f"sequential reference: {o[4]} vs {ref[4]}")
        if o[3] != ref[3]:
            return f"config {o[0]} rep {o[1]}: same score and features but different predictions ({o[3]} vs {ref[3]})"
    if dup:
        count("duplicated-columns-identical")
    return None


def close_pred(a, b, scale):
    if a != a or b != b:
        return (a != a) and (b != b)
    # relative to the prediction itself, plus an absolute floor relative to the largest prediction: a prediction that cancels down to
    # 1e-4 of the scale carries the (solver-accuracy sized) noise of its O(scale) terms (VERIF_SEED=81: 1.6983945e-4 vs 1.6983570e-4
    # with predictions of order 1, lasso + osga: flagged with the former floor 1e-9 * scale - a false alarm)
    return abs(a - b) <= 1e-5 * max(abs(a), abs(b)) + 1e-6 * scale


NEAR = 1e-7   # the near-tie band (see ASSUMPTIONS)


def read_divergence(r):
    kind = r.s()
    if kind == "ref":
        return ("ref",)
    if kind == "same":
        return ("same", r.int(), r.int(), r.f())
    if kind == "flip":
        return ("flip", r.int(), r.int(), r.int(), r.s(), r.f(), r.int(), r.f(), r.f(), r.f(), r.f())
    raise ValueError("divergence kind " + kind)


def oracle_fit(op, res):
    r = Toks(res)
    if r.s() != "ok":
        return f"implementation did not answer ok: {res[:120]}"
    t = op.split()
    d, ncat = int(t[4]), int(t[5])
    dup = t[nconf_index(t) - 1] == "1"
    nconf = r.int()
    confs = []
    for c in range(nconf):
        if r.s() != "C":
            return "malformed answer (C)"
        ds, mx, trials, opt = r.int(), r.int(), r.int(), r.int()
        if r.s() != "F":
            return "malformed answer (F)"
        feats = read_lists(r)
        if r.s() != "P":
            return "malformed answer (P)"
        preds = [r.f() for _ in range(r.int())]
        if r.s() != "Z":
            return "malformed answer (Z)"
        zero = r.int()
        if r.s() != "D":
            return "malformed answer (D)"
        div = read_divergence(r)
        confs.append((ds, mx, trials, opt, feats, preds, div, zero))
    if not r.done():
        return "malformed answer"
    ref = confs[0]
    scale = max([abs(p) for p in ref[5] if p == p] + [0.0])
    if dup:
        for k, cf in enumerate(confs):
            bad = copy_selected([f for l in cf[4] for f in l], ncat, d)
            if bad is not None:
                return (f"tie: config {k} (dataset pool {cf[0]}, max pool {cf[1]}): duplicated columns, feature {bad} (a copy of "
                        f"feature {ncat}) was selected although the copy with the smallest index has the same score")
    compared = 0
    for k, cf in enumerate(confs[1:], 1):
        where = f"config {k} (dataset pool {cf[0]}, max pool {cf[1]})"
        div = cf[6]
        if div[0] == "flip":
            _, fits, matched, flips, proto, gdiff, same, sref, scfg, mc, mr = div
            if same == 1 or gdiff == 0.0:
                return (f"tie: {where}: a {proto} fit got bit-identical inputs (fit samples, gradients) but selected another "
                        f"candidate than in the sequential reference (scores {sref!r} vs {scfg!r}; {flips} of {matched} matched fits differ)")
            near = (gdiff <= NEAR and abs(sref - scfg) <= NEAR * max(1.0, abs(sref), abs(scfg)) and abs(mc) <= NEAR and abs(mr) <= NEAR)
            if near:
                count("near_tie_flips")
                continue
            if proto in ("ksplit-table", "dtree") and 0.0 < gdiff <= NEAR:
                # GREEDY fits (the agglomeration of the k-split table merges the closest pair of clusters; the tree fixes its root
                # split before its children): a tie INSIDE the algorithm - two cluster pairs at the same distance, two root splits
                # with the same score - is decided by gradients that differ at rounding level between pool sizes (re-associated
                # reductions), and the final scores then differ by much more than rounding. The inputs were NOT bit-identical
                # (that case is flagged above), so this is floating-point re-association amplified by a discontinuous algorithm,
                # which the statement allows; counted, not flagged (first flagged at VERIF_SEED=70: a false alarm)
                count("greedy_fit_rounding_flips")
                continue
            return (f"{where}: selected features differ from the sequential reference and it is not a near-tie: {flips} of {matched} "
                    f"matched weak-learner fits differ, the worst ({proto}): gradients differ by {gdiff:.3g} relative, scores "
                    f"{sref!r} vs {scfg!r}, RSS margins {mc:.3g} / {mr:.3g} of the squared residuals")
        if div[0] in ("same", "flip") and div[1] > 0 and div[2] == 0:
            # not even the FIRST boosting round of any booster (trial, fold) ran on the inputs it had in the sequential reference
            # (same prototype, same fit samples, gradients within 1e-6): the sub-samples drawn with the fixed seed, or the gradients
            # at the fitted bias, depend on the configuration. No coin flip of a later round explains that (seeded C18-i2: the
            # excuse below had swallowed it whenever one of the two runs ended on a zero scale)
            return (f"{where}: none of the {div[1]} weak-learner fits has a partner in the sequential reference (same prototype, same "
                    f"fit samples, gradients within 1e-6): already the first boosting round ran on other inputs although seed and "
                    f"data are the same ({len(cf[4])} vs {len(ref[4])} weak learners; first selected {cf[4][:3]} vs {ref[4][:3]})")
        if len(cf[5]) != len(ref[5]):
            return f"{where}: {len(cf[5])} predictions vs {len(ref[5])}"
        bad = [(i, a, b) for i, (a, b) in enumerate(zip(ref[5], cf[5])) if not close_pred(a, b, scale)]
        if (ref[7] or cf[7]) and (bad or cf[4] != ref[4] or cf[2] != ref[2] or cf[3] != ref[3]):
            # a boosting round whose optimal scale is exactly zero: gboost stops or goes on depending on the sign of the noise
            count("zero_scale_coin_flips")
            continue
        drift = (f"{div[2]} of {div[1]} weak-learner fits matched, all with the same structure, gradients within {div[3]:.3g}"
                 if div[0] == "same" else "no trace")
        if cf[4] == ref[4] and not bad and (cf[2] != ref[2] or cf[3] != ref[3]):
            # same selected features and predictions within rounding, but the tuner took another path (number of trials / index of
            # the optimum trial): its proposals branch on trial values that differ at rounding level between pool sizes (non-smooth
            # solver + re-associated reductions). The statement is about the fitted model, not the tuner's bookkeeping: counted,
            # not flagged (first flagged at VERIF_SEED=63: lasso + osga, 8 vs 9 trials, identical model - a false alarm)
            count("tuner_path_differs_same_model")
            compared += 1
            continue
        if cf[4] != ref[4] or cf[2] != ref[2] or cf[3] != ref[3]:
            first = next((i for i, (x, y) in enumerate(zip(ref[4], cf[4])) if x != y), min(len(ref[4]), len(cf[4])))
            return (f"{where}: selected features differ from the sequential reference at weak learner {first}: "
                    f"{cf[4][first:first + 3]} vs {ref[4][first:first + 3]} ({len(cf[4])} vs {len(ref[4])} weak learners; optimum trial "
                    f"{cf[3]} vs {ref[3]} of {cf[2]}/{ref[2]}; {len(bad)} predictions beyond 1e-5; {drift})")
        if bad:
            i, a, b = bad[0]
            return (f"{where}: {len(bad)} predictions differ by more than 1e-5 relative from the sequential reference, e.g. sample "
                    f"{i}: {a!r} vs {b!r} (optimum trial {cf[3]} vs {ref[3]} of {cf[2]}/{ref[2]}; {drift})")
        compared += 1
        if div[0] == "same":
            count("fits_bit_identical" if div[3] == 0.0 and div[1] == div[2] else "fits_within_rounding")
            COUNTS["max_gradient_drift"] = max(COUNTS.get("max_gradient_drift", 0.0), div[3])
    if dup and compared:
        count("duplicated-columns-identical")
    return None


def min_schedule_sorted(items):
    """every feature is processed by one worker and every worker sees non-decreasing feature indices (what pool_t::map produces)"""
    owner, last = {}, {}
    for w, _, f in items:
        if owner.setdefault(f, w) != w:
            return False
        if w in last and f < last[w]:
            return False
        last[w] = f
    return True


def oracle_reduce(op, res):
    import math
    r = Toks(op); r.s(); kind = r.s()
    a = Toks(res)
    if a.s() != "ok":
        return f"implementation did not answer ok: {res[:120]}"
    if kind == "sum":
        n, W, D, K = r.int(), r.int(), r.int(), r.int()
        cols = [[] for _ in range(D)]
        for _ in range(K):
            r.int()
            for d in range(D):
                cols[d].append(r.f())
        got = a.fs()
        if len(got) != D:
            return "wrong size"
        for d in range(D):
            want = math.fsum(cols[d]) / n
            tol = 1e-12 * (math.fsum(abs(v) for v in cols[d]) / n) + 5e-324
            if not abs(got[d] - want) <= tol:
                return f"component {d}: reduced value {got[d]!r} differs from the plain sum / samples {want!r} by more than 1e-12 relative"
        return None
    W, K = r.int(), r.int()
    items = []
    for _ in range(K):
        w = r.int(); sc = r.f(); f = r.int()
        items.append((w, sc, f))
    cands = [(sc, f) for _, sc, f in items if sc == sc and abs(sc) != float("inf") and sc < h2f(DBL_MAX)]
    score, feat = a.f(), a.int()
    if not cands:
        return None if (vlib.f2h(score) == DBL_MAX and feat == -1) else f"no finite candidate but ({score!r}, {feat}) returned"
    m = min(sc for sc, _ in cands)
    winners = sorted({f for sc, f in cands if sc == m})
    if score != m:
        return f"reduced score {score!r} is not the minimal score {m!r}"
    if feat not in winners:
        return f"feature {feat} does not attain the minimal score (features that do: {winners})"
    if kind == "minlex":
        # lexicographic caches + lexicographic reduction: the smallest index among the minimal scores for EVERY schedule
        count("minlex_schedules")
        if feat != winners[0]:
            return (f"tie: lexicographic caches: features {winners} tie on the minimal score {m!r}, but feature {feat} was selected "
                    f"instead of the smallest index {winners[0]}")
        return None
    if min_schedule_sorted(items):
        count("min_sorted_schedules")
        if len(winners) > 1:
            count("min_sorted_schedules_with_tie")
        if feat != winners[0]:
            return (f"tie: every worker processed its features in increasing index order and features {winners} tie on the minimal "
                    f"score {m!r}, but feature {feat} was selected instead of the smallest index {winners[0]}")
    else:
        count("min_unsorted_schedules")
    return None


def oracle(op, res):
    t = op.split()
    if t[0] == "shared":
        return oracle_shared(op, res)
    if t[0] == "wfit":
        return oracle_wfit(op, res)
    if t[0] == "fit":
        return oracle_fit(op, res)
    if t[0] == "reduce":
        return oracle_reduce(op, res)
    if t[0] == "wtie":
        a = res.split()
        if a[0] != "ok":
            return f"implementation did not answer ok: {res[:120]}"
        got = sorted(set(a[2:]))
        # features 0 (multi-label) and 3 (single-label) induce the same partition: bit-identical scores; the smallest index wins
        if got != ["0"]:
            return (f"tie: {t[2]} on the dataset with multi-label features first ({t[3]} threads): features 0 and 3 tie exactly, the "
                    f"{a[1]} repetitions selected {got} instead of always feature 0")
        count("two-loop-ties")
        return None
    return f"unknown family {t[0]}"


def classify(op, kind, detail):
    t = op.split()
    fam = "-".join(t[:2]) if t and t[0] in ("shared", "fit", "reduce", "wtie") else (t[0] if t else "?")
    if kind == "oracle" and detail.startswith("tie:"):
        return TIE_KEY      # an exact score tie decided by the schedule (fixed by 62472c9: a regression of the tie-break)
    if kind == "crash":
        return fam + (":tsan-report" if "ThreadSanitizer" in detail else ":crash")
    if kind == "corr":
        return fam + ":model-differs"
    if "differs from the same call executed alone" in detail:
        return fam + ":concurrent-differs-from-sequential"
    if "AFTER the concurrent phase" in detail:
        return fam + ":state-leaked-into-later-calls"
    if "has a partner in the sequential reference" in detail:
        return fam + ":first-round-inputs-differ"
    if "selected features differ" in detail:
        return fam + ":features-differ"
    if "rounds, the sequential reference" in detail or "tuning trials" in detail:
        return fam + ":boosting-rounds-differ"
    if "predictions differ" in detail:
        return fam + ":predictions-differ"
    return fam + ":other"


def shrink_candidates(op):
    t = op.split()
    out = []
    if t[0] == "shared":
        i = {"minimize": 5, "loss": 5, "dataset": 7, "predict": 8}.get(t[1])
        if i is not None:
            T, reps = int(t[i]), int(t[i + 1])
            for T2 in sorted({2, T // 2, T - 1}):
                if 2 <= T2 < T:
                    out.append(" ".join(t[:i] + [str(T2)] + t[i + 1:]))
            if reps > 1:
                out.append(" ".join(t[:i + 1] + ["1"] + t[i + 2:]))
    elif t[0] in ("wfit", "fit"):
        cs = parse_configs_of(op)
        n = len(cs)
        if n > 2:
            head = t[:nconf_index(t)]
            for k in range(1, n):
                keep = [cs[0], cs[k]]
                out.append(" ".join(head) + " " + show_configs(keep))
    return out


if __name__ == "__main__":
    # `python3 tools/props/c18.py scan [repo]`   the source scan alone, against the allow-list (exit 1 when there are hits)
    # `python3 tools/props/c18.py emit-allow`    rewrite lean/NanoVerif/Proofs/SharingAllow.lean from ALLOW
    cmd = sys.argv[1] if len(sys.argv) > 1 else "scan"
    if cmd == "emit-allow":
        vlib.write_if_changed(ALLOW_LEAN, allow_lean_text())
        print("written", ALLOW_LEAN)
    elif cmd == "scan":
        hits, r = scan_hits(sys.argv[2] if len(sys.argv) > 2 else vlib.REPO)
        for h in hits:
            print("HIT " + h)
        print(f"{len(r['entries'])} entries, {len(hits)} outside the allow-list")
        sys.exit(1 if hits else 0)
    else:
        sys.exit("usage: c18.py scan [repo] | emit-allow")
