"""C18 — shared const objects are thread-safe with schedule-independent results (DESIGN.md §4 C18).

PARTIAL claim (LEVEL = "other"): a data race is a fact about the C++ memory model and the compiled code, which no Lean model of
the library can exhibit. Proved (Props/C18.lean): the LOGIC that makes the code race-free and schedule-independent. Tested and
labelled as testing: concurrent vs sequential runs (bit-identical), fits under different pool sizes / CPU affinity / injected
delays, ThreadSanitizer in the thorough tier.
"""
import os
import sys

import vlib
from vlib import Toks, h2f

sys.path.insert(0, os.path.dirname(os.path.abspath(__file__)))
import _c18_scan

ID = "C18"
LEVEL = "other"
EXPLANATION = (
    "PARTIAL. A data race is a fact about the C++ memory model and the compiled code; no Lean model of the library exhibits one, so "
    "'no data races' and 'bit-identical results' are NOT proved. Proved in Lean (8 obligations, all schedules / assignments / "
    "interleavings): tasks running at the same time have different worker ids, hence per-worker buffers are never written "
    "concurrently (on the pool protocol model of C17); the (trial, fold) tasks of ml::tune write disjoint ranges of m_values and "
    "distinct m_extras slots, in bounds, and read only slots written before the batch (C13 slot arithmetic + C16 addressing); "
    "sum_reduce / min_reduce give the same value for every assignment of chunks to workers in exact arithmetic (min: under the "
    "hypothesis that one feature only attains the minimal score); with per-call clones of the line-search prototypes the state of a "
    "minimize call depends on the solver object and the call's own arguments only; every mutable member / non-const static / "
    "pointer-or-reference member found by a regex-level scan of the current sources is in a reviewed allow-list (decide). "
    "TESTED, labelled as testing (the counts under evaluations / distinct_nontrivial): the same calls executed alone, then from "
    "2..16 threads at once, then alone again on ONE shared solver / loss + tensors / dataset / fitted model must be bit-identical; "
    "weak-learner fits and full fits of linear (4 regularisers) and gboost models repeated with dataset pools of 1..16 threads, "
    "pool_t::max_size() capped to 1, 2, all (by interposing std::thread::hardware_concurrency in the harness, the hook H1b does "
    "not exist), CPU affinity of 1 or 2 cores and random delays at the pool's synchronisation points must select the same features "
    "and predict within 1e-5 relative; the thorough tier runs all of it under ThreadSanitizer (halt_on_error). Only the two "
    "reductions of reduce.h have a model/implementation correspondence (Lean driver at Float vs the real templates, exact).")
HARNESS = "c18"
LEAN_MODULES = ["NanoVerif.Props.C18"]
NS = "NanoVerif.C18."
OBLIGATIONS = [NS + t for t in [
    "perthread_buffers_exclusive", "seqpath_one_at_a_time", "tune_writes_disjoint", "sum_reduce_assignment_independent",
    "sum_reduce_schedules_agree", "min_reduce_assignment_independent", "minimize_is_pure", "mutable_state_allowlisted",
]]
TRUSTED = [
    "Lean 4.33.0 kernel; Mathlib modules Algebra.BigOperators.Group.List.Basic, Order.Defs.LinearOrder (+ what Props/C13 imports)",
    "axioms: at most propext, Classical.choice, Quot.sound (audited per theorem on every run)",
    "the models the theorems are about: Model/Pool.lean (C17, tied to the code by trace validation there), Model/Tune.lean (C13) and "
    "Model/Tensor.lean (C16) (each tied to the code by its own property's correspondence), Model/Reduce.lean (sum_reduce/min_reduce: "
    "tied by the `reduce` ops of this check; the World/exec model of solver_t::make_lsearch: hand-written from solver.cpp:94-106 and "
    "solver/lsearch.cpp, NOT tied by a correspondence — it states the sharing discipline, the tests observe its consequence)",
    "tools/props/_c18_scan.py: a regex-level scanner, not a C++ parser (comments/strings stripped, brace tracking); cross-checked on "
    "every run against a plain count of the `mutable` keyword; the reasons in the allow-list are a human review, not a proof",
    "harness/c18.cpp (thread start barrier, per-thread function objects/buffers/loggers, link-time interposition of "
    "std::thread::hardware_concurrency, sched_setaffinity, delays through pool hook H1), tools/props/c18.py (generator + oracle)",
    "ThreadSanitizer (thorough tier) for the observation of data races on the schedules that happened; g++/libstdc++/Eigen",
]
ASSUMPTIONS = [
    "each thread uses its own function object, buffers and logger (statement of C18); a logger shared by concurrent calls writes to "
    "one unsynchronised std::ostream and is outside the claim",
    "exact arithmetic in the reduction theorems; in binary64 sum_reduce depends on the chunk->worker assignment at rounding level "
    "(that is the 'up to floating-point re-association' of the statement; tested with the 1e-5 relative tolerance only)",
    "min_reduce_assignment_independent needs a unique best feature; under an exact score tie the selected feature IS schedule "
    "dependent (KNOWN_FINDINGS feature-tie:schedule-dependent-selection; example in Props/C18.lean)",
    "the scan does not see: state reached through const_cast, globals of other libraries (Eigen, libstdc++), lambdas' captured "
    "references, placement of objects in shared memory by the caller; `indirect` entries list declared types, not what is done through them",
    "feature_t::set_label is a const method that writes m_labels without synchronisation (used while loading only): concurrent "
    "set_label calls on a shared feature race; not an operation C18 quantifies over (harness op `shared setlabel` demonstrates it under TSan)",
    "pool sizes: the dataset's pool is set through the API; ml::tune's own pool only through the interposed hardware_concurrency "
    "(a harness device; with the real function it always has hardware_concurrency workers)",
]
RULE = ("corpus; exhaustive-small reduce schedules (every assignment of <= 4 contributions/candidates to <= 3 workers) + random "
        "reduce schedules (<= 16 workers, ties and non-finite scores included); one `shared minimize` per deterministic solver type "
        "(all but the 4 gradient-sampling ones) with random line-search pairs, 2..16 threads x 1..3 calls on distinct function objects; "
        "every loss id on shared tensors; shared datasets (flatten/select/targets + iterators on the shared pool); predict on shared "
        "fitted linear/gboost models; every weak learner fitted repeatedly under pools of 1/2/3/16 threads, restricted affinity and "
        "delays; full fits of ordinary/lasso/ridge/elastic-net and of gboost (weak-learner pools, subsample/bootstrap with fixed seed) "
        "under configurations (dataset threads, max pool size, cpus, delay permille) always starting with the sequential reference "
        "(1, 1, all, 0); datasets without duplicated columns, plus ONE duplicated-column weak-learner case and ONE duplicated-column "
        "gboost case (exact ties). A case is non-trivial when the concurrent run used >= 2 threads on shared objects / the fit was "
        "compared under >= 2 different pool settings / the reduce schedule has >= 2 workers with work; distinct by op text")
FLAVOUR = {"quick": "plain", "thorough": "tsan"}
EXHAUSTIVE = {"quick": False, "thorough": False}
RTOL = 0.0
HARNESS_TIMEOUT = 3000
TMP = os.path.join(vlib.CACHE, "c18-tmp")
HARNESS_ENV = {"TMPDIR": TMP, "TSAN_OPTIONS": "halt_on_error=1:exitcode=66:second_deadlock_stack=1"}
TIE_KEY = "feature-tie:schedule-dependent-selection"
DBL_MAX = "7fefffffffffffff"

DET_SOLVERS = ["gd", "sgm", "cgd-pr", "cgd-n", "cgd-hs", "cgd-fr", "cgd-cd", "cgd-ls", "cgd-dy", "cgd-dycd", "cgd-dyhs", "cgd-frpr",
               "osga", "lbfgs", "dfp", "sr1", "bfgs", "hoshino", "fletcher", "ellipsoid", "asga2", "asga4", "cocob", "sda", "wda",
               "pgm", "dgm", "fgm", "rqb", "fpba1", "fpba2"]
LSEARCH_SOLVERS = {"gd", "cgd-pr", "cgd-n", "cgd-hs", "cgd-fr", "cgd-cd", "cgd-ls", "cgd-dy", "cgd-dycd", "cgd-dyhs", "cgd-frpr",
                   "lbfgs", "dfp", "sr1", "bfgs", "hoshino", "fletcher"}
LS0 = ["linear", "constant", "quadratic", "cgdescent"]
LSK = ["fletcher", "backtrack", "cgdescent", "lemarechal", "morethuente"]
SMOOTH_FUNCTIONS = ["sphere", "trid", "sargan", "zakharov", "quadratic", "rosenbrock", "exponential", "dixon-price", "chung-reynolds",
                    "axis-ellipsoid", "styblinski-tang", "schumer-steiglitz", "rotated-ellipsoid", "powell", "qing", "cauchy",
                    "mse+ridge[1]", "logistic+ridge[1]", "geometric-optimization"]
NONSMOOTH_FUNCTIONS = ["maxq", "maxquad", "maxhilb", "chained_lq", "chained_cb3I", "chained_cb3II", "kinks", "mse+lasso[1]",
                       "mae+ridge[1]", "hinge+elasticnet[1,1]"]
LOSSES = ["mae", "mse", "cauchy", "m-hinge", "s-hinge", "m-squared-hinge", "s-squared-hinge", "s-classnll", "m-savage", "s-savage",
          "m-tangent", "s-tangent", "m-logistic", "s-logistic", "s-exponential", "m-exponential", "pinball"]
WLEARNERS = ["affine", "stump", "hinge", "dense-table", "kbest-table", "ksplit-table", "dstep-table", "dtree"]
LINEAR = ["ordinary", "lasso", "ridge", "elastic_net"]


def lean_str(s):
    return '"' + s.replace("\\", "\\\\").replace('"', '\\"') + '"'


def translate():
    """regex-level scan of /repo/include + /repo/src -> lean/NanoVerif/Gen/MutableState.lean"""
    entries, problems, _ = _c18_scan.scan(vlib.REPO)
    if problems:
        raise vlib.Broken("translate", "; ".join(problems[:5]))
    kinds = {"mutable": ".mutable_", "static": ".static_", "indirect": ".indirect"}
    lines = [
        "-- GENERATED by tools/props/c18.py from a scan of include/ and src/ of the repository — do not edit",
        "/-! every `mutable` data member, every non-const `static`/`thread_local`/namespace-scope variable and every data member",
        "    through which `const` does not propagate (pointers / references to non-const, unique_ptr aliases) found in the",
        "    current sources: (kind, file, class or function, name, declared type). -/",
        "namespace NanoVerif.Gen.MutableState",
        "",
        "inductive Kind where",
        "  | mutable_ | static_ | indirect",
        "deriving DecidableEq, Repr",
        "",
        "structure Entry where",
        "  kind : Kind",
        "  file : String",
        "  scope : String",
        "  name : String",
        "  type : String",
        "deriving DecidableEq, Repr",
        "",
        "def table : List Entry := [",
    ]
    rows = [f"  ⟨{kinds[k]}, {lean_str(f)}, {lean_str(sc)}, {lean_str(n)}, {lean_str(t)}⟩" for (k, f, sc, n, t) in entries]
    lines.append(",\n".join(rows))
    lines += ["]", "", "end NanoVerif.Gen.MutableState", ""]
    vlib.write_if_changed(os.path.join(vlib.LEAN, "NanoVerif", "Gen", "MutableState.lean"), "\n".join(lines))


def static_checks():
    """cross-check of the scanner: every `mutable` keyword that is not a lambda specifier must have produced an entry"""
    import re
    entries, problems, _ = _c18_scan.scan(vlib.REPO)
    out = list(problems)
    count = 0
    for top in ("include", "src"):
        for root, _, names in os.walk(os.path.join(vlib.REPO, top)):
            for fn in names:
                if fn.endswith((".h", ".cpp", ".hpp")):
                    text = _c18_scan.strip_code(open(os.path.join(root, fn), errors="replace").read())
                    for m in re.finditer(r"\bmutable\b\s*(\S{0,8})", text):
                        nxt = m.group(1)
                        if nxt.startswith("{") or nxt.startswith("->") or nxt.startswith("noexcept"):
                            continue  # lambda specifier
                        count += 1
    found = sum(1 for e in entries if e[0] == "mutable")
    if count != found:
        out.append(f"scanner found {found} mutable members but the sources contain {count} `mutable` declarations")
    return out


# ---------------------------------------------------------------------------------------------------------------
# generator

REF = (1, 1, 0, 0)  # dataset threads, cap on pool_t::max_size(), cpus (0 = all), delay permille: the sequential reference


def show_configs(configs):
    return f"{len(configs)} " + " ".join(f"{a} {b} {c} {d}" for (a, b, c, d) in configs)


def pick_configs(rng, tier, n):
    pool = [(2, 2, 0, 0), (16, 0, 0, 0), (4, 0, 1, 100), (16, 0, 2, 50), (3, 2, 0, 200), (2, 0, 0, 300), (8, 4, 0, 20), (16, 16, 1, 0),
            (5, 0, 0, 0), (16, 1, 0, 0), (1, 0, 0, 0), (7, 3, 2, 150)]
    picked = [(16, 0, 0, 0)] + rng.shuffle(pool)[:max(0, n - 1)]
    return [REF] + picked[:n]


def fhex(x):
    return vlib.f2h(x)


def gen_reduce(rng, tier):
    import itertools
    ops = []
    vals = [1.0, 0.1, -2.5, 1e16]
    # exhaustive small: every assignment of K <= 4 contributions to W <= 3 workers (sum), D = 3
    for W in (1, 2, 3):
        for K in range(0, 5):
            for asg in itertools.product(range(W), repeat=K):
                items = " ".join(f"{a} {fhex(vals[k])} {fhex(vals[(k + 1) % 4] * 0.5)} {fhex(float(k))}" for k, a in enumerate(asg))
                ops.append(f"reduce sum {K + 1} {W} 3 {K} {items}".strip())
    # min: every assignment of 4 candidates (scores with a tie / without) to <= 3 workers, every order of the unique-minimum case
    for scores in ([3.0, 1.0, 2.0, 1.5], [3.0, 1.0, 1.0, 2.0], [1.0, 1.0, 1.0, 1.0]):
        for W in (1, 2, 3):
            for asg in itertools.product(range(W), repeat=4):
                items = " ".join(f"{a} {fhex(sc)} {k}" for k, (a, sc) in enumerate(zip(asg, scores)))
                ops.append(f"reduce min {W} 4 {items}")
    for perm in itertools.permutations(range(4)):
        items = " ".join(f"{k % 2} {fhex([3.0, 1.0, 2.0, 1.5][k])} {k}" for k in perm)
        ops.append(f"reduce min 2 4 {items}")
    n = 150 if tier == "quick" else 1500
    for _ in range(n):
        W = rng.range(1, 16)
        K = rng.range(0, 40)
        D = rng.range(2, 6)
        scale = rng.choice([1.0, 1e-3, 1e6])
        items = []
        for _ in range(K):
            vs = " ".join(fhex(rng.uniform(-1.0, 1.0) * scale) for _ in range(D))
            items.append(f"{rng.below(W)} {vs}")
        ops.append(f"reduce sum {rng.range(1, 1000)} {W} {D} {K} " + " ".join(items))
    for _ in range(n):
        W = rng.range(1, 16)
        K = rng.range(0, 30)
        nfeat = rng.range(1, 8)
        grid = rng.chance(0.5)   # scores from a small grid: many exact ties
        items = []
        for _ in range(K):
            if rng.chance(0.06):
                sc = rng.choice(["7ff0000000000000", "fff0000000000000", "nan", DBL_MAX])
            elif grid:
                sc = fhex(float(rng.range(0, 4)))
            else:
                sc = fhex(rng.uniform(-5.0, 5.0))
            items.append(f"{rng.below(W)} {sc} {rng.below(nfeat)}")
        ops.append(f"reduce min {W} {K} " + " ".join(items))
    return ops


def gen_shared(rng, tier):
    ops = []
    thorough = tier == "thorough"
    for rep in range(4 if thorough else 2):
        for sid in DET_SOLVERS:
            T = rng.choice([2, 3, 4, 8, 16])
            reps = rng.range(1, 3)
            ls0 = rng.choice(LS0) if (sid in LSEARCH_SOLVERS and rng.chance(0.7)) else "-"
            lsk = rng.choice(LSK) if (sid in LSEARCH_SOLVERS and rng.chance(0.7)) else "-"
            nf = rng.range(1, 4)
            pool = SMOOTH_FUNCTIONS if (sid in LSEARCH_SOLVERS or rng.chance(0.5)) else SMOOTH_FUNCTIONS + NONSMOOTH_FUNCTIONS
            fs = " ".join(f"{rng.choice(pool)} {rng.range(2, 8)}" for _ in range(nf))
            eps = rng.choice([1e-6, 1e-8, 1e-10])
            ops.append(f"shared minimize {sid} {ls0} {lsk} {T} {reps} {rng.below(10**6)} {fhex(eps)} {rng.choice([100, 300, 1000])} {nf} {fs}")
    for lid in LOSSES:
        for _ in range(3 if thorough else 2):
            tsize = rng.range(1, 4)
            ops.append(f"shared loss {lid} {rng.range(20, 400)} {tsize} {rng.choice([2, 4, 8, 16])} {rng.range(1, 3)} {rng.below(10**6)}")
    for _ in range(24 if thorough else 10):
        ops.append(f"shared dataset {rng.below(10**6)} {rng.range(30, 200)} {rng.range(1, 6)} {rng.range(0, 3)} "
                   f"{rng.choice([1, 2, 4, 16])} {rng.choice([2, 4, 8, 16])} {rng.range(1, 3)}")
    for kind in ["linear", "gboost"] * (5 if thorough else 2):
        ops.append(f"shared predict {kind} {rng.below(10**6)} {rng.range(40, 120)} {rng.range(2, 5)} {rng.range(0, 2)} "
                   f"{rng.choice([1, 2, 4, 16])} {rng.choice([2, 4, 8, 16])} {rng.range(1, 3)}")
    return ops


def gen_wfit(rng, tier):
    ops = []
    thorough = tier == "thorough"
    for wid in WLEARNERS:
        for _ in range(4 if thorough else 2):
            configs = pick_configs(rng, tier, 3)
            task = rng.choice(["reg", "reg", "cls2"])
            ops.append(f"wfit {wid} {rng.below(10**6)} {rng.range(60, 150)} {rng.range(3, 8)} {rng.range(1, 3)} {task} 0 "
                       f"{12 if thorough else 6} {show_configs(configs)}")
    return ops


def gen_fit(rng, tier):
    ops = []
    thorough = tier == "thorough"
    for mid in LINEAR:
        for _ in range(4 if thorough else 2):
            configs = pick_configs(rng, tier, 4 if thorough else 3)
            # smooth objectives are minimised with lbfgs, L1-regularised ones with a non-smooth solver
            if mid in ("ordinary", "ridge"):
                loss, solver, evals = rng.choice(["mse", "mse", "cauchy"]), "lbfgs", 2000
                if loss == "cauchy":
                    loss = "mse"
            else:
                loss, solver, evals = "mse", "osga", 5000
            ops.append(f"fit linear {rng.below(10**6)} {rng.range(60, 140)} {rng.range(2, 5)} {rng.range(0, 2)} reg {loss} "
                       f"{rng.range(2, 3)} {rng.below(100)} {mid} standard {solver} {fhex(1e-10)} {evals} {fhex(0.1)} "
                       f"{rng.choice([10, 16, 32])} 0 {show_configs(configs)}")
    pools = ["stump", "stump,affine", "affine,dense-table", "stump,affine,dense-table", "hinge,stump", "dtree", "stump,dstep-table"]
    for _ in range(16 if thorough else 6):
        configs = pick_configs(rng, tier, 4 if thorough else 3)
        sub = rng.choice(["off", "subsample", "bootstrap"])
        task, loss = rng.choice([("reg", "mse"), ("reg", "mse"), ("cls2", "s-logistic")])
        ops.append(f"fit gboost {rng.below(10**6)} {rng.range(70, 140)} {rng.range(3, 6)} {rng.range(1, 2)} {task} {loss} "
                   f"2 {rng.below(100)} {rng.range(10, 14)} {rng.range(2, 4)} {rng.choice(['gboost', 'tboost'])} "
                   f"{rng.choice(['off', 'off', 'global'])} {sub} {rng.choice(pools)} {rng.below(1000)} {fhex(0.1)} "
                   f"{rng.choice([10, 16, 32])} 0 {show_configs(configs)}")
    return ops


# the dedicated duplicated-column cases (exact score ties between the copies of feature 0): the selected copy depends on the
# schedule (known finding); predictions must still be identical
DUP_OPS = [
    "wfit stump 5 40 8 0 reg 1 150 4 1 1 0 0 2 0 0 0 16 0 0 0 4 0 0 200",
    "fit gboost 11 90 6 1 reg mse 2 7 10 3 gboost off off stump 42 3fb999999999999a 16 1 4 1 1 0 0 2 0 0 0 16 0 0 100 4 0 2 200",
]


def gen(rng, tier):
    os.makedirs(TMP, exist_ok=True)
    ops = []
    cp = os.path.join(vlib.VERIF, "corpus", "C18", "ops.txt")
    if os.path.exists(cp):
        ops += [l.strip() for l in open(cp) if l.strip() and not l.startswith("#")]
    ops += gen_reduce(rng, tier)
    ops += gen_shared(rng, tier)
    ops += gen_wfit(rng, tier)
    ops += gen_fit(rng, tier)
    ops += [o for o in DUP_OPS if o not in ops]
    return ops


# ---------------------------------------------------------------------------------------------------------------
# oracle: the property statement evaluated on the implementation's answers (python, independent of the Lean model)

def model_skip(aug):
    return not aug.startswith("reduce ")


def parse_configs_of(op):
    """the configuration list is the tail of a wfit/fit op"""
    t = op.split()
    # find the tail `<n> {4 ints}*n`
    for n in range(16, 0, -1):
        if len(t) >= 4 * n + 1 and t[-(4 * n + 1)] == str(n):
            return [tuple(int(x) for x in t[-4 * n + 4 * k: len(t) - 4 * n + 4 * k + 4]) for k in range(n)]
    return []


def nontrivial(op):
    t = op.split()
    if t[0] == "shared":
        T = {"minimize": 5, "loss": 5, "dataset": 7, "predict": 8, "setlabel": 2}.get(t[1])
        return T is not None and int(t[T]) >= 2
    if t[0] in ("wfit", "fit"):
        return len(set(parse_configs_of(op))) >= 2
    if t[0] == "reduce":
        r = Toks(op); r.s(); kind = r.s()
        if kind == "sum":
            r.int(); W = r.int(); D = r.int(); K = r.int()
            ws = set()
            for _ in range(K):
                ws.add(r.int())
                for _ in range(D):
                    r.s()
            return len(ws) >= 2
        W = r.int(); K = r.int(); ws = set()
        for _ in range(K):
            ws.add(r.int()); r.s(); r.s()
        return len(ws) >= 2
    return False


def distribution(ops):
    d = {}
    for op in ops:
        t = op.split()
        k = f"{t[0]}/{t[1]}" if t[0] in ("shared", "fit", "reduce") else t[0]
        if t[0] == "shared" and t[1] == "minimize":
            k += "/" + t[2]
        if t[0] == "wfit":
            k += "/" + t[1]
        if t[0] == "fit" and t[1] == "linear":
            k += "/" + t[10]
        d[k] = d.get(k, 0) + 1
    return d


def oracle_shared(op, res):
    t = res.split()
    if t[0] != "ok":
        return f"implementation did not answer ok: {res[:120]}"
    T, n = int(t[1]), int(t[2])
    if len(t) != 3 + 3 * (n + 1) or t[3] != "S" or t[4 + n] != "C" or t[5 + 2 * n] != "A":
        return f"malformed answer ({len(t)} tokens for {n} calls)"
    S, C, A = t[4:4 + n], t[5 + n:5 + 2 * n], t[6 + 2 * n:6 + 3 * n]
    for k in range(n):
        for name, r in (("alone", S[k]), ("concurrent", C[k]), ("alone-again", A[k])):
            if r.startswith("EXC:"):
                return f"call {k} ({name}) threw: {r}"
    for k in range(n):
        if C[k] != S[k]:
            return f"call {k}: concurrent result differs from the same call executed alone: {diff_tokens(S[k], C[k])}"
    for k in range(n):
        if A[k] != S[k]:
            return f"call {k}: the same call executed alone AFTER the concurrent phase differs from before it: {diff_tokens(S[k], A[k])}"
    return None


def diff_tokens(a, b):
    pa, pb = a.split(","), b.split(",")
    for x, y in zip(pa, pb):
        if x != y:
            return f"{x[:60]} vs {y[:60]}"
    return f"{a[:60]} vs {b[:60]}"


def read_lists(r):
    k = r.int()
    out = []
    for _ in range(k):
        n = r.int()
        out.append(tuple(r.int() for _ in range(n)))
    return out


def oracle_wfit(op, res):
    r = Toks(res)
    if r.s() != "ok":
        return f"implementation did not answer ok: {res[:120]}"
    dup = op.split()[7] == "1"
    nconf = r.int()
    outcomes = []
    for c in range(nconf):
        reps = r.int()
        for rep in range(reps):
            score = r.s(); h = r.s()
            feats = read_lists(r); canon = read_lists(r)
            outcomes.append((c, rep, score, h, feats, canon))
    if not r.done():
        return "malformed answer"
    ref = outcomes[0]
    tie = None
    for o in outcomes[1:]:
        if o[2] != ref[2]:
            return f"config {o[0]} rep {o[1]}: score {o[2]} differs from the sequential reference {ref[2]} (features {o[4]} vs {ref[4]})"
        if o[4] != ref[4]:
            # the two fits returned bit-identical best scores for different features: an exact score tie between distinct features
            if dup and (o[5] != ref[5] or o[3] != ref[3]):
                return (f"config {o[0]} rep {o[1]}: duplicated columns, but the selection differs beyond the copies "
                        f"({o[4]} vs {ref[4]}) or the predictions differ ({o[3]} vs {ref[3]})")
            tie = tie or (f"tie: exact score tie {ref[2]} between distinct features: pool configuration {o[0]} selected {o[4]}, the "
                          f"sequential reference {ref[4]}" + (" (duplicated columns: predictions identical)" if dup else ""))
        elif o[3] != ref[3]:
            return f"config {o[0]} rep {o[1]}: same score and features but different predictions ({o[3]} vs {ref[3]})"
    return tie


def close_pred(a, b, scale):
    if a != a or b != b:
        return (a != a) and (b != b)
    return abs(a - b) <= 1e-5 * max(abs(a), abs(b)) + 1e-9 * scale


def oracle_fit(op, res):
    r = Toks(res)
    if r.s() != "ok":
        return f"implementation did not answer ok: {res[:120]}"
    t = op.split()
    dup = (t[-(4 * len(parse_configs_of(op)) + 2)] == "1")
    nconf = r.int()
    confs = []
    for c in range(nconf):
        if r.s() != "C":
            return "malformed answer (C)"
        ds, mx, trials, opt = r.int(), r.int(), r.int(), r.int()
        if r.s() != "F":
            return "malformed answer (F)"
        feats = read_lists(r)
        if r.s() != "G":
            return "malformed answer (G)"
        canon = read_lists(r)
        if r.s() != "P":
            return "malformed answer (P)"
        preds = [r.f() for _ in range(r.int())]
        confs.append((ds, mx, trials, opt, feats, canon, preds))
    if not r.done():
        return "malformed answer"
    ref = confs[0]
    scale = max([abs(p) for p in ref[6] if p == p] + [0.0])
    tie = None
    for k, cf in enumerate(confs[1:], 1):
        if len(cf[6]) != len(ref[6]):
            return f"config {k}: {len(cf[6])} predictions vs {len(ref[6])}"
        bad = [(i, a, b) for i, (a, b) in enumerate(zip(ref[6], cf[6])) if not close_pred(a, b, scale)]
        same_feats = cf[4] == ref[4]
        if not same_feats and dup and cf[5] == ref[5] and not bad:
            tie = tie or (f"tie: duplicated columns (exact score ties): pool configuration {k} (dataset pool {cf[0]}, max pool {cf[1]}) "
                          f"selected {cf[4][:6]}…, the sequential reference {ref[4][:6]}…; predictions identical within 1e-5")
            continue
        if not same_feats:
            first = next((i for i, (x, y) in enumerate(zip(ref[4], cf[4])) if x != y), min(len(ref[4]), len(cf[4])))
            return (f"config {k} (dataset pool {cf[0]}, max pool {cf[1]}): selected features differ from the sequential reference at weak "
                    f"learner {first}: {cf[4][first:first + 3]} vs {ref[4][first:first + 3]} ({len(cf[4])} vs {len(ref[4])} weak learners; "
                    f"{len(bad)} predictions beyond 1e-5)")
        if bad:
            i, a, b = bad[0]
            return (f"config {k} (dataset pool {cf[0]}, max pool {cf[1]}): {len(bad)} predictions differ by more than 1e-5 relative from the "
                    f"sequential reference, e.g. sample {i}: {a!r} vs {b!r} (optimum trial {cf[3]} vs {ref[3]} of {cf[2]}/{ref[2]})")
    return tie


def oracle_reduce(op, res):
    import math
    r = Toks(op); r.s(); kind = r.s()
    a = Toks(res)
    if a.s() != "ok":
        return f"implementation did not answer ok: {res[:120]}"
    if kind == "sum":
        n, W, D, K = r.int(), r.int(), r.int(), r.int()
        cols = [[] for _ in range(D)]
        for _ in range(K):
            r.int()
            for d in range(D):
                cols[d].append(r.f())
        got = a.fs()
        if len(got) != D:
            return "wrong size"
        for d in range(D):
            want = math.fsum(cols[d]) / n
            tol = 1e-12 * (math.fsum(abs(v) for v in cols[d]) / n) + 5e-324
            if not abs(got[d] - want) <= tol:
                return f"component {d}: reduced value {got[d]!r} differs from the plain sum / samples {want!r} by more than 1e-12 relative"
        return None
    W, K = r.int(), r.int()
    cands = []
    for _ in range(K):
        r.int(); sc = r.f(); f = r.int()
        if sc == sc and abs(sc) != float("inf") and sc < h2f(DBL_MAX):
            cands.append((sc, f))
    score, feat = a.f(), a.int()
    if not cands:
        return None if (vlib.f2h(score) == DBL_MAX and feat == -1) else f"no finite candidate but ({score!r}, {feat}) returned"
    m = min(sc for sc, _ in cands)
    winners = sorted({f for sc, f in cands if sc == m})
    if score != m:
        return f"reduced score {score!r} is not the minimal score {m!r}"
    if feat not in winners:
        return f"feature {feat} does not attain the minimal score (features that do: {winners})"
    return None


def oracle(op, res):
    t = op.split()
    if t[0] == "shared":
        return oracle_shared(op, res)
    if t[0] == "wfit":
        return oracle_wfit(op, res)
    if t[0] == "fit":
        return oracle_fit(op, res)
    if t[0] == "reduce":
        return oracle_reduce(op, res)
    return f"unknown family {t[0]}"


def classify(op, kind, detail):
    t = op.split()
    fam = "-".join(t[:2]) if t and t[0] in ("shared", "fit", "reduce") else (t[0] if t else "?")
    if kind == "oracle" and detail.startswith("tie:"):
        return TIE_KEY
    if kind == "crash":
        return fam + (":tsan-report" if "ThreadSanitizer" in detail else ":crash")
    if kind == "corr":
        return fam + ":model-differs"
    if "differs from the same call executed alone" in detail:
        return fam + ":concurrent-differs-from-sequential"
    if "AFTER the concurrent phase" in detail:
        return fam + ":state-leaked-into-later-calls"
    if "selected features differ" in detail:
        return fam + ":features-differ"
    if "predictions differ" in detail:
        return fam + ":predictions-differ"
    return fam + ":other"


def shrink_candidates(op):
    t = op.split()
    out = []
    if t[0] == "shared":
        i = {"minimize": 5, "loss": 5, "dataset": 7, "predict": 8}.get(t[1])
        if i is not None:
            T, reps = int(t[i]), int(t[i + 1])
            for T2 in sorted({2, T // 2, T - 1}):
                if 2 <= T2 < T:
                    out.append(" ".join(t[:i] + [str(T2)] + t[i + 1:]))
            if reps > 1:
                out.append(" ".join(t[:i + 1] + ["1"] + t[i + 2:]))
    elif t[0] in ("wfit", "fit"):
        cs = parse_configs_of(op)
        n = len(cs)
        if n > 2:
            head = t[:len(t) - (4 * n + 1)]
            for k in range(1, n):
                keep = [cs[0], cs[k]]
                out.append(" ".join(head) + " " + show_configs(keep))
    return out
