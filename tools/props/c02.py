"""C02 — every solver returns an honest, self-consistent result within bounded budget (DESIGN.md §4 C02)."""
import math, os
import vlib
from vlib import Toks, f2h, h2f, lst
from props import c01
from props.c01 import translate  # noqa: F401  (the shared regenerated fragment Gen/DoneLogic.lean)

ID = "C02"
LEVEL = "proof"
HARNESS = "c02"
LEAN_MODULES = ["NanoVerif.Props.C02"]
NS = "NanoVerif.Solver."
OBLIGATIONS = [NS + t for t in [
    "done_decision", "ls_solver_consistent", "ls_status_trichotomy", "ls_result_valid", "budget_overshoot_le",
    "best_state_is_an_evaluation", "best_state_value", "best_value_nonincreasing", "update_only_on_strict_decrease",
    "nm_status_trichotomy", "nm_budget_overshoot_le", "valueTest_spec", "calls_never_exceed_actual",
]]
TRUSTED = [
    "Lean 4.33.0 kernel + the Mathlib modules imported by Proofs/Solver*.lean and Props/C02.lean",
    "axioms: at most propext, Classical.choice, Quot.sound (audited per theorem on every run)",
    "tools/props/c01_translate.py (translation of solver_t::done, valid, update_if_better, update_calls, function_t::vgrad counters, "
    "loop guards, return statements into Gen/DoneLogic.lean)",
    "hand-written model NanoVerif/Model/Solver.lean: shared line-search loop, update_if_better / value_test, generic non-monotonic loop "
    "with the step as an oracle; tied to the code by oracle-replay on the hooks state.update_if_better / lsearch.end / solver.done",
    "per-solver plumbing (what each of the 35+3 solver bodies hands to update_if_better / done) is NOT modelled: it is the hypothesis of "
    "the skeleton theorems and is monitored at run time against the wrapper's evaluation log (harness/c01_common.h)",
    "tools/props/c02.py generator + oracle, harness/c02.cpp, g++/Eigen",
]
ASSUMPTIONS = [
    "termination of the 35+3 solver bodies is observed (harness time-out), not proved",
    "the budget clause is a theorem only relative to an explicit per-iteration evaluation bound K (hypothesis); K <= 1100 + 8 dim is measured",
    "gradient-sampling solvers draw from an unseeded RNG: the oracle's clauses hold for every draw; a replay re-runs with a new draw, "
    "the model replay always uses the trace of the very run it is compared with",
    "f <= f0 is not demanded of the penalty / augmented-Lagrangian solvers when constraints are present (the start may be infeasible)",
    "benchmark functions are re-evaluated by a fresh instance of the same libnano class; random quadratic / piecewise-linear functions "
    "are re-evaluated by the python oracle itself",
]
RULE = ("38 solver ids x (benchmark functions smooth / non-smooth / convex / non-convex at 1..32 dims, random convex quadratics, random "
        "piecewise-linear functions, + box / ball / linear constraints for the 3 constrained solvers) x x0 radius 1e-3..10 x eps on a log grid x "
        "max_evals in [10,5000] biased to 10..50 x solver parameters from their domains; a case is non-trivial when the solver took at "
        "least one iteration (wrapper evaluations > 2); the status reached per solver family is counted in the distribution; distinct by op text")
FLAVOUR = {"quick": "plain", "thorough": "plain"}
HARNESS_TIMEOUT = 2400

NM_SOLVERS = ["gs", "ags", "gs-lbfgs", "ags-lbfgs", "sgm", "osga", "ellipsoid", "asga2", "asga4", "cocob", "sda", "wda", "pgm", "dgm",
              "fgm", "rqb", "fpba1", "fpba2"]
CONSTRAINED = ["linear-penalty", "quadratic-penalty", "augmented-lagrangian"]
ALL_SOLVERS = c01.LS_SOLVERS + NM_SOLVERS + CONSTRAINED
GS = {"gs", "ags", "gs-lbfgs", "ags-lbfgs"}
ALL_FUNCTIONS = sorted(c01.FUNCTIONS)
STATUS = c01.STATUS


def logu(rng, a, b):
    return 10.0 ** rng.uniform(math.log10(a), math.log10(b))


def solver_params(rng, sid):
    """a few solver-specific parameters drawn from their registered domains; second value: do they change the per-iteration cost?"""
    p = []
    pat = lambda name: p.append((name, "i", rng.choice([10, 11, 20, 100, 1000])))  # noqa: E731
    if sid == "sgm":
        if rng.chance(0.5): p.append(("solver::sgm::power", "f", rng.uniform(0.5, 1.0)))
        if rng.chance(0.6): pat("solver::sgm::patience")
    elif sid == "osga":
        if rng.chance(0.4): p.append(("solver::osga::lambda", "f", rng.uniform(0.05, 0.95)))
        if rng.chance(0.4): p.append(("solver::osga::alpha_max", "f", rng.uniform(0.05, 0.95)))
        if rng.chance(0.6): pat("solver::osga::patience")
    elif sid == "lbfgs":
        if rng.chance(0.6): p.append(("solver::lbfgs::history", "i", rng.choice([1, 2, 5, 20, 100])))
    elif sid in ("dfp", "sr1", "bfgs", "hoshino", "fletcher"):
        if rng.chance(0.4): p.append(("solver::quasi::initialization", "s", "scaled"))
        if sid == "sr1" and rng.chance(0.4): p.append(("solver::quasi::sr1::r", "f", logu(rng, 1e-10, 0.1)))
    elif sid.startswith("cgd-"):
        if rng.chance(0.4): p.append(("solver::cgd::orthotest", "f", rng.uniform(0.01, 0.99)))
        if sid == "cgd-n" and rng.chance(0.4): p.append(("solver::cgdN::eta", "f", logu(rng, 1e-4, 1e2)))
    elif sid == "ellipsoid":
        if rng.chance(0.5): p.append(("solver::ellipsoid::R", "f", logu(rng, 0.1, 1e3)))
    elif sid in ("asga2", "asga4"):
        if rng.chance(0.4): p.append(("solver::asga::L0", "f", logu(rng, 1e-3, 1e3)))
        if rng.chance(0.3): p.append(("solver::asga::gamma1", "f", rng.uniform(1.1, 8.0)))
        if rng.chance(0.3): p.append(("solver::asga::gamma2", "f", rng.uniform(0.1, 0.99)))
        if rng.chance(0.6): pat("solver::asga::patience")
    elif sid == "cocob":
        if rng.chance(0.4): p.append(("solver::cocob::L0-nonsmooth", "f", logu(rng, 1e-3, 1e4)))
        if rng.chance(0.6): pat("solver::cocob::patience")
    elif sid in ("sda", "wda"):
        if rng.chance(0.4): p.append(("solver::pdsgm::D", "f", logu(rng, 1e-2, 1e2)))
        if rng.chance(0.6): pat("solver::pdsgm::patience")
    elif sid in ("pgm", "dgm", "fgm"):
        if rng.chance(0.4): p.append(("solver::universal::L0", "f", logu(rng, 1e-3, 1e3)))
        if rng.chance(0.6): pat("solver::universal::patience")
    elif sid in GS:
        if rng.chance(0.3): p.append((f"solver::{sid}::theta_epsilon", "f", rng.uniform(0.05, 1.0)))
        if rng.chance(0.3): p.append((f"solver::{sid}::epsilon0", "f", logu(rng, 1e-3, 1.0)))
    elif sid in ("rqb", "fpba1", "fpba2"):
        if rng.chance(0.4): p.append((f"solver::{sid}::bundle::max_size", "i", rng.choice([2, 3, 5, 20, 100])))
        if rng.chance(0.3): p.append((f"solver::{sid}::csearch::interpol", "f", rng.uniform(0.05, 0.95)))
    elif sid in ("linear-penalty", "quadratic-penalty"):
        if rng.chance(0.4): p.append(("solver::penalty::eta", "f", rng.uniform(1.5, 20.0)))
        if rng.chance(0.4): p.append(("solver::penalty::penalty0", "f", logu(rng, 0.1, 1e3)))
        if rng.chance(0.4): p.append(("solver::penalty::max_outer_iters", "i", rng.range(10, 30)))
    elif sid == "augmented-lagrangian":
        if rng.chance(0.4): p.append(("solver::augmented::tau", "f", rng.uniform(0.1, 0.9)))
        if rng.chance(0.4): p.append(("solver::augmented::gamma", "f", rng.uniform(2.0, 20.0)))
        if rng.chance(0.4): p.append(("solver::augmented::max_outer_iters", "i", rng.range(10, 40)))
    return p


def random_pwl(rng, n):
    m = rng.range(1, 2 * n + 2)
    W = [[rng.uniform(-1.0, 1.0) * (1.0 if rng.chance(0.8) else 0.0) for _ in range(n)] for _ in range(m)]
    if rng.chance(0.8):  # bounded below: add the rows -W_i of an existing row
        W.append([-v for v in W[rng.below(m)]])
    b = [rng.uniform(-1.0, 1.0) for _ in range(len(W))]
    return W, b


def pwl_spec(W, b):
    n = len(W[0])
    return f"pwl {n} {len(W)} {lst([v for row in W for v in row], f2h)} {lst(b, f2h)}"


def gen(rng, tier):
    ops = []
    cp = os.path.join(vlib.VERIF, "corpus", "C02", "ops.txt")
    if os.path.exists(cp):
        ops += [l.strip() for l in open(cp) if l.strip() and not l.startswith("#")]
    per_solver = 30 if tier == "quick" else 200
    for k in range(per_solver * len(ALL_SOLVERS)):
        sid = ALL_SOLVERS[k % len(ALL_SOLVERS)]
        ls = sid in c01.LS_SOLVERS
        cons = sid in CONSTRAINED
        small = rng.chance(0.45)          # small enough for the trace to be replayed by the model
        # function
        pick = rng.below(10)
        if pick < 2:
            n = rng.range(1, 8 if small else 16)
            A, a, _ = c01.random_quadratic(rng, n, logu(rng, 1.0, 1e4), logu(rng, 1e-3, 1e3))
            fnspec = c01.quad_spec(A, a)[:-2]
        elif pick < 4:
            n = rng.range(1, 8 if small else 16)
            W, b = random_pwl(rng, n)
            fnspec = pwl_spec(W, b)
        else:
            fid = rng.choice(ALL_FUNCTIONS)
            n = rng.choice([1, 2, 3, 4, 8] if small else [1, 2, 3, 4, 8, 16, 32]) if not rng.chance(0.2) else rng.range(1, 8 if small else 32)
            if sid in GS and n > 16 and not rng.chance(0.2):
                n = rng.range(1, 16)      # the gradient-sampling solvers solve a QP with 2n+ gradients per iteration
            if fid == "rosenbrock" or "+" in fid:
                n = max(n, 2)
            if fid == "powell":
                n = max(4, n - n % 4)
            fnspec = f"bench {fid} {n} {rng.choice([10, 50])}"
        # constraints
        cs = []
        if cons and rng.chance(0.85):
            for _ in range(rng.range(1, 2)):
                kind = rng.below(4)
                if kind == 0:
                    lo = rng.uniform(-2.0, 0.5); cs.append(f"box {f2h(lo)} {f2h(lo + rng.uniform(0.1, 3.0))}")
                elif kind == 1:
                    cs.append(f"ball {f2h(rng.uniform(0.2, 5.0))}")
                elif kind == 2:
                    cs.append(f"lineq {lst([rng.uniform(-1.0, 1.0) for _ in range(n)], f2h)} {f2h(rng.uniform(-1.0, 1.0))}")
                else:
                    cs.append(f"linle {lst([rng.uniform(-1.0, 1.0) for _ in range(n)], f2h)} {f2h(rng.uniform(-1.0, 1.0))}")
        fnspec += f" {len(cs)}" + "".join(" " + c for c in cs)
        # configuration
        eps = c01.eps_grid(rng) if not rng.chance(0.1) else 1e-1
        if small:
            max_evals = rng.choice([10, 11, 12, 15, 20, 30, 50]) if rng.chance(0.6) else rng.range(10, 200)
        else:
            max_evals = rng.choice([10, 50, 100, 1000, 5000]) if rng.chance(0.4) else rng.range(10, 5000)
        if (sid in GS or sid in ("rqb", "fpba1", "fpba2")) and not (tier == "thorough" and rng.chance(0.05)):
            # a QP over the whole bundle / sample set per iteration: keep the bulk of these runs short
            cap = 400 if tier == "quick" else 1200
            if max_evals > cap:
                max_evals = rng.range(10, cap)
        params = [("solver::epsilon", "f", eps), ("solver::max_evals", "i", max_evals)]
        ls0 = lsk = "-"
        if ls and rng.chance(0.6):
            ls0 = rng.choice(c01.LSEARCH0 + ["-"]); lsk = rng.choice(c01.LSEARCHK + ["-"])
        if ls and rng.chance(0.3):
            c1 = 10.0 ** rng.uniform(-6.0, math.log10(0.45))
            params.append(("solver::tolerance", "p", (c1, rng.uniform(max(c1 * 1.01, 0.05), 0.99))))
        params += solver_params(rng, sid)
        radius = logu(rng, 1e-3, 10.0)
        x0 = c01.start_point(rng, n, radius)
        ops.append(c01.make_op("solver2", sid, ls0, lsk, params, fnspec, x0))
    return ops


# ---------------------------------------------------------------------------------------------------------------------

class Res:
    pass


def parse_res(res):
    t = Toks(res)
    if t.s() != "ok":
        return None
    r = Res()
    r.status = t.int(); r.units = t.int(); r.fevals = t.int(); r.gevals = t.int(); r.fcalls = t.int(); r.gcalls = t.int()
    r.x = t.fs(); r.fx = t.f(); r.gx = t.fs(); r.fr = t.f(); r.gr = t.fs(); r.f0 = t.f(); r.g0norm = t.f()
    r.mon_checked = t.int(); r.mon_bad = t.int(); r.max_inner = t.int()
    r.smooth = t.int(); r.convex = t.int(); r.ls = t.int(); r.constraints = t.int(); r.traced = t.int()
    return r


def same(a, b):
    return a == b or (a != a and b != b)


_seen = {}

# parameters that change the cost of one outer iteration: the statement's bound is for their defaults
COST_PARAMS = ("lsearch_max_iters", "bundle::max_size", "max_outer_iters")


def oracle(aug, res):
    """the clauses of the statement, evaluated independently on what the implementation returned"""
    o = c01.parse_op(aug)
    r = parse_res(res)
    if r is None:
        return f"minimize() did not return a state: {res[:120]}"
    key = aug.split(" | ")[0]
    _seen[key] = (o.sid, r.status, r.units)
    if not math.isfinite(r.f0):
        return None  # outside the quantifier: the start must have a finite value
    if len(r.x) != o.n or len(r.gx) != o.n:
        return f"dimension: returned point/gradient have {len(r.x)}/{len(r.gx)} components, expected {o.n}"
    if r.status not in (0, 1, 2):
        return f"status: {STATUS.get(r.status, r.status)} is not one of converged / max_iters / failed"
    # reported value (and gradient) = the function at the returned point, recomputed independently
    if o.kind == "quad":
        f, g = c01.quad_eval(o.A, o.a, r.x)
    elif o.kind == "pwl":
        f, g = c01.pwl_eval(o.W, o.b, r.x)
    else:
        f, g = r.fr, r.gr
    if not (same(f, r.fr) and all(same(p, q) for p, q in zip(g, r.gr))):
        return "harness: the plain function and the python re-evaluation disagree"
    if not same(r.fx, f):
        return f"value: reported fx = {r.fx!r} but f(x) = {f!r} at the returned point (status {STATUS[r.status]})"
    if r.ls and not all(same(p, q) for p, q in zip(r.gx, g)):
        return f"gradient: reported gx differs from the gradient at the returned point (status {STATUS[r.status]})"
    if r.fcalls > r.fevals or r.gcalls > r.gevals or r.fcalls + r.gcalls > r.units:
        return f"counts: reported fcalls|gcalls = {r.fcalls}|{r.gcalls} exceed the {r.fevals}|{r.gevals} evaluations performed"
    if r.mon_bad:
        return (f"monitor: {r.mon_bad} of {r.mon_checked} triples handed to update_if_better / left by a line search / shown to done "
                f"are not evaluations of the function")
    if r.status != 2:
        if not (math.isfinite(r.fx) and all(math.isfinite(v) for v in r.x)):
            return f"finite: status {STATUS[r.status]} with a non-finite point or value (fx = {r.fx!r})"
        in_class = bool(r.smooth) if r.ls else (bool(r.convex) if o.sid == "rqb" else True)
        if o.sid in CONSTRAINED and r.constraints > 0:
            in_class = False
        if in_class and abs(r.f0) < 1e8 and r.g0norm < 1e8:
            cgdescent = bool(r.ls) and o.lsk in ("-", "cgdescent")
            allow = 5e-4 * (1.0 + abs(r.f0)) if cgdescent else 0.0
            if r.fx > r.f0 + allow:
                return (f"increase: returned value {r.fx!r} is larger than the starting value {r.f0!r}"
                        + (" beyond the CG_DESCENT allowance" if cgdescent else ""))
    default_cost = not any(any(c in name for c in COST_PARAMS) for name in o.params) and \
        "lsearchk::max_iterations" not in o.params
    if default_cost:
        bound = o.max_evals + 1100 + 8 * o.n
        used = r.max_inner if o.sid in CONSTRAINED else r.units
        if used > bound:
            return f"budget: {used} evaluations performed, max_evals = {o.max_evals} (+1100 + 8*{o.n} = {bound})"
    return None


def classify(op, kind, detail):
    try:
        o = c01.parse_op(op)
    except Exception:
        return None
    if kind == "oracle":
        clause = detail.split(":")[0]
        extra = ""
        if clause in ("increase", "gradient", "value") and o.sid in c01.LS_SOLVERS:
            extra = ":" + o.lsk
        return f"{clause}:{o.sid}{extra}"
    return f"{kind}:{o.sid}"


def nontrivial(op):
    v = _seen.get(op.split(" | ")[0])
    return bool(v) and v[2] > 2


def family_of(sid):
    if sid in c01.LS_SOLVERS:
        return "line-search"
    if sid in CONSTRAINED:
        return "constrained"
    if sid in GS:
        return "gradient-sampling"
    if sid in ("rqb", "fpba1", "fpba2"):
        return "bundle"
    return "non-monotonic"


def distribution(ops):
    d = {}
    for op in ops:
        t = op.split()
        d[t[2]] = d.get(t[2], 0) + 1
    for sid, status, _ in _seen.values():
        k = f"{family_of(sid)}:{STATUS.get(status, status)}"
        d[k] = d.get(k, 0) + 1
    return d


def compare(aug, impl, model):
    """everything after ` M `: final status/state, the best value seen by every update_if_better call, the flag and value at
    every done call — recomputed by the model from the logged oracle answers, exact comparison"""
    if " M " not in impl or " M " not in model:
        return False
    a = impl.split(" M ", 1)[1].split()
    b = model.split(" M ", 1)[1].split()
    if len(b) > 1 and b[1] == "-":
        # solvers that also move their state outside update_if_better: status and the done decisions only
        ia = a.index("U"); ib = b.index("U")
        return a[0] == b[0] and a[ia + 2:] == b[ib + 2:]
    return a == b


def model_skip(aug):
    return " | " not in aug


def static_checks():
    exe = os.path.join(vlib.CACHE, "harness-plain", HARNESS)
    if not os.path.exists(exe):
        return []
    _, res, crash = vlib.run_harness(exe, ["solver2 list"])
    if crash or not res:
        return ["`solver2 list` failed"]
    got = {}
    for item in res[0].split()[1:]:
        name, c, s = item.rsplit(":", 2)
        got[name] = (int(c), int(s))
    if got != c01.FUNCTIONS:
        return [f"function registry differs from the generator's table: {sorted(set(got.items()) ^ set(c01.FUNCTIONS.items()))[:6]}"]
    return []
