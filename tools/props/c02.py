"""C02 — every solver returns an honest, self-consistent result within bounded budget (DESIGN.md §4 C02)."""
import math, os
import vlib
from vlib import Toks, f2h, h2f, lst
from props import c01
from props.c01 import translate  # noqa: F401  (the shared regenerated fragment Gen/DoneLogic.lean)

ID = "C02"
LEVEL = "proof"
HARNESS = "c02"
LEAN_MODULES = ["NanoVerif.Props.C02"]
NS = "NanoVerif.Solver."
OBLIGATIONS = [NS + t for t in [
    "done_decision", "ls_solver_consistent", "ls_status_trichotomy", "ls_result_valid", "budget_overshoot_le",
    "best_state_is_an_evaluation", "best_state_value", "best_value_nonincreasing", "update_only_on_strict_decrease",
    "nm_status_trichotomy", "nm_budget_overshoot_le", "valueTest_spec", "calls_never_exceed_actual",
    # the modelled non-monotonic bodies (Model/SolverNM.lean)
    "modelled_loop_is_nmLoop",
    "sgm_honest", "sgm_converged_only_by_test", "cocob_honest", "cocob_converged_only_by_test",
    "pdsgm_honest", "pdsgm_converged_only_by_test",
    "pgm_honest", "pgm_converged_only_by_test", "dgm_honest", "dgm_converged_only_by_test",
    "fgm_honest", "fgm_converged_only_by_test",
    "asga2_honest", "asga2_converged_only_by_test", "asga4_honest", "asga4_converged_only_by_test",
    "osga_honest", "osga_converged_only_by_test",
]]
TRUSTED = [
    "Lean 4.33.0 kernel + the Mathlib modules imported by Proofs/Solver*.lean and Props/C02.lean",
    "axioms: at most propext, Classical.choice, Quot.sound (audited per theorem on every run)",
    "tools/props/c01_translate.py (translation of solver_t::done, valid, update_if_better, update_calls, function_t::vgrad counters, "
    "loop guards, return statements into Gen/DoneLogic.lean)",
    "hand-written model NanoVerif/Model/Solver.lean: shared line-search loop, update_if_better / value_test, generic non-monotonic loop "
    "with the step as an oracle; tied to the code by oracle-replay on the hooks state.update_if_better / lsearch.end / solver.done",
    "hand-written model NanoVerif/Model/SolverNM.lean: the iteration bodies of sgm, cocob, sda, wda, pgm, dgm, fgm, asga2, asga4, osga as coded "
    "(objective = oracle indexed by call number; std::pow / tanh / exp / sqrt / isfinite = parameters of the scalar type); tied to the code by the "
    "family `solvernm`: the model gets the function's logged answers by position only and must reproduce every evaluation point (relative "
    "1e-9 of the magnitudes involved; measured <= 1e-13 except osga), every candidate, every done() argument, the counters and the final state",
    "per-solver plumbing of the OTHER bodies (line-search family directions aside: ellipsoid, rqb, fpba1/2, gs*, penalty, augmented) is NOT "
    "modelled: it is the hypothesis of the skeleton theorems and is monitored at run time against the wrapper's evaluation log "
    "(harness/c01_common.h)",
    "tools/props/c02.py generator + oracle, harness/c02.cpp, g++/Eigen",
]
ASSUMPTIONS = [
    "termination of the 35+3 solver bodies is observed (harness time-out), not proved",
    "the budget clause is a theorem only relative to an explicit per-iteration evaluation bound K; for the 10 modelled bodies K is proved "
    "(2 | 2 | 2 | 2·ls | 3·ls | 4·ls | 4·ls | 3 with ls = lsearch_max_iters) and the python oracle demands it sharply; for the others K is a "
    "hypothesis and K <= 1100 + 8 dim is measured",
    "osga amplifies rounding differences geometrically: without the optional hook osga.iter (hooks/C02-osga-iter.patch) its evaluation points "
    "are compared up to the iteration where the deviation exceeds 1e-9 and only gradual growth (<= 1e6 per evaluation) is accepted; with the hook "
    "every iteration is recomputed from the logged private variables and compared at 1e-9",
    "lsearch_max_iters >= 1 (registered domains [10,100] / [10,1000]) is a hypothesis of the pgm/dgm/fgm/asga theorems",
    "gradient-sampling solvers draw from an unseeded RNG: the oracle's clauses hold for every draw; a replay re-runs with a new draw, "
    "the model replay always uses the trace of the very run it is compared with",
    "f <= f0 is not demanded of the penalty / augmented-Lagrangian solvers when constraints are present (the start may be infeasible)",
    "benchmark functions are re-evaluated by a fresh instance of the same libnano class; random quadratic / piecewise-linear functions "
    "are re-evaluated by the python oracle itself",
]
RULE = ("38 solver ids x (benchmark functions smooth / non-smooth / convex / non-convex at 1..32 dims, random convex quadratics, random "
        "piecewise-linear functions, + box / ball / linear constraints for the 3 constrained solvers) x x0 radius 1e-3..10 x eps on a log grid x "
        "max_evals in [10,5000] biased to 10..50 x solver parameters from their domains; a case is non-trivial when the solver took at "
        "least one iteration (wrapper evaluations > 2); the status reached per solver family is counted in the distribution; distinct by op text; "
        "+ family solvernm: the 10 modelled non-monotonic solvers x (random quadratics incl. scales near overflow, random piecewise-linear incl. "
        "slopes near overflow, benchmark functions, 1..12 dims) x parameters over their whole registered domains (incl. denormal / near-max / "
        "boundary values) x max_evals 10..400 biased to 10..16 x eps incl. 5e-324 and 1e-1 x x0 radius 0, 1e-3..10, 1e3")
FLAVOUR = {"quick": "plain", "thorough": "plain"}
HARNESS_TIMEOUT = 2400

NM_SOLVERS = ["gs", "ags", "gs-lbfgs", "ags-lbfgs", "sgm", "osga", "ellipsoid", "asga2", "asga4", "cocob", "sda", "wda", "pgm", "dgm",
              "fgm", "rqb", "fpba1", "fpba2"]
CONSTRAINED = ["linear-penalty", "quadratic-penalty", "augmented-lagrangian"]
ALL_SOLVERS = c01.LS_SOLVERS + NM_SOLVERS + CONSTRAINED
GS = {"gs", "ags", "gs-lbfgs", "ags-lbfgs"}
ALL_FUNCTIONS = sorted(c01.FUNCTIONS)
STATUS = c01.STATUS


def logu(rng, a, b):
    return 10.0 ** rng.uniform(math.log10(a), math.log10(b))


def solver_params(rng, sid):
    """a few solver-specific parameters drawn from their registered domains; second value: do they change the per-iteration cost?"""
    p = []
    pat = lambda name: p.append((name, "i", rng.choice([10, 11, 20, 100, 1000])))  # noqa: E731
    if sid == "sgm":
        if rng.chance(0.5): p.append(("solver::sgm::power", "f", rng.uniform(0.5, 1.0)))
        if rng.chance(0.6): pat("solver::sgm::patience")
    elif sid == "osga":
        if rng.chance(0.4): p.append(("solver::osga::lambda", "f", rng.uniform(0.05, 0.95)))
        if rng.chance(0.4): p.append(("solver::osga::alpha_max", "f", rng.uniform(0.05, 0.95)))
        if rng.chance(0.6): pat("solver::osga::patience")
    elif sid == "lbfgs":
        if rng.chance(0.6): p.append(("solver::lbfgs::history", "i", rng.choice([1, 2, 5, 20, 100])))
    elif sid in ("dfp", "sr1", "bfgs", "hoshino", "fletcher"):
        if rng.chance(0.4): p.append(("solver::quasi::initialization", "s", "scaled"))
        if sid == "sr1" and rng.chance(0.4): p.append(("solver::quasi::sr1::r", "f", logu(rng, 1e-10, 0.1)))
    elif sid.startswith("cgd-"):
        if rng.chance(0.4): p.append(("solver::cgd::orthotest", "f", rng.uniform(0.01, 0.99)))
        if sid == "cgd-n" and rng.chance(0.4): p.append(("solver::cgdN::eta", "f", logu(rng, 1e-4, 1e2)))
    elif sid == "ellipsoid":
        if rng.chance(0.5): p.append(("solver::ellipsoid::R", "f", logu(rng, 0.1, 1e3)))
    elif sid in ("asga2", "asga4"):
        if rng.chance(0.4): p.append(("solver::asga::L0", "f", logu(rng, 1e-3, 1e3)))
        if rng.chance(0.3): p.append(("solver::asga::gamma1", "f", rng.uniform(1.1, 8.0)))
        if rng.chance(0.3): p.append(("solver::asga::gamma2", "f", rng.uniform(0.1, 0.99)))
        if rng.chance(0.6): pat("solver::asga::patience")
    elif sid == "cocob":
        if rng.chance(0.4): p.append(("solver::cocob::L0-nonsmooth", "f", logu(rng, 1e-3, 1e4)))
        if rng.chance(0.6): pat("solver::cocob::patience")
    elif sid in ("sda", "wda"):
        if rng.chance(0.4): p.append(("solver::pdsgm::D", "f", logu(rng, 1e-2, 1e2)))
        if rng.chance(0.6): pat("solver::pdsgm::patience")
    elif sid in ("pgm", "dgm", "fgm"):
        if rng.chance(0.4): p.append(("solver::universal::L0", "f", logu(rng, 1e-3, 1e3)))
        if rng.chance(0.6): pat("solver::universal::patience")
    elif sid in GS:
        p += gs_params(rng, sid, 0.3)
    elif sid in ("rqb", "fpba1", "fpba2"):
        if rng.chance(0.4): p.append((f"solver::{sid}::bundle::max_size", "i", rng.choice([2, 3, 5, 20, 100])))
        if rng.chance(0.3): p.append((f"solver::{sid}::csearch::interpol", "f", rng.uniform(0.05, 0.95)))
    elif sid in ("linear-penalty", "quadratic-penalty"):
        if rng.chance(0.4): p.append(("solver::penalty::eta", "f", rng.uniform(1.5, 20.0)))
        if rng.chance(0.4): p.append(("solver::penalty::penalty0", "f", logu(rng, 0.1, 1e3)))
        if rng.chance(0.4): p.append(("solver::penalty::max_outer_iters", "i", rng.range(10, 30)))
    elif sid == "augmented-lagrangian":
        if rng.chance(0.4): p.append(("solver::augmented::tau", "f", rng.uniform(0.1, 0.9)))
        if rng.chance(0.4): p.append(("solver::augmented::gamma", "f", rng.uniform(2.0, 20.0)))
        if rng.chance(0.4): p.append(("solver::augmented::max_outer_iters", "i", rng.range(10, 40)))
    return p


# ---- the solvers whose iteration body is in the Lean model (family `solvernm`) -------------------------------------------------
NM_MODELLED = ["sgm", "cocob", "sda", "wda", "pgm", "dgm", "fgm", "asga2", "asga4", "osga"]
FMAX = 1.7976931348623157e308
NM_RTOL = 1e-9          # osga: points the model computes vs points the implementation evaluated at, relative to the largest
                        # magnitude among the start and the points evaluated so far (>= 1)
NM_RTOL_EXACT = 1e-11   # … the other nine bodies (their recurrences do not amplify; measured <= 1e-12 over 2e4 runs)
NM_MARGIN = 1e-9        # a decision is compared only when the two sides of its test differ by more than this (relative)
PATIENCE = {"sgm": "solver::sgm::patience", "cocob": "solver::cocob::patience", "sda": "solver::pdsgm::patience",
            "wda": "solver::pdsgm::patience", "pgm": "solver::universal::patience", "dgm": "solver::universal::patience",
            "fgm": "solver::universal::patience", "asga2": "solver::asga::patience", "asga4": "solver::asga::patience",
            "osga": "solver::osga::patience"}


def pos_scalar(rng, lo=1e-12, hi=1e12, top=FMAX, top_open=False):
    """a scalar parameter with domain (0, top] / (0, top): log-uniform bulk, the extremes of the domain now and then"""
    c = rng.below(12)
    if c == 0:
        return 5e-324 if rng.chance(0.5) else 1e-300
    if c == 1:
        return (top * (1.0 - 2.0 ** -53) if top_open else top) if rng.chance(0.5) else top / 1e8
    if c == 2:
        return 1.0
    return logu(rng, lo, hi)


def nm_params(rng, sid):
    """the parameters of a modelled solver, drawn over their whole registered domains"""
    p = [(PATIENCE[sid], "i", rng.choice([10, 10, 11, 13, 20, 100, 1000, 10 ** 6]))] if rng.chance(0.8) else []
    if sid == "sgm":
        if rng.chance(0.8): p.append(("solver::sgm::power", "f", rng.choice([0.5, 1.0]) if rng.chance(0.3) else rng.uniform(0.5, 1.0)))
    elif sid == "cocob":
        if rng.chance(0.7): p.append(("solver::cocob::L0-smooth", "f", pos_scalar(rng, 1e-20, 1e6)))
        if rng.chance(0.7): p.append(("solver::cocob::L0-nonsmooth", "f", pos_scalar(rng, 1e-6, 1e6)))
    elif sid in ("sda", "wda"):
        if rng.chance(0.8): p.append(("solver::pdsgm::D", "f", pos_scalar(rng, 1e-8, 1e8)))
    elif sid in ("pgm", "dgm", "fgm"):
        if rng.chance(0.8): p.append(("solver::universal::L0", "f", pos_scalar(rng, 1e-8, 1e8, top_open=True)))
        if rng.chance(0.7): p.append(("solver::universal::lsearch_max_iters", "i", rng.choice([10, 11, 20, 50, 100])))
    elif sid in ("asga2", "asga4"):
        if rng.chance(0.8): p.append(("solver::asga::L0", "f", pos_scalar(rng, 1e-8, 1e8, top_open=True)))
        if rng.chance(0.6): p.append(("solver::asga::gamma1", "f", rng.choice([1.0 + 2.0 ** -52, 1.001, 1e6, 1e300]) if rng.chance(0.3) else 1.0 + logu(rng, 1e-3, 1e2)))
        if rng.chance(0.6): p.append(("solver::asga::gamma2", "f", rng.choice([5e-324, 1e-6, 1.0 - 2.0 ** -53]) if rng.chance(0.3) else rng.uniform(0.01, 0.999)))
        if rng.chance(0.7): p.append(("solver::asga::lsearch_max_iters", "i", rng.choice([10, 11, 20, 100, 1000])))
    elif sid == "osga":
        if rng.chance(0.7): p.append(("solver::osga::lambda", "f", rng.choice([1e-9, 1.0 - 2.0 ** -53]) if rng.chance(0.2) else rng.uniform(0.01, 0.99)))
        if rng.chance(0.7): p.append(("solver::osga::alpha_max", "f", rng.choice([1e-9, 1.0 - 2.0 ** -53]) if rng.chance(0.2) else rng.uniform(0.01, 0.99)))
        if rng.chance(0.5):
            k1 = logu(rng, 1e-3, 10.0)
            p.append(("solver::osga::kappas", "p", (k1, k1 * (1.0 if rng.chance(0.3) else rng.uniform(1.0, 20.0)))))
    return p


def gen_nm(rng, tier):
    """runs of the modelled solvers: parameters over their whole domains, tiny budgets, small dimensions"""
    ops = []
    per_solver = 45 if tier == "quick" else 400
    for k in range(per_solver * len(NM_MODELLED)):
        sid = NM_MODELLED[k % len(NM_MODELLED)]
        pick = rng.below(10)
        n = rng.range(1, 6) if not rng.chance(0.15) else rng.range(7, 12)
        if pick < 3:
            # now and then a quadratic so steep that a step overflows: the `isfinite` guards of the bodies are on the path
            scale = logu(rng, 1e-3, 1e3) if not rng.chance(0.3) else logu(rng, 1e296, 1e304)
            A, a, _ = c01.random_quadratic(rng, n, logu(rng, 1.0, 1e4), scale)
            fnspec = c01.quad_spec(A, a)[:-2]
        elif pick < 6:
            W, b = random_pwl(rng, n)
            if rng.chance(0.3):           # slopes near the overflow threshold: a step of order 1 makes the value inf or NaN
                sc = logu(rng, 1e304, 1e308)
                W = [[v * sc for v in row] for row in W]
            fnspec = pwl_spec(W, b)
        else:
            fid = rng.choice(ALL_FUNCTIONS)
            if fid == "rosenbrock" or "+" in fid:
                n = max(n, 2)
            if fid == "powell":
                n = max(4, n - n % 4)
            fnspec = f"bench {fid} {n} {rng.choice([10, 50])}"
        fnspec += " 0"
        eps = c01.eps_grid(rng) if not rng.chance(0.15) else rng.choice([1e-1, 1e-12, 5e-324])
        c = rng.below(10)
        max_evals = rng.range(10, 16) if c < 4 else (rng.range(16, 80) if c < 8 else rng.range(80, 400))
        params = [("solver::epsilon", "f", eps), ("solver::max_evals", "i", max_evals)] + nm_params(rng, sid)
        radius = logu(rng, 1e-3, 10.0) if not rng.chance(0.1) else rng.choice([0.0, 1e3])
        x0 = c01.start_point(rng, n, radius)
        ops.append(c01.make_op("solvernm", sid, "-", "-", params, fnspec, x0))
    return ops


def gs_params(rng, sid, chance):
    """every registered parameter of the gradient-sampling family (src/solver/gsample.cpp), each over its whole domain"""
    b = f"solver::{sid}::"
    p = []
    if rng.chance(chance): p.append((b + "miu0", "f", rng.choice([0.0, 1e-6, 1.0]) if rng.chance(0.4) else logu(rng, 1e-9, 1e5)))          # [0, 1e6)
    if rng.chance(chance): p.append((b + "epsilon0", "f", logu(rng, 1e-6, 1e2) if not rng.chance(0.2) else logu(rng, 1e-3, 1.0)))        # (0, 1e6)
    if rng.chance(chance): p.append((b + "theta_miu", "f", 1.0 if rng.chance(0.3) else rng.uniform(0.01, 1.0)))                           # (0, 1]
    if rng.chance(chance): p.append((b + "theta_epsilon", "f", 1.0 if rng.chance(0.2) else rng.uniform(0.01, 1.0)))                       # (0, 1]
    if rng.chance(chance): p.append((b + "lsearch_beta", "f", 0.0 if rng.chance(0.3) else logu(rng, 1e-12, 0.9)))                         # [0, 1)
    if rng.chance(chance): p.append((b + "lsearch_gamma", "f", rng.uniform(0.02, 0.49) if rng.chance(0.6) else rng.uniform(0.5, 0.98)))   # (0, 1)
    if rng.chance(chance): p.append((b + "lsearch_perturb_c", "f", 0.0 if rng.chance(0.3) else logu(rng, 1e-10, 0.9)))                    # [0, 1)
    if rng.chance(chance * 0.5): p.append((b + "lsearch_max_iters", "i", rng.choice([1, 2, 5, 20, 50, 100])))                             # (0, 100]
    return p


def gen_gs(rng, tier):
    """the gradient-sampling family on small convex quadratics with moderate budgets and every registered parameter drawn: its
    line search (src/solver/gsample/lsearch.h) moves the state with state.update(), so `returned value <= f(x0)` rests on its
    step-size bookkeeping for every lsearch_gamma in (0, 1)"""
    ops = []
    per_solver = 14 if tier == "quick" else 120
    ids = sorted(GS)
    for k in range(per_solver * len(ids)):
        sid = ids[k % len(ids)]
        n = rng.choice([1, 1, 2, 3, 4, 8])
        A, a, _ = c01.random_quadratic(rng, n, logu(rng, 1.0, 1e2), logu(rng, 0.1, 10.0))
        fnspec = c01.quad_spec(A, a)[:-2] + " 0"
        max_evals = rng.range(300, 900 if tier == "quick" else 2000)
        params = [("solver::epsilon", "f", c01.eps_grid(rng)), ("solver::max_evals", "i", max_evals)] + gs_params(rng, sid, 0.8)
        x0 = c01.start_point(rng, n, logu(rng, 0.5, 10.0))
        ops.append(c01.make_op("solver2", sid, "-", "-", params, fnspec, x0))
    return ops


def random_pwl(rng, n):
    m = rng.range(1, 2 * n + 2)
    W = [[rng.uniform(-1.0, 1.0) * (1.0 if rng.chance(0.8) else 0.0) for _ in range(n)] for _ in range(m)]
    if rng.chance(0.8):  # bounded below: add the rows -W_i of an existing row
        W.append([-v for v in W[rng.below(m)]])
    b = [rng.uniform(-1.0, 1.0) for _ in range(len(W))]
    return W, b


def pwl_spec(W, b):
    n = len(W[0])
    return f"pwl {n} {len(W)} {lst([v for row in W for v in row], f2h)} {lst(b, f2h)}"


def gen(rng, tier):
    ops = []
    cp = os.path.join(vlib.VERIF, "corpus", "C02", "ops.txt")
    if os.path.exists(cp):
        ops += [l.strip() for l in open(cp) if l.strip() and not l.startswith("#")]
    per_solver = 30 if tier == "quick" else 200
    for k in range(per_solver * len(ALL_SOLVERS)):
        sid = ALL_SOLVERS[k % len(ALL_SOLVERS)]
        ls = sid in c01.LS_SOLVERS
        cons = sid in CONSTRAINED
        small = rng.chance(0.45)          # small enough for the trace to be replayed by the model
        # function
        pick = rng.below(10)
        if pick < 2:
            n = rng.range(1, 8 if small else 16)
            A, a, _ = c01.random_quadratic(rng, n, logu(rng, 1.0, 1e4), logu(rng, 1e-3, 1e3))
            fnspec = c01.quad_spec(A, a)[:-2]
        elif pick < 4:
            n = rng.range(1, 8 if small else 16)
            W, b = random_pwl(rng, n)
            fnspec = pwl_spec(W, b)
        else:
            fid = rng.choice(ALL_FUNCTIONS)
            n = rng.choice([1, 2, 3, 4, 8] if small else [1, 2, 3, 4, 8, 16, 32]) if not rng.chance(0.2) else rng.range(1, 8 if small else 32)
            if sid in GS and n > 16 and not rng.chance(0.2):
                n = rng.range(1, 16)      # the gradient-sampling solvers solve a QP with 2n+ gradients per iteration
            if fid == "rosenbrock" or "+" in fid:
                n = max(n, 2)
            if fid == "powell":
                n = max(4, n - n % 4)
            fnspec = f"bench {fid} {n} {rng.choice([10, 50])}"
        # constraints
        cs = []
        if cons and rng.chance(0.85):
            for _ in range(rng.range(1, 2)):
                kind = rng.below(4)
                if kind == 0:
                    lo = rng.uniform(-2.0, 0.5); cs.append(f"box {f2h(lo)} {f2h(lo + rng.uniform(0.1, 3.0))}")
                elif kind == 1:
                    cs.append(f"ball {f2h(rng.uniform(0.2, 5.0))}")
                elif kind == 2:
                    cs.append(f"lineq {lst([rng.uniform(-1.0, 1.0) for _ in range(n)], f2h)} {f2h(rng.uniform(-1.0, 1.0))}")
                else:
                    cs.append(f"linle {lst([rng.uniform(-1.0, 1.0) for _ in range(n)], f2h)} {f2h(rng.uniform(-1.0, 1.0))}")
        fnspec += f" {len(cs)}" + "".join(" " + c for c in cs)
        # configuration
        eps = c01.eps_grid(rng) if not rng.chance(0.1) else 1e-1
        if small:
            max_evals = rng.choice([10, 11, 12, 15, 20, 30, 50]) if rng.chance(0.6) else rng.range(10, 200)
        else:
            max_evals = rng.choice([10, 50, 100, 1000, 5000]) if rng.chance(0.4) else rng.range(10, 5000)
        if (sid in GS or sid in ("rqb", "fpba1", "fpba2")) and not (tier == "thorough" and rng.chance(0.05)):
            # a QP over the whole bundle / sample set per iteration: keep the bulk of these runs short
            cap = 400 if tier == "quick" else 1200
            if max_evals > cap:
                max_evals = rng.range(10, cap)
        params = [("solver::epsilon", "f", eps), ("solver::max_evals", "i", max_evals)]
        ls0 = lsk = "-"
        if ls and rng.chance(0.6):
            ls0 = rng.choice(c01.LSEARCH0 + ["-"]); lsk = rng.choice(c01.LSEARCHK + ["-"])
        if ls and rng.chance(0.3):
            c1 = 10.0 ** rng.uniform(-6.0, math.log10(0.45))
            params.append(("solver::tolerance", "p", (c1, rng.uniform(max(c1 * 1.01, 0.05), 0.99))))
        params += solver_params(rng, sid)
        radius = logu(rng, 1e-3, 10.0)
        x0 = c01.start_point(rng, n, radius)
        ops.append(c01.make_op("solver2", sid, ls0, lsk, params, fnspec, x0))
    return ops + gen_nm(rng, tier) + gen_gs(rng, tier) + gen_ls_nonsmooth(rng, tier)


def gen_ls_nonsmooth(rng, tier):
    """line-search solvers OUTSIDE their documented class: non-smooth objectives make the line searches FAIL after a few accepted
    trials, and the failure paths must still leave a consistent state - value and gradient of the returned point (seeded change
    C02-f1: CG_DESCENT returning the lower end of its bracket with the last trial's gradient). From a forked stream, appended."""
    r = rng.fork()
    nonsmooth = sorted(f for f, (_, smooth) in c01.FUNCTIONS.items() if not smooth)
    ops = []
    for k in range(170 if tier == "quick" else 1500):
        sid = c01.LS_SOLVERS[k % len(c01.LS_SOLVERS)]
        if r.chance(0.75):
            fid = r.choice(nonsmooth)
            n = r.choice([2, 3, 4, 8])
            fnspec = f"bench {fid} {n} {r.choice([10, 50])} 0"
        else:
            n = r.range(2, 8)
            W, b = random_pwl(r, n)
            fnspec = pwl_spec(W, b) + " 0"
        params = [("solver::epsilon", "f", c01.eps_grid(r)), ("solver::max_evals", "i", r.choice([100, 300, 1000]))]
        lsk = r.choice(["cgdescent", "cgdescent", "morethuente", "fletcher", "lemarechal", "backtrack"])
        x0 = c01.start_point(r, n, logu(r, 1e-3, 10.0))
        ops.append(c01.make_op("solver2", sid, r.choice(c01.LSEARCH0 + ["-"]), lsk, params, fnspec, x0))
    return ops


# ---------------------------------------------------------------------------------------------------------------------

class Res:
    pass


def parse_res(res):
    t = Toks(res)
    if t.s() != "ok":
        return None
    r = Res()
    r.status = t.int(); r.units = t.int(); r.fevals = t.int(); r.gevals = t.int(); r.fcalls = t.int(); r.gcalls = t.int()
    r.x = t.fs(); r.fx = t.f(); r.gx = t.fs(); r.fr = t.f(); r.gr = t.fs(); r.f0 = t.f(); r.g0norm = t.f()
    r.mon_checked = t.int(); r.mon_bad = t.int(); r.max_inner = t.int()
    r.smooth = t.int(); r.convex = t.int(); r.ls = t.int(); r.constraints = t.int(); r.traced = t.int()
    return r


def same(a, b):
    return a == b or (a != a and b != b)


_seen = {}

# parameters that change the cost of one outer iteration: the statement's bound is for their defaults
COST_PARAMS = ("lsearch_max_iters", "bundle::max_size", "max_outer_iters")


def oracle(aug, res):
    """the clauses of the statement, evaluated independently on what the implementation returned"""
    o = c01.parse_op(aug)
    r = parse_res(res)
    if r is None:
        return f"minimize() did not return a state: {res[:120]}"
    key = aug.split(" | ")[0]
    _seen[key] = (o.sid, r.status, r.units)
    if not math.isfinite(r.f0):
        return None  # outside the quantifier: the start must have a finite value
    if len(r.x) != o.n or len(r.gx) != o.n:
        return f"dimension: returned point/gradient have {len(r.x)}/{len(r.gx)} components, expected {o.n}"
    if r.status not in (0, 1, 2):
        return f"status: {STATUS.get(r.status, r.status)} is not one of converged / max_iters / failed"
    # reported value (and gradient) = the function at the returned point, recomputed independently
    if o.kind == "quad":
        f, g = c01.quad_eval(o.A, o.a, r.x)
    elif o.kind == "pwl":
        f, g = c01.pwl_eval(o.W, o.b, r.x)
    else:
        f, g = r.fr, r.gr
    if not (same(f, r.fr) and all(same(p, q) for p, q in zip(g, r.gr))):
        return "harness: the plain function and the python re-evaluation disagree"
    if not same(r.fx, f):
        return f"value: reported fx = {r.fx!r} but f(x) = {f!r} at the returned point (status {STATUS[r.status]})"
    if r.ls and not all(same(p, q) for p, q in zip(r.gx, g)):
        return f"gradient: reported gx differs from the gradient at the returned point (status {STATUS[r.status]})"
    if r.fcalls > r.fevals or r.gcalls > r.gevals or r.fcalls + r.gcalls > r.units:
        return f"counts: reported fcalls|gcalls = {r.fcalls}|{r.gcalls} exceed the {r.fevals}|{r.gevals} evaluations performed"
    if r.mon_bad:
        return (f"monitor: {r.mon_bad} of {r.mon_checked} triples handed to update_if_better / left by a line search / shown to done "
                f"are not evaluations of the function")
    if r.status != 2:
        if not (math.isfinite(r.fx) and all(math.isfinite(v) for v in r.x)):
            return f"finite: status {STATUS[r.status]} with a non-finite point or value (fx = {r.fx!r})"
        in_class = bool(r.smooth) if r.ls else (bool(r.convex) if o.sid == "rqb" else True)
        if o.sid in CONSTRAINED and r.constraints > 0:
            in_class = False
        if in_class and abs(r.f0) < 1e8 and r.g0norm < 1e8:
            cgdescent = bool(r.ls) and o.lsk in ("-", "cgdescent")
            allow = 5e-4 * (1.0 + abs(r.f0)) if cgdescent else 0.0
            if r.fx > r.f0 + allow:
                return (f"increase: returned value {r.fx!r} is larger than the starting value {r.f0!r}"
                        + (" beyond the CG_DESCENT allowance" if cgdescent else ""))
    if o.family == "solvernm":
        why = oracle_nm(o, r, res)
        if why:
            return why
    default_cost = not any(any(c in name for c in COST_PARAMS) for name in o.params) and \
        "lsearchk::max_iterations" not in o.params
    if default_cost:
        bound = o.max_evals + 1100 + 8 * o.n
        used = r.max_inner if o.sid in CONSTRAINED else r.units
        if used > bound:
            return f"budget: {used} evaluations performed, max_evals = {o.max_evals} (+1100 + 8*{o.n} = {bound})"
    return None


DBL_MAX = 1.7976931348623157e308


def per_iteration_evals(o):
    """evaluations (value + gradient) of ONE outer iteration of a modelled solver, from the source: the `K` of the statement's
    "exceeds max_evals by at most one outer iteration's worth" for this solver and these parameters"""
    if o.sid in ("sgm", "cocob", "sda", "wda"):
        return 2                                                   # one vgrad(x, g)
    ls = o.params.get("solver::universal::lsearch_max_iters", 100)
    if o.sid == "pgm":
        return 2 * ls                                              # per trial: vgrad(xk1, gxk1)
    if o.sid == "dgm":
        return 3 * ls                                              # … + vgrad(yk)
    if o.sid == "fgm":
        return 4 * ls                                              # … vgrad(xk1, gxk1) + vgrad(yk1, gyk1)
    if o.sid in ("asga2", "asga4"):
        return 4 * o.params.get("solver::asga::lsearch_max_iters", 100)
    if o.sid == "osga":
        return 3                                                   # vgrad(x, g) + vgrad(x_prime)
    return None


def oracle_nm(o, r, res):
    """clauses of the statement that can be evaluated sharply for the solvers whose body is modelled, from the hooks' log alone
    (independent of the model): every candidate is an evaluation of the function, `converged` is only reported through the
    documented test, the budget is exceeded by less than one iteration's worth"""
    try:
        tr = parse_nm(res, False)
    except Exception:
        return "harness: cannot parse the trace part of the result line"
    # the candidates handed to update_if_better: value recomputed here for the functions the oracle can evaluate
    if o.kind in ("quad", "pwl"):
        for fx, _, x in tr.U:
            if all(math.isfinite(v) for v in x):
                f = (c01.quad_eval(o.A, o.a, x) if o.kind == "quad" else c01.pwl_eval(o.W, o.b, x))[0]
                if not same(f, fx):
                    return f"candidate: update_if_better was handed fx = {fx!r} at a point where f = {f!r}"
    # the best-state bookkeeping and value_test, replayed on the logged candidates
    patience = o.params.get(PATIENCE[o.sid], 1000)
    best_x = list(o.x0); hist = []
    for fx, mfx, x in tr.U:
        if math.isfinite(fx):
            df = mfx - fx
            dx = max([abs(p - q) for p, q in zip(best_x, x)] + [0.0])
            if df > 0.0:
                best_x = list(x)
            hist.append((df, dx))
        else:
            hist.append((-DBL_MAX, -DBL_MAX))
    if r.status == 1:
        if not tr.D or tr.D[-1][1] != 1:
            return "converged: status converged without a done(…, converged = true) call"
        # value_test(patience) on the complete history (the last done call follows the last update_if_better call)
        vt = DBL_MAX
        k = next((i for i, (df, _) in enumerate(reversed(hist)) if df > 0.0), None)
        if k is None:
            vt = 0.0 if len(hist) >= patience else DBL_MAX
        else:
            vt = max(hist[len(hist) - 1 - k]) if k < patience else 0.0
        by_value_test = vt < o.eps
        # the other documented tests: a (sub)gradient below machine precision (sgm, sda, wda, osga), eta < epsilon (osga)
        other = o.sid == "osga" or (o.sid in ("sgm", "sda", "wda") and len(tr.D) == len(tr.U) + 1)
        if not by_value_test and not other:
            return (f"converged: status converged although value_test({patience}) = {vt!r} >= epsilon = {o.eps!r} "
                    f"after {len(hist)} update_if_better calls")
    K = per_iteration_evals(o)
    if K is not None and r.units >= max(o.max_evals, 1) + K and r.units > 2:
        return (f"budget: {r.units} evaluations performed, max_evals = {o.max_evals}: more than one outer iteration's worth "
                f"({K}) beyond the budget")
    return None


def classify(op, kind, detail):
    try:
        o = c01.parse_op(op)
    except Exception:
        return None
    if kind == "oracle":
        clause = detail.split(":")[0]
        extra = ""
        if clause in ("increase", "gradient", "value") and o.sid in c01.LS_SOLVERS:
            extra = ":" + o.lsk
        return f"{clause}:{o.sid}{extra}"
    return f"{kind}:{o.sid}"


def nontrivial(op):
    v = _seen.get(op.split(" | ")[0])
    return bool(v) and v[2] > 2


def family_of(sid):
    if sid in c01.LS_SOLVERS:
        return "line-search"
    if sid in CONSTRAINED:
        return "constrained"
    if sid in GS:
        return "gradient-sampling"
    if sid in ("rqb", "fpba1", "fpba2"):
        return "bundle"
    return "non-monotonic"


def distribution(ops):
    d = {}
    for op in ops:
        t = op.split()
        d[t[2]] = d.get(t[2], 0) + 1
    for sid, status, _ in _seen.values():
        k = f"{family_of(sid)}:{STATUS.get(status, status)}"
        d[k] = d.get(k, 0) + 1
    # family solvernm: how the model replays went
    d["solvernm:replayed"] = nm_stats["compared"]
    d["solvernm:accepted-because-a-decision-was-marginal"] = nm_stats["marginal"]
    d["solvernm:osga-compared-up-to-amplified-rounding"] = nm_stats["amplified"]
    d["solvernm:osga-resynchronised-per-iteration(hook osga.iter)"] = nm_stats.get("resync", 0)
    d["solvernm:max-relative-deviation-of-an-evaluation-point"] = nm_stats["max_dev"]
    return d


class NmTrace:
    pass


def parse_nm(text, model):
    """the part after ` M ` of a `solvernm` result line (implementation) / of the model's line"""
    t = Toks(text.split(" M ", 1)[1])
    r = NmTrace()
    r.status = t.int(); r.x = t.fs(); r.fx = t.f(); r.gx = t.fs(); r.fcalls = t.int(); r.gcalls = t.int()
    assert t.s() == "Q"
    r.Q = [t.fs() for _ in range(t.int())]
    assert t.s() == "U"
    r.U = [(t.f(), t.f(), t.fs()) for _ in range(t.int())]
    assert t.s() == "D"
    r.D = []
    for _ in range(t.int()):
        d = (t.int(), t.int(), t.int(), t.int(), t.f())
        r.D.append(d + ((t.f(),) if model else ()))
    r.T = []; r.R = None
    if model:
        assert t.s() == "T"
        r.T = [(t.f(), t.f()) for _ in range(t.int())]
        if not t.done():
            assert t.s() == "R"
            r.R = []
            k = t.int()
            r.R0 = parse_osga_mem(t)
            for _ in range(k):
                x = t.fs(); xp = t.fs(); cx = t.fs(); cf = t.f(); e = t.int(); m1 = parse_osga_mem(t)
                r.R.append((x, xp, cx, cf, e, m1, [(t.f(), t.f()) for _ in range(t.int())]))
    return r


def parse_osga_mem(t):
    """alpha eta gamma fb h u xb"""
    return (t.f(), t.f(), t.f(), t.f(), t.fs(), t.fs(), t.fs())


def hook_records(aug):
    """the records of the optional hook osga.iter at the end of the A line"""
    tail = aug.rsplit(" H ", 1)
    if len(tail) != 2:
        return []
    t = Toks(tail[1])
    return [parse_osga_mem(t) for _ in range(t.int())]


def nm_header(aug):
    """the harness part of a solvernm A line up to the start point: sid, n, eps, max_evals, scalar parameters, integer parameters,
    smooth, strong convexity, epsilon0"""
    t = Toks(aug.split(" | ", 1)[1])
    sid = t.s(); n = t.int(); eps = t.f(); me = t.int()
    assert t.s() == "PF"
    pf = t.fs()
    assert t.s() == "PI"
    pi = [t.int() for _ in range(t.int())]
    return sid, n, eps, me, pf, pi, t.int(), t.f(), t.f()


def eval_log(aug):
    """the wrapper's log at the end of the A line: [(x, f, g)] in call order"""
    body = aug.split(" N ", 1)[1].rsplit(" H ", 1)[0]
    t = Toks(body)
    out = []
    for _ in range(t.int()):
        t.int(); x = t.fs(); f = t.f(); g = t.fs()
        out.append((x, f, g))
    return out


def close_num(a, b, rtol, scale):
    return same(a, b) or (math.isfinite(a) and math.isfinite(b) and abs(a - b) <= rtol * max(scale, abs(a), abs(b)))


def osga_resync_ok(aug, a, b, eps):
    """with the hook osga.iter: every iteration recomputed by the model from the LOGGED private variables must produce the two
    evaluation points, the candidate, and the private variables of the next iteration (NM_RTOL relative to the magnitudes involved
    in that iteration), and a `converged` flag consistent with the logged one"""
    H = hook_records(aug)
    if b.R is None or len(H) != len(b.R):
        return False
    evs = eval_log(aug)
    hd = nm_header(aug)
    lam, _, kappa_p, _ = hd[4]
    miu = hd[7] / 2.0
    fin = lambda vs: [abs(v) for v in vs if math.isfinite(v)]  # noqa: E731
    # osga.cpp:68-84, the initialisation: the variables logged at the top of the first iteration are the model's `osgaInit`
    if H:
        m0 = b.R0; h0 = H[0]
        sc0 = max([1.0] + fin(list(h0[4]) + list(h0[5]) + list(h0[6])))
        S0 = max([1.0] + fin([h0[3]]) + [len(h0[4]) * max(fin(h0[4]) + [0.0]) * sc0])
        if not (same(h0[0], m0[0]) and close_num(h0[1], m0[1], NM_RTOL, max(miu, abs(h0[1]) if math.isfinite(h0[1]) else 0.0))
                and close_num(h0[2], m0[2], NM_RTOL, S0) and same(h0[3], m0[3]) and close_vec(h0[4], m0[4], NM_RTOL, sc0)
                and (close_vec(h0[5], m0[5], NM_RTOL, sc0) or not all(math.isfinite(v) for v in list(h0[5]) + list(m0[5])))
                and close_vec(h0[6], m0[6], NM_RTOL, sc0)):
            # at the start beta = gamma - fx + h.x0 is 0 in exact arithmetic: the branch of proxy_t::E is ALWAYS decided by rounding
            # there; the two branches agree to rounding unless h.h overflows (one gives inf, the other inf / inf)
            if all(math.isfinite(v) for v in [h0[1], m0[1]] + list(h0[5]) + list(m0[5])):
                nm_stats.setdefault("resync_fail", []).append(-1)
                return False
            osga_resync_ok.explained = True
    for i, (m, rec) in enumerate(zip(H, b.R)):
        x, xp, cx, cf, e, m1, tests = rec
        if not x and not xp:           # the stationary-start exit: no evaluation, no candidate
            if i + 1 != len(H) or len(a.Q) != 2 * i or not (i < len(a.D) and a.D[i][1] == 1):
                return False
            continue
        if 2 * i + 1 >= len(a.Q) or i >= len(a.U) or i >= len(a.D):
            return i + 1 == len(H) and 2 * i >= len(a.Q)   # the budget ended the run inside… cannot happen: records are per iteration
        sc = max([1.0] + [abs(v) for v in m[4] + m[5] + m[6] + a.Q[2 * i] + a.Q[2 * i + 1] if math.isfinite(v)])
        ok = (close_vec(a.Q[2 * i], x, NM_RTOL, sc) and close_vec(a.Q[2 * i + 1], xp, NM_RTOL, sc)
              and close_vec(a.U[i][2], cx, NM_RTOL, sc) and same(a.U[i][0], cf))
        # converged = eta_hat < epsilon || value_test < epsilon
        if e == 1 and a.D[i][1] != 1 and not (abs(m1[1] - eps) <= NM_MARGIN * abs(eps)):
            ok = False
        if ok and i + 1 < len(H):
            n = H[i + 1]
            nm_stats["resync_dev"] = max(nm_stats.get("resync_dev", 0.0), vec_dev(list(n[4]) + list(n[5]) + list(n[6]), list(m1[4]) + list(m1[5]) + list(m1[6]), sc))
            # gamma_hat = gamma + alpha (f - miu Q(x) - g.x - gamma) is a difference of numbers of this size:
            ev = evs[1 + 2 * i] if 1 + 2 * i < len(evs) else ([], 0.0, [])
            S = max([1.0] + fin([m[2], m[3], ev[1]]) + [len(ev[0]) * max(fin(ev[2]) + [0.0]) * sc])
            # eta_hat = E - miu loses what E and miu have in common; alpha is multiplied by exp(kappa' (R - 1)) with
            # R = (eta - eta_hat) / (lambda alpha eta): an error d in eta_hat is an error kappa' d / (lambda alpha |eta|) in log(alpha)
            s_eta = max(abs(m1[1]), miu) if math.isfinite(m1[1]) else 0.0
            cond = 1.0
            if all(math.isfinite(v) for v in (m[0], m[1], m1[1])) and m[0] > 0.0 and m[1] != 0.0:
                cond += kappa_p * max(abs(m[1]), s_eta) / (lam * m[0] * abs(m[1]))
            ok = (close_num(n[0], m1[0], NM_RTOL * cond, 0.0) and close_num(n[1], m1[1], NM_RTOL, s_eta) and close_num(n[2], m1[2], NM_RTOL, S)
                  and same(n[3], m1[3]) and all(close_vec(n[k], m1[k], NM_RTOL, sc) for k in (4, 5, 6)))
        # the tests on eta_hat inherit its conditioning (eta_hat = E - miu; R divides a difference of etas by lambda alpha eta)
        def marginal_eta(k, u, v):
            if not all(math.isfinite(w) for w in (u, v, m[0], m[1])) or k > 2:
                return False
            s_e = max(abs(u), miu) if k != 1 else 0.0
            if k == 1:
                return m[0] > 0.0 and m[1] != 0.0 and abs(u - v) <= NM_RTOL * max(abs(m[1]), abs(m1[1]), miu) / (lam * m[0] * abs(m[1]))
            return abs(u - v) <= NM_RTOL * s_e
        if not ok and (any(marginal_pair(u, v) for u, v in tests) or any(marginal_eta(k, u, v) for k, (u, v) in enumerate(tests))):
            # eta_hat < epsilon, R < 1, eta_hat < eta, or the branch of proxy_t::E was decided by rounding in this iteration
            nm_stats["marginal_iterations"] = nm_stats.get("marginal_iterations", 0) + 1
            osga_resync_ok.explained = True
            continue
        if not ok:
            nm_stats.setdefault("resync_fail", []).append(i)
            return False
    return True


def close_vec(a, b, rtol, scale=1.0):
    if len(a) != len(b):
        return False
    scale = max([1.0, scale] + [abs(v) for v in a if math.isfinite(v)])
    for p, q in zip(a, b):
        if same(p, q):
            continue
        if not (math.isfinite(p) and math.isfinite(q)) or abs(p - q) > rtol * scale:
            return False
    return True


nm_stats = {"max_dev": 0.0, "marginal": 0, "compared": 0, "amplified": 0}
NM_GROWTH = 1e6         # osga only, see osga_prefix_ok


def marginal_pair(u, v):
    return math.isfinite(u) and math.isfinite(v) and abs(u - v) <= NM_MARGIN * max(abs(u), abs(v))


def osga_prefix_ok(a, b, scales, growth=None):
    """osga's recurrence (u = z0 - h / E, eta -> 0) amplifies rounding differences geometrically (measured: x2..x10 per iteration,
    up to 1e-3 after 20..100 iterations, with every decision and every function value still identical). Without a trace of its
    internal variables the model cannot be re-synchronised, so: the deviation of the evaluation points may exceed NM_RTOL only
    by gradual growth (each point at most NM_GROWTH times the largest deviation before it: a discrepancy of the formulas shows as
    a jump from the 1e-16 level), and everything up to the iteration where it does must agree as for the other solvers"""
    if len(a.Q) != len(b.Q) and min(len(a.Q), len(b.Q)) < 2:
        return False
    devs = [vec_dev(p, q, s) if len(p) == len(q) else 1.0 for p, q, s in zip(a.Q, b.Q, scales)]
    first = next((k for k, d in enumerate(devs) if d > NM_RTOL), None)
    if first is None or first < 4:
        return False
    top = 1e-15
    for d in devs[:first + 1]:
        if d > (NM_GROWTH if growth is None else growth) * top:
            return False
        top = max(top, d)
    it = first // 2        # two evaluations, one update_if_better, one done per iteration
    if len(a.U) < it or len(b.U) < it or len(a.D) < it or len(b.D) < it:
        return False
    return (all(same(u[0], v[0]) and same(u[1], v[1]) for u, v in zip(a.U[:it], b.U[:it]))
            and all(u[:4] == v[:4] and same(u[4], v[4]) for u, v in zip(a.D[:it], b.D[:it])))



def vec_dev(a, b, scale=1.0):
    scale = max([1.0, scale] + [abs(v) for v in a if math.isfinite(v)])
    return max([abs(p - q) / scale for p, q in zip(a, b) if math.isfinite(p) and math.isfinite(q)] + [0.0])


def compare_nm(aug, impl, model):
    """the model was given the function's answers by position only: the points it evaluated at, the candidates it handed to
    update_if_better, the arguments of every done call, the counters and the final state must be the implementation's"""
    try:
        a = parse_nm(impl, False); b = parse_nm(model, True)
    except Exception:
        return False
    o = c01.parse_op(aug)
    eps = o.eps
    NM_RTOL = globals()["NM_RTOL"] if o.sid == "osga" else NM_RTOL_EXACT
    # the scale of the recurrence up to each evaluation: the largest magnitude among the start and the points evaluated so far
    # (a point may be a small difference of large accumulated terms)
    scales = []; sc = max([1.0] + [abs(v) for v in o.x0])
    for p in a.Q:
        sc = max([sc] + [abs(v) for v in p if math.isfinite(v)]); scales.append(sc)
    ok = (a.status == b.status and same(a.fx, b.fx) and len(a.gx) == len(b.gx) and all(same(p, q) for p, q in zip(a.gx, b.gx))
          and a.fcalls == b.fcalls and a.gcalls == b.gcalls and close_vec(a.x, b.x, NM_RTOL, sc)
          and len(a.Q) == len(b.Q) and all(close_vec(p, q, NM_RTOL, s) for p, q, s in zip(a.Q, b.Q, scales))
          and len(a.U) == len(b.U)
          and all(same(u[0], v[0]) and same(u[1], v[1]) and close_vec(u[2], v[2], NM_RTOL, sc) for u, v in zip(a.U, b.U))
          and len(a.D) == len(b.D)
          and all(u[0] == v[0] and u[1] == v[1] and u[2] == v[2] and u[3] == v[3] and same(u[4], v[4]) for u, v in zip(a.D, b.D)))
    nm_stats["compared"] += 1
    if o.sid == "osga" and hook_records(aug):
        # strict per-iteration comparison; the whole-run replay then only has to agree up to where amplified rounding sets in
        nm_stats["resync"] = nm_stats.get("resync", 0) + 1
        marg = any(marginal_pair(u, v) for u, v in b.T)
        osga_resync_ok.explained = False
        if not osga_resync_ok(aug, a, b, eps):
            return False
        # the whole-run replay may leave the implementation's path where a decision was decided by rounding, or where the
        # variables stopped being finite (overflow depends on the order of the reductions): every iteration has been checked above
        H = hook_records(aug)
        marg = marg or osga_resync_ok.explained or any(not math.isfinite(v) for m in H for v in m[:4])
        if not ok:
            if osga_prefix_ok(a, b, scales, growth=float("inf")):
                nm_stats["amplified"] += 1
                return True
            if marg:
                nm_stats["marginal"] += 1
                return True
            return False
    elif not ok and o.sid == "osga":
        ok = osga_prefix_ok(a, b, scales)
        if ok:
            nm_stats["amplified"] += 1
            return True
    if ok:
        for p, q, s in zip(a.Q, b.Q, scales):
            nm_stats["max_dev"] = max(nm_stats["max_dev"], vec_dev(p, q, s))
        return True
    # a decision whose two sides agree to NM_MARGIN may legitimately fall the other way in the model (its points differ from the
    # implementation's by rounding): value_test(patience) < epsilon, and the acceptance tests of the inner line searches
    def marginal(u, v):
        return math.isfinite(u) and math.isfinite(v) and abs(u - v) <= NM_MARGIN * max(abs(u), abs(v))
    if any(marginal(d[5], eps) for d in b.D) or any(marginal(u, v) for u, v in b.T):
        nm_stats["marginal"] += 1
        return True
    # the iterates have collapsed onto the minimiser (all coordinates of BOTH the implementation's and the model's next point below
    # 1e-6 of the run's scale, every earlier point in agreement): the points are now differences of accumulated terms of the size
    # of the scale, their leading digits are rounding noise on both sides, and the acceptance tests compare function values of
    # the order of that noise squared - the two recurrences go separate ways without either being wrong (thorough tier, seed 0:
    # fgm on cauchy[5] with epsilon = 5e-324, implementation at -5e-9, model at 1.7e-10 after ten evaluations: flagged by the
    # relative-margin rule above, a false alarm). Counted, not flagged; a formula slip shows at the first evaluations, at full scale
    first = next((k for k, (pp, qq, ss) in enumerate(zip(a.Q, b.Q, scales)) if not close_vec(pp, qq, NM_RTOL, ss)), None)
    if first is not None and first >= 4:
        big = lambda v, ss: any(math.isfinite(w) and abs(w) > 1e-6 * ss for w in v)  # noqa: E731
        if not big(a.Q[first], scales[first]) and not big(b.Q[first], scales[first]) and \
                all(same(u[0], v[0]) for u, v in zip(a.U[:max(0, first // 3)], b.U[:max(0, first // 3)])):
            nm_stats["noise_floor"] = nm_stats.get("noise_floor", 0) + 1
            return True
    return False


def compare(aug, impl, model):
    """everything after ` M `: final status/state, the best value seen by every update_if_better call, the flag and value at
    every done call — recomputed by the model from the logged oracle answers, exact comparison"""
    if " M " not in impl or " M " not in model:
        return False
    if aug.startswith("solvernm "):
        return compare_nm(aug, impl, model)
    a = impl.split(" M ", 1)[1].split()
    b = model.split(" M ", 1)[1].split()
    if len(b) > 1 and b[1] == "-":
        # solvers that also move their state outside update_if_better: status and the done decisions only
        ia = a.index("U"); ib = b.index("U")
        return a[0] == b[0] and a[ia + 2:] == b[ib + 2:]
    return a == b


def model_skip(aug):
    return " | " not in aug


def static_checks():
    exe = os.path.join(vlib.CACHE, "harness-plain", HARNESS)
    if not os.path.exists(exe):
        return []
    _, res, crash = vlib.run_harness(exe, ["solver2 list"])
    if crash or not res:
        return ["`solver2 list` failed"]
    got = {}
    for item in res[0].split()[1:]:
        name, c, s = item.rsplit(":", 2)
        got[name] = (int(c), int(s))
    if got != c01.FUNCTIONS:
        return [f"function registry differs from the generator's table: {sorted(set(got.items()) ^ set(c01.FUNCTIONS.items()))[:6]}"]
    return []
