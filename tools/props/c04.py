"""C04 — LP/QP interior point: `converged` means feasible and optimal as stated (DESIGN.md §4 C04).

One op line = one (program, restatement) pair:
  program solve <lp|qp> <n> <p> <m> <Q> <c> <A> <b> <G> <h> <x0mode> <x0> <pars> <rkind> <ri> <rf> <witness>
  matrices flat row-major; lists `len v1 .. vlen`, doubles as 16 hex digits; x0mode 0 = solve(program), 1 = solve(program, x0)
  pars: empty = default solver parameters, or `s0 miu alpha beta epsilon epsilon0`
  rkind/ri/rf: the equivalent restatement the harness applies before calling the solver
     none | dupeq [i] | combeq t(p) | mixeq T(p*p) | scaleeq w(p) | scaleineq w(m) | scaleobj [k] | permvars perm(n) | permrows perm(p)+perm(m)
  witness: `opt <x*> <u*> <v*>` (KKT-constructed; verified in exact rational arithmetic by the oracle) or `enum`
     (small integer program: feasibility / boundedness / optimum decided by exact rational simplex + active-set enumeration)
The harness appends the solver parameters, the program it stated to the solver and the oracle answers of the trace
(`T .. P .. R .. {I|S|D|Z ..} E`), see harness/c04.cpp.
"""
import collections, itertools, math, os
from fractions import Fraction
import vlib
from vlib import Toks, f2h, h2f
from props import c04_translate

ID = "C04"
LEVEL = "proof"
HARNESS = "c04"
LEAN_MODULES = ["NanoVerif.Props.C04"]
NS = "NanoVerif.Program."
OBLIGATIONS = [NS + t for t in [
    "normalise_same_feasible_set", "normalise_same_argmin", "reported_fx_is_objective",
    "u_stays_nonneg", "Gx_lt_h_invariant", "iterate_keeps_interior",
    "converged_iff_done_test", "iterate_converged_sound", "noineq_converged_sound",
    "kkt_gap_bound", "kkt_gap_bound_norm", "converged_gap_bound",
    "restatement_equiv_scale_ineq", "restatement_equiv_scale_eq", "restatement_equiv_combined_eq",
    "restatement_equiv_dup_eq", "restatement_equiv_scale_obj", "restatement_equiv_perm_rows",
    "restatement_equiv_perm_vars",
    # gap-closing round: the Newton system, every exit of the solver, reduce, the starting point, the KKT test
    "newton_solution_is_newton_direction", "noineq_exact_solution_optimal",
    "iterate_exit_cases", "iterate_status_iff", "solve_refused_start_iff", "solve_exits", "solve_converged_sound",
    "solve_converged_gap_bound",
    "reduce_contract_same_solutions", "prepared_same_feasible_set",
    "default_start_strictly_feasible", "user_start_accepted_iff", "kkt_test_le_iff",
]]
TRUSTED = [
    "Lean 4.33.0 kernel; Mathlib modules Mathlib.Algebra.Order.Field.Basic, Mathlib.Tactic.Ring/Linarith/Positivity/FieldSimp/NormNum, "
    "Mathlib.Algebra.Order.Field.Rat and Mathlib.Analysis.Real.Sqrt (non-vacuity examples) — only in Proofs/Program*.lean and Props/C04.lean",
    "axioms: at most propext, Classical.choice, Quot.sound (audited per theorem on every run)",
    "NanoVerif/Gen/ProgramDone.lean (program_t::feasible and the status decision of solver_t::done) is re-translated from "
    "src/program/solver.cpp on every run by tools/props/c04_translate.py (boolean skeleton parsed, leaves from a fixed table)",
    "hand-written generic-scalar model NanoVerif/Model/ProgramBase.lean + Program.lean + ProgramNewton.lean + ProgramSolve.lean of "
    "src/program/solver.cpp (normalize, program_t::update, the linear system m_lmat/m_lvec of program_t::solve, du, make_smax, the two "
    "backtracking stages, the loop body and its six exits, the whole loop with m_iters / m_kkt, solve_without_inequality, make_x0, the four "
    "solve overloads), src/program/state.cpp (residual, the KKT test m_kkt) and src/program/constrained.cpp (make_strictly_feasible); tied "
    "to the code by trace replay: harness/c04.cpp runs program::solver_t with the NANO_VERIF trace sink, driver_c04 recomputes every logged "
    "number and decision from the logged (x,u,v), (dx,du,dv) and the caller's program, re-runs the WHOLE loop from the logged start and the "
    "logged Newton answers alone (returned status, m_iters, fx, m_kkt, x, u, v compared with the returned state), and evaluates the model's "
    "system matrix on the logged step",
    "ORACLES of the model: Eigen LDLT (the Newton step and the KKT solve of the equality-only path; contract 'solves kktMat z = kktVec', "
    "theorems newton_solution_is_newton_direction / noineq_exact_solution_optimal; MONITORED at run time on every logged step whose "
    "slacks are well separated from 0 (kappa <= 1e4) and whose H = Q - G'diag(u/g)G and K are regular (pivot ratio >= 1e-6): normwise "
    "residual <= 1e-5; on the other steps only counted — Eigen's diagonal-pivoting LDLT does miss the contract on regular K with singular H), "
    "Eigen FullPivLU (program::reduce; contract RowEquiv = same row space of [A|b], theorems reduce_contract_same_solutions / "
    "prepared_same_feasible_set; MONITORED on every call: kept rows = exact rank of [A|b] (python fractions), every returned row within 1e-9 "
    "of the row space of [A|b] and vice versa), the least-squares solve of make_strictly_feasible (no contract needed; the returned default "
    "start is checked exactly against G x0 < h on every call)",
    "tools/props/c04.py: generator, exact rational oracle (python fractions: KKT certificate check, Bland simplex, active-set "
    "enumeration), comparator; harness/c04.cpp; g++/libstdc++/Eigen",
]
ASSUMPTIONS = [
    "theorems are about exact arithmetic (any linear ordered field); sqrt enters as a function (hypotheses state what is used); "
    "rounding, the 1e-6 feasibility margins w.r.t. the caller's program and 'never converged on an infeasible/unbounded program' "
    "are numerical and only tested (python oracle)",
    "kkt_gap_bound assumes Q symmetric positive semidefinite (as a hypothesis on the bilinear form) and u >= 0; the solver does not check convexity",
    "correspondence tolerances: values RTOL 1e-9 plus an absolute floor 1e-13 x (magnitude of the summed terms, computed from n,p,m and "
    "the inf-norms of x,u,v: the normalised data have entries <= 1); normalised data RTOL 1e-11 + 1e-14; decisions (stage-1/2 "
    "acceptance, epsilon0 test, feasibility flag, status) are compared only when their margin exceeds 4 (n+p+m+3) ulp x the "
    "magnitude of the terms behind the two compared quantities (driver_c04 evaluates the same model functions on |data|, |x|, |u|, |v| "
    "to get it); compare_why counts compared / skipped decisions in CMP_STATS",
    "when program::reduce removed dependent equality rows the reduced normalised (A,b) are taken from the trace (FullPivLU is an oracle); "
    "feasibility w.r.t. the caller's equalities is then checked by the python oracle on the returned point",
    "the default x0 (make_strictly_feasible) is read back through the public API and is an input of the model; the model of its trial "
    "schedule (msfLoop) is proved about but not run against the code (its oracle answers are not logged)",
    "the whole-run comparison is skipped when any decision of the run had a rounding-level margin (counted: whole-run-skipped); the run is "
    "seeded with the logged u0 (compared on its own, record U), so that the model's iterates are bit-identical to the logged ones",
    "m_kkt is modelled as coded: for a program without any constraint the stationarity test has size 0 and drops out (corpus line)",
]
RULE = ("KKT-constructed LPs/convex QPs with exactly representable data (n 1..12, 0..n-1 equalities, 1..2n+2 inequalities, random / few / "
        "many / vertex active sets incl. weakly active rows, Q = D'D rank 1..n, power-of-two magnitudes 2^-7..2^7 per block and per row, "
        "75% with a Slater direction) whose optimum is certified by an exact rational KKT check; small integer programs (n<=3, p<=2, "
        "m<=6, feasible or not, bounded or not) decided by exact rational simplex / active-set enumeration; all 540 one-variable programs "
        "with coefficients in {-1,0,1} (thorough; half of them in quick); every base program as stated and under 2 (quick) / all applicable "
        "(thorough) of the restatements dupeq, combeq, mixeq, scaleeq, scaleineq, scaleobj, permvars, permrows; default and user x0; "
        "15% of the base programs with non-default solver parameters (s0, miu, alpha, beta, epsilon up to 1e-3, epsilon0). "
        "A case is non-trivial when the program has >= 2 variables and its certified optimal active set is non-empty and not all "
        "inequalities (KKT witness) or it has >= 2 inequalities (enumerated); distinct by op text")
FLAVOUR = {"quick": "plain", "thorough": "asan"}
HARNESS_TIMEOUT = 3000

RTOL = 1e-9
FLOOR = 1e-13          # absolute floor of value comparisons, times the magnitude of the summed terms
DULP = 4 * 2.0 ** -53     # a decision is compared when its margin exceeds DULP (n+p+m+3) x the magnitude of the summed terms
RKINDS = ["none", "dupeq", "combeq", "mixeq", "scaleeq", "scaleineq", "scaleobj", "permvars", "permrows"]
STATUS = {0: "max_iters", 1: "converged", 2: "failed", 3: "unfeasible", 4: "unbounded"}


# ---------------------------------------------------------------------------------------------------------
# op text <-> case

def flist(xs):
    return " ".join([str(len(xs))] + [f2h(float(x)) for x in xs])


def ilist(xs):
    return " ".join([str(len(xs))] + [str(int(x)) for x in xs])


def fmt(c):
    flat = lambda M: [v for r in M for v in r]
    w = c["wit"]
    wt = "enum" if w is None else "opt " + " ".join(flist(v) for v in w)
    return " ".join(["program solve", "lp" if c["Q"] is None else "qp", str(c["n"]), str(len(c["b"])), str(len(c["h"])),
                     flist(flat(c["Q"] or [])), flist(c["c"]), flist(flat(c["A"])), flist(c["b"]), flist(flat(c["G"])),
                     flist(c["h"]), str(c["x0mode"]), flist(c["x0"] or []), flist(c.get("pars") or []), c["rkind"], ilist(c["ri"]),
                     flist(c["rf"]), wt])


def chunk(v, n, k):
    return [v[i * n:(i + 1) * n] for i in range(k)]


def parse(aug, want_trace=True):
    t = Toks(aug)
    assert t.s() == "program" and t.s() == "solve"
    c = {}
    kind = t.s(); n = t.int(); p = t.int(); m = t.int()
    Q = t.fs(); c["c"] = t.fs(); A = t.fs(); c["b"] = t.fs(); G = t.fs(); c["h"] = t.fs()
    c["n"] = n
    c["Q"] = None if kind == "lp" else chunk(Q, n, n)
    c["A"] = chunk(A, n, p); c["G"] = chunk(G, n, m)
    c["base_key"] = " ".join(t.t[2:t.i])
    c["x0mode"] = t.int(); c["x0"] = t.fs()
    c["pars"] = t.fs()
    c["rkind"] = t.s(); c["ri"] = t.ints(); c["rf"] = t.fs()
    w = t.s()
    c["wit"] = None if w == "enum" else [t.fs(), t.fs(), t.fs()]
    if t.done() or not want_trace:
        return c
    assert t.s() == "T"
    c["par"] = dict(zip(["minNorm", "eps2", "big", "nan", "s0", "miu", "alpha", "beta", "epsilon", "epsilon0"],
                        [t.f() for _ in range(10)]))
    c["par"]["maxIters"] = t.int(); c["par"]["maxLs"] = t.int()
    assert t.s() == "P"
    Qr = t.fs(); cr = t.fs(); Ar = t.fs(); br = t.fs(); Gr = t.fs(); hr = t.fs(); x0u = t.fs()
    c["stated"] = dict(Q=None if not Qr else chunk(Qr, n, n), c=cr, A=chunk(Ar, n, len(br)), b=br, G=chunk(Gr, n, len(hr)), h=hr,
                       x0=x0u)
    assert t.s() == "R"
    c["reduced"] = t.int()
    c["red"] = None
    if c["reduced"]:
        Ar2 = t.fs(); br2 = t.fs()
        c["red"] = (chunk(Ar2, n, len(br2)), br2)
    recs = []
    while True:
        tag = t.s()
        if tag == "E":
            break
        if tag in "ISD":
            recs.append((tag, t.fs(), t.fs(), t.fs()))
        elif tag == "Z":
            recs.append((tag, t.fs(), t.fs()))
        else:
            raise ValueError("aug record " + tag)
    c["recs"] = recs
    return c


# ---------------------------------------------------------------------------------------------------------
# exact rational arithmetic (independent of the Lean model)

def fr(x):
    return Fraction(x)


def frv(v):
    return [Fraction(x) for x in v]


def frm(M):
    return [frv(r) for r in M]


def xdot(a, b):
    return sum((x * y for x, y in zip(a, b)), Fraction(0))


def xmv(M, x):
    return [xdot(r, x) for r in M]


def xtmv(M, u, n):
    return [sum((M[i][j] * u[i] for i in range(len(M))), Fraction(0)) for j in range(n)]


def xobj(Q, c, x):
    return (xdot(x, xmv(Q, x)) / 2 if Q is not None else Fraction(0)) + xdot(c, x)


def restate_exact(P, rkind, ri, rf):
    """the restatement in exact arithmetic; P = dict(Q,c,A,b,G,h) of Fractions; returns (P', variable permutation or None, objective factor)"""
    Q, c, A, b, G, h = P["Q"], P["c"], P["A"], P["b"], P["G"], P["h"]
    n = len(c); perm = None; kappa = Fraction(1)
    rf = frv(rf)
    if rkind == "dupeq":
        A = A + [A[ri[0]]]; b = b + [b[ri[0]]]
    elif rkind == "combeq":
        A = A + [[sum((rf[k] * A[k][j] for k in range(len(A))), Fraction(0)) for j in range(n)]]
        b = b + [xdot(rf, b)]
    elif rkind == "mixeq":
        p = len(A); T = chunk(rf, p, p)
        A = [[sum((T[i][k] * A[k][j] for k in range(p)), Fraction(0)) for j in range(n)] for i in range(p)]
        b = [xdot(T[i], b) for i in range(p)]
    elif rkind == "scaleeq":
        A = [[rf[i] * a for a in A[i]] for i in range(len(A))]; b = [rf[i] * b[i] for i in range(len(b))]
    elif rkind == "scaleineq":
        G = [[rf[i] * a for a in G[i]] for i in range(len(G))]; h = [rf[i] * h[i] for i in range(len(h))]
    elif rkind == "scaleobj":
        kappa = rf[0]
        Q = None if Q is None else [[kappa * q for q in r] for r in Q]; c = [kappa * x for x in c]
    elif rkind == "permvars":
        perm = list(ri)
        c = [c[j] for j in perm]; A = [[r[j] for j in perm] for r in A]; G = [[r[j] for j in perm] for r in G]
        Q = None if Q is None else [[Q[j][k] for k in perm] for j in perm]
    elif rkind == "permrows":
        p = len(A); pe = ri[:p]; pi = ri[p:]
        A = [A[k] for k in pe]; b = [b[k] for k in pe]; G = [G[k] for k in pi]; h = [h[k] for k in pi]
    elif rkind != "none":
        raise ValueError(rkind)
    return dict(Q=Q, c=c, A=A, b=b, G=G, h=h), perm, kappa


def is_psd_exact(Q):
    """symmetric and positive semidefinite, by exact symmetric elimination (Schur complements)"""
    n = len(Q)
    M = [list(r) for r in Q]
    if any(M[i][j] != M[j][i] for i in range(n) for j in range(n)):
        return False
    for k in range(n):
        if M[k][k] < 0:
            return False
        if M[k][k] == 0:
            if any(M[k][j] != 0 for j in range(k, n)):
                return False
            continue
        for i in range(k + 1, n):
            if M[i][k] != 0:
                f = M[i][k] / M[k][k]
                for j in range(k + 1, n):
                    M[i][j] -= f * M[k][j]
    return True


def simplex_std(cost, A, b):
    """min cost.z s.t. A z = b, z >= 0 (Fractions, Bland's rule): ('infeasible',) | ('unbounded',) | ('optimal', z)"""
    m, n = len(A), len(cost)
    T = []
    for i in range(m):
        row = list(A[i]); rhs = b[i]
        if rhs < 0:
            row = [-t for t in row]; rhs = -rhs
        T.append(row + [Fraction(int(i == j)) for j in range(m)] + [rhs])
    basis = [n + i for i in range(m)]

    def pivot(r, col):
        pv = T[r][col]
        T[r] = [t / pv for t in T[r]]
        for i in range(len(T)):
            if i != r and T[i][col] != 0:
                f = T[i][col]
                T[i] = [a - f * bb for a, bb in zip(T[i], T[r])]
        basis[r] = col

    def run(cv, ncols):
        while True:
            inb = set(basis)
            enter = None
            for j in range(ncols):
                if j in inb:
                    continue
                rc = cv[j] - sum((cv[basis[i]] * T[i][j] for i in range(len(T)) if T[i][j] != 0), Fraction(0))
                if rc < 0:
                    enter = j
                    break
            if enter is None:
                return True
            best = None
            for i in range(len(T)):
                if T[i][enter] > 0:
                    ratio = T[i][-1] / T[i][enter]
                    if best is None or ratio < best[0] or (ratio == best[0] and basis[i] < basis[best[1]]):
                        best = (ratio, i)
            if best is None:
                return False
            pivot(best[1], enter)

    c1 = [Fraction(0)] * n + [Fraction(1)] * m
    run(c1, n + m)
    if sum((T[i][-1] for i in range(len(T)) if basis[i] >= n), Fraction(0)) > 0:
        return ("infeasible",)
    i = 0
    while i < len(T):
        if basis[i] >= n:
            col = next((j for j in range(n) if T[i][j] != 0), None)
            if col is None:
                del T[i]; del basis[i]
                continue
            pivot(i, col)
        i += 1
    c2 = list(cost) + [Fraction(0)] * m
    if not run(c2, n):
        return ("unbounded",)
    z = [Fraction(0)] * n
    for i, bcol in enumerate(basis):
        z[bcol] = T[i][-1]
    return ("optimal", z)


def lp_exact(c, Aeq, beq, Aub, bub, nonneg=()):
    """min c.x s.t. Aeq x = beq, Aub x <= bub, x free except the indices in `nonneg`"""
    n = len(c); mu = len(Aub)
    free = [j for j in range(n) if j not in nonneg]
    cols = lambda a: list(a) + [-a[j] for j in free]
    rows, rhs = [], []
    for a, bb in zip(Aeq, beq):
        rows.append(cols(a) + [Fraction(0)] * mu); rhs.append(bb)
    for i, (a, bb) in enumerate(zip(Aub, bub)):
        rows.append(cols(a) + [Fraction(int(i == j)) for j in range(mu)]); rhs.append(bb)
    r = simplex_std(cols(c) + [Fraction(0)] * mu, rows, rhs)
    if r[0] != "optimal":
        return r
    z = r[1]
    x = list(z[:n])
    for k, j in enumerate(free):
        x[j] -= z[n + k]
    return ("optimal", x)


def solve_exact(P, hint=None):
    """exact status of min 1/2 x'Qx + c'x s.t. Ax = b, Gx <= h (Q PSD or None):
       ('infeasible',) | ('unbounded',) | ('optimal', x*, f*)"""
    Q, c, A, b, G, h = P["Q"], P["c"], P["A"], P["b"], P["G"], P["h"]
    n, p, m = len(c), len(A), len(G)
    zero = [Fraction(0)] * n
    if lp_exact(zero, A, b, G, h)[0] == "infeasible":
        return ("infeasible",)
    if Q is None or all(q == 0 for r in Q for q in r):
        r = lp_exact(c, A, b, G, h)
        if r[0] == "unbounded":
            return r
        return ("optimal", r[1], xobj(Q, c, r[1]))
    # a feasible direction of zero curvature along which the objective decreases
    ray = lp_exact(zero, A + Q + [c], [Fraction(0)] * (p + n) + [Fraction(-1)], G, [Fraction(0)] * m)
    if ray[0] == "optimal":
        return ("unbounded",)
    subsets = []
    if hint is not None:
        subsets.append(tuple(hint))
    for k in range(0, m + 1):
        subsets += list(itertools.combinations(range(m), k))
    for S in subsets:
        k = len(S)
        N = n + p + k  # unknowns (x, v, u_S), u_S >= 0
        eqs, rhs = [], []
        for j in range(n):
            eqs.append(list(Q[j]) + [A[i][j] for i in range(p)] + [G[i][j] for i in S]); rhs.append(-c[j])
        for i in range(p):
            eqs.append(list(A[i]) + [Fraction(0)] * (p + k)); rhs.append(b[i])
        for i in S:
            eqs.append(list(G[i]) + [Fraction(0)] * (p + k)); rhs.append(h[i])
        ubs, urhs = [], []
        for i in range(m):
            if i not in S:
                ubs.append(list(G[i]) + [Fraction(0)] * (p + k)); urhs.append(h[i])
        r = lp_exact([Fraction(0)] * N, eqs, rhs, ubs, urhs, nonneg=tuple(range(n + p, N)))
        if r[0] == "optimal":
            x = r[1][:n]
            return ("optimal", x, xobj(Q, c, x))
    raise RuntimeError("convex QP bounded below and feasible but no KKT point found")


def check_witness(P, xs, us, vs):
    """exact KKT certificate: returns None when (xs, us, vs) proves xs optimal, else what fails"""
    Q, c, A, b, G, h = P["Q"], P["c"], P["A"], P["b"], P["G"], P["h"]
    n = len(c)
    if Q is not None and not is_psd_exact(Q):
        return "Q is not symmetric positive semidefinite"
    if xmv(A, xs) != b:
        return "A x* != b"
    s = [g - hh for g, hh in zip(xmv(G, xs), h)]
    if any(t > 0 for t in s):
        return "G x* > h"
    if any(u < 0 for u in us):
        return "u* < 0"
    if any(u * t != 0 for u, t in zip(us, s)):
        return "complementarity"
    grad = [(xdot(Q[j], xs) if Q is not None else 0) + c[j] + a + g
            for j, (a, g) in enumerate(zip(xtmv(A, vs, n), xtmv(G, us, n)))]
    if any(t != 0 for t in grad):
        return "stationarity"
    return None


_exact_cache = {}


def exact_info(c, hint_x=None):
    """exact status/optimum of the BASE program of an op (cached per base program)"""
    key = c["base_key"]
    if key in _exact_cache:
        return _exact_cache[key]
    P = dict(Q=None if c["Q"] is None else frm(c["Q"]), c=frv(c["c"]), A=frm(c["A"]), b=frv(c["b"]), G=frm(c["G"]), h=frv(c["h"]))
    if c["wit"] is not None:
        xs, us, vs = (frv(v) for v in c["wit"])
        why = check_witness(P, xs, us, vs)
        info = ("bad-witness", why) if why else ("optimal", xs, xobj(P["Q"], P["c"], xs))
    else:
        if P["Q"] is not None and not is_psd_exact(P["Q"]):
            info = ("bad-witness", "Q not PSD")
        else:
            hint = None
            if hint_x is not None:
                s = [g - hh for g, hh in zip(xmv(P["G"], hint_x), P["h"])]
                hint = [i for i, t in enumerate(s) if abs(t) <= Fraction(1, 10 ** 6)]
            info = solve_exact(P, hint)
    if len(_exact_cache) > 20000:
        _exact_cache.clear()
    _exact_cache[key] = (info, P)
    return _exact_cache[key]


# ---------------------------------------------------------------------------------------------------------
# the property oracle

def parse_res(res):
    t = Toks(res)
    if t.s() != "ok":
        return None
    assert t.s() == "X"
    r = dict(status=t.int(), iters=t.int(), fx=t.f(), x=t.fs(), u=t.fs(), v=t.fs())
    assert t.s() == "K"
    r["kkt"] = t.f()
    assert t.s() == "N"
    r["mufx"] = t.f(); r["p"] = t.int()
    Qn = t.fs(); cn = t.fs(); An = t.fs(); bn = t.fs(); Gn = t.fs(); hn = t.fs()
    n = len(cn)
    r["norm"] = dict(Q=None if not Qn else chunk(Qn, n, n), c=cn, A=chunk(An, n, len(bn)), b=bn, G=chunk(Gn, n, len(hn)), h=hn)
    r["started"] = None
    if not t.done() and t.t[t.i] == "B":
        t.s(); r["started"] = t.int()
    r["rest"] = t.rest()
    return r


def key_of(rkind, clause):
    return clause if rkind == "none" else f"restatement:{rkind}:{clause}"


# run-time monitors of the oracle contracts of the model (Props/C04.lean: newton_solution_is_newton_direction,
# reduce_contract_same_solutions, default_start_strictly_feasible), evaluated on every call whatever the status

NEWTON_TOL = 1e-5      # |K z - r|_i <= NEWTON_TOL x (sum of the magnitudes of the terms of row i) ...
NEWTON_KAPPA = 1e4     # ... on iterations whose slacks G x - h are known to 1/NEWTON_KAPPA relative accuracy
MON_STATS = collections.Counter()


def _sc(terms):
    return math.fsum(terms), math.fsum(abs(t) for t in terms)


def newton_rows(N, miu, x, u, v, dx, du, dv):
    """the three block rows of `r + J.Delta` at (x,u,v) for the step (dx,du,dv), each as (value, magnitude of the terms);
    first block in the eliminated form the solver hands to LDLT: (Q - G' diag(u/g) G) dx + A' dv + rdual + G'(rcent/g);
    plus kappa = max_i (|G||x| + |h|)_i / |g_i|"""
    Q, cc, A, b, G, h = N["Q"], N["c"], N["A"], N["b"], N["G"], N["h"]
    n, p, m = len(cc), len(b), len(h)
    g, gs = zip(*[_sc([G[i][k] * x[k] for k in range(n)] + [-h[i]]) for i in range(m)])
    kappa = max((gs[i] / abs(g[i]) if g[i] != 0 else math.inf) for i in range(m))
    if kappa == math.inf:
        return None, None, None, kappa, None, None
    eta_t = [-u[i] * g[i] for i in range(m)]
    eta, etas = _sc(eta_t)
    t = -eta / (miu * m); ts = etas / (miu * m)
    rc = [t - u[i] * g[i] for i in range(m)]
    rcs = [ts + abs(u[i] * g[i]) for i in range(m)]
    Gdx, Gdxs = zip(*[_sc([G[i][k] * dx[k] for k in range(n)]) for i in range(m)])
    top = []
    for j in range(n):
        terms = [cc[j]]
        if Q is not None:
            terms += [Q[j][k] * x[k] for k in range(n)] + [Q[j][k] * dx[k] for k in range(n)]
        terms += [A[i][j] * v[i] for i in range(p)] + [A[i][j] * dv[i] for i in range(p)]
        terms += [G[i][j] * u[i] for i in range(m)]
        val, sc = _sc(terms + [-G[i][j] * (u[i] / g[i]) * Gdx[i] for i in range(m)] + [G[i][j] * rc[i] / g[i] for i in range(m)])
        sc = math.fsum([abs(q) for q in terms] + [abs(G[i][j] * (u[i] / g[i])) * Gdxs[i] for i in range(m)]
                       + [abs(G[i][j] / g[i]) * rcs[i] for i in range(m)])
        top.append((val, sc))
    bot = [_sc([A[i][k] * x[k] for k in range(n)] + [-b[i]] + [A[i][k] * dx[k] for k in range(n)]) for i in range(p)]
    cen = [(rc[i] - u[i] * Gdx[i] - g[i] * du[i], rcs[i] + abs(u[i]) * Gdxs[i] + abs(g[i] * du[i])) for i in range(m)]
    dus = [(rc[i] - u[i] * Gdx[i]) / g[i] for i in range(m)]
    duss = [(rcs[i] + abs(u[i]) * Gdxs[i]) / abs(g[i]) for i in range(m)]
    return top, bot, cen, kappa, dus, duss


NEWTON_RCOND = 1e-6    # ... and whose system matrix has pivots within this ratio (complete pivoting, python floats)


def pivots_rcond(K):
    """min |pivot| / max |pivot| of Gaussian elimination with complete pivoting (python floats); 0 for a singular matrix"""
    K = [list(r) for r in K]
    N2 = len(K)
    if N2 == 0:
        return 1.0
    piv = []
    rows = list(range(N2)); cols = list(range(N2))
    for s_ in range(N2):
        best = max(((abs(K[r][c_]), r, c_) for r in rows for c_ in cols), default=(0.0, None, None))
        if best[0] == 0.0:
            return 0.0
        _, r, c_ = best
        piv.append(best[0])
        rows.remove(r); cols.remove(c_)
        for r2 in rows:
            f = K[r2][c_] / K[r][c_]
            if f != 0.0:
                for c2 in cols:
                    K[r2][c2] -= f * K[r][c2]
    return min(piv) / max(piv)


def diag_pivot_stability(K):
    """symmetric elimination with the pivot order of Eigen's LDLT (largest remaining |diagonal| first): returns
    (min |pivot| / max |pivot|, growth of the Schur complements relative to max |K|); (0, inf) when the remaining
    diagonal vanishes before the matrix is exhausted (LDLT stops there)"""
    K = [list(r) for r in K]
    R = list(range(len(K)))
    if not R:
        return 1.0, 1.0
    top = max(abs(t) for r in K for t in r)
    if top == 0.0:
        return 0.0, math.inf
    seen = top
    piv = []
    while R:
        i = max(R, key=lambda j: abs(K[j][j]))
        d = K[i][i]
        if d == 0.0:
            return 0.0, math.inf
        piv.append(abs(d))
        R.remove(i)
        for r in R:
            f = K[r][i] / d
            if f != 0.0:
                for c_ in R:
                    K[r][c_] -= f * K[i][c_]
                    seen = max(seen, abs(K[r][c_]))
    return min(piv) / max(piv), seen / top


NEWTON_GROWTH = 1e3


def kkt_rcond(N, x, u):
    """(1 when diagonal pivoting is stable on K = [[Q - G' diag(u/g) G, A'], [A, 0]] else 0, rcond of K under complete
    pivoting). Eigen's LDLT pivots on the diagonal only: with a singular or small H and p > 0 it stops at the zero block or
    divides by a tiny pivot although K is regular (its documented domain is semidefinite matrices), so the contract
    `K z = r` can only be expected of it when that elimination is stable on K and on H alone (H regular: the positive pivots
    come first, then the negative definite Schur complement; pivot ratio >= NEWTON_RCOND, growth <= NEWTON_GROWTH)."""
    Q, cc, A, b, G, h = N["Q"], N["c"], N["A"], N["b"], N["G"], N["h"]
    n, p, m = len(cc), len(b), len(h)
    g = [math.fsum([G[i][k] * x[k] for k in range(n)] + [-h[i]]) for i in range(m)]
    w = [u[i] / g[i] for i in range(m)]
    K = [[0.0] * (n + p) for _ in range(n + p)]
    for j in range(n):
        for k in range(n):
            K[j][k] = (Q[j][k] if Q is not None else 0.0) - math.fsum(G[i][j] * w[i] * G[i][k] for i in range(m))
        for i in range(p):
            K[j][n + i] = A[i][j]; K[n + i][j] = A[i][j]
    ratio, growth = diag_pivot_stability(K)
    ratioH, growthH = diag_pivot_stability([r[:n] for r in K[:n]])
    ok = ratio >= NEWTON_RCOND and growth <= NEWTON_GROWTH and ratioH >= NEWTON_RCOND and growthH <= NEWTON_GROWTH
    return (1.0 if ok else 0.0), pivots_rcond(K)


def relmax(rows):
    worst = 0.0
    for val, sc in rows:
        if val != val:
            return math.inf
        if val != 0:
            worst = max(worst, abs(val) / sc if sc > 0 else math.inf)
    return worst


def monitor_newton(c, r):
    N = r["norm"]; miu = c["par"]["miu"]
    recs = c["recs"]
    for k in range(len(recs) - 1):
        if recs[k][0] != "I" or recs[k + 1][0] != "S":
            continue
        _, x, u, v = recs[k]; _, dx, du, dv = recs[k + 1]
        if not all(math.isfinite(t) for t in x + u + v + dx + du + dv):
            continue
        top, bot, cen, kappa, _, _ = newton_rows(N, miu, x, u, v, dx, du, dv)
        MON_STATS["newton-steps"] += 1
        if not kappa <= NEWTON_KAPPA:
            MON_STATS["newton-steps-near-boundary"] += 1
            continue
        rcH, rcK = kkt_rcond(N, x, u)
        if not (rcH >= NEWTON_RCOND and rcK >= NEWTON_RCOND):
            MON_STATS["newton-steps-ill-conditioned"] += 1
            if rcK >= NEWTON_RCOND and max(relmax(top), relmax(bot)) > NEWTON_TOL:
                MON_STATS["newton-contract-missed-by-ldlt:singular-H-regular-K"] += 1
            continue
        MON_STATS["newton-steps-checked"] += 1
        # LDLT is backward stable normwise, not row by row: the (dx, dv) blocks are measured against the largest row
        big = max(sc for _, sc in top + bot)
        for name, rows in (("dual", [(val, big) for val, _ in top]), ("primal", [(val, big) for val, _ in bot]), ("central", cen)):
            w = relmax(rows)
            if w > NEWTON_TOL:
                return (f"[newton-contract:{name}] iteration {k}: the logged step does not solve the {name} block of the linearised "
                        f"KKT system r + J.d = 0 (relative residual {w:.3e} > {NEWTON_TOL:.0e}, kappa {kappa:.2e})")
    return None


def exact_rank(rows):
    M = [list(rw) for rw in rows]
    rank = 0
    ncol = len(M[0]) if M else 0
    for col in range(ncol):
        piv = next((i for i in range(rank, len(M)) if M[i][col] != 0), None)
        if piv is None:
            continue
        M[rank], M[piv] = M[piv], M[rank]
        for i in range(rank + 1, len(M)):
            if M[i][col] != 0:
                f = M[i][col] / M[rank][col]
                M[i] = [a - f * bb for a, bb in zip(M[i], M[rank])]
        rank += 1
    return rank


def span_residual(basis_rows, rows):
    """max over `rows` of |row - projection on span(basis_rows)| / |row| (floats, modified Gram-Schmidt, twice)"""
    B = []
    for rw in basis_rows:
        w = list(rw); nw = math.sqrt(math.fsum(t * t for t in w))
        if nw == 0:
            continue
        for _ in range(2):
            for q in B:
                d = math.fsum(a * bb for a, bb in zip(w, q))
                w = [a - d * bb for a, bb in zip(w, q)]
        n2 = math.sqrt(math.fsum(t * t for t in w))
        if n2 > 1e-9 * nw:
            B.append([t / n2 for t in w])
    worst = 0.0
    for rw in rows:
        w = list(rw); nw = math.sqrt(math.fsum(t * t for t in w))
        if nw == 0:
            continue
        for _ in range(2):
            for q in B:
                d = math.fsum(a * bb for a, bb in zip(w, q))
                w = [a - d * bb for a, bb in zip(w, q)]
        worst = max(worst, math.sqrt(math.fsum(t * t for t in w)) / nw)
    return worst


REDUCE_TOL = 1e-9


def monitor_reduce(c, r):
    S = c["stated"]
    if not S["b"]:
        return None
    MON_STATS["reduce-calls"] += 1
    aug_rows = [list(a) + [bb] for a, bb in zip(S["A"], S["b"])]
    rank = exact_rank([frv(rw) for rw in aug_rows])
    if r["p"] != rank:
        return (f"[reduce-contract:rank] reduce kept {r['p']} of {len(aug_rows)} equality rows but the exact rank of [A|b] is {rank}")
    if c["red"] is None:
        return None
    MON_STATS["reduce-calls-reducing"] += 1
    red_rows = [list(a) + [bb] for a, bb in zip(*c["red"])]
    w1 = span_residual(aug_rows, red_rows)
    if w1 > REDUCE_TOL:
        return f"[reduce-contract:rows] a returned row is not in the row space of [A|b] (relative residual {w1:.3e})"
    w2 = span_residual(red_rows, aug_rows)
    if w2 > REDUCE_TOL:
        return f"[reduce-contract:dropped] a row of [A|b] is not in the span of the returned rows (relative residual {w2:.3e})"
    return None


def monitor_start(c, r):
    S = c["stated"]
    if not S["h"] or c["x0mode"] != 0:
        return None
    x0 = S["x0"]
    MON_STATS["default-starts"] += 1
    if not any(x0):
        return None
    MON_STATS["default-starts-found"] += 1
    # the code accepts the point on the FLOAT value of `(G x0 - h).maxCoeff() < 0`: a row counts as violated when its exact value
    # is >= 0 and the float evaluation is exact in any summation order (all terms and partial sums are integers below 2^53 in
    # units of the common power-of-two denominator), or when it exceeds 1e-12 x the magnitude of its terms
    G = frm(S["G"]); xq = frv(x0); hq = frv(S["h"])
    for row, hh in zip(G, hq):
        terms = [a * t for a, t in zip(row, xq)] + [-hh]
        val = sum(terms, Fraction(0))
        if val < 0:
            continue
        mag = sum((abs(t) for t in terms), Fraction(0))
        den = 1
        for t in terms:
            den = max(den, t.denominator)
        exact_in_float = mag * den < 2 ** 53
        if exact_in_float or val > Fraction(1, 10 ** 12) * mag:
            return f"[default-start] make_strictly_feasible returned a point with a row of G x0 - h = {float(val):.3e} >= 0"
    return None


def monitors(c, r):
    return monitor_reduce(c, r) or monitor_start(c, r) or monitor_newton(c, r)


def oracle(aug, res):
    c = parse(aug, want_trace=False)
    r = parse_res(res)
    if r is None:
        return f"[{key_of(c['rkind'], 'throw')}] the solver threw on a well-formed program: {res[:60]}"
    c = parse(aug)
    why = monitors(c, r)
    if why:
        return why
    if STATUS.get(r["status"]) != "converged":
        return None
    rk = c["rkind"]
    if not all(math.isfinite(v) for v in r["x"] + r["u"] + r["v"] + [r["fx"]]):
        return f"[{key_of(rk, 'nonfinite')}] converged with a non-finite state"
    x = frv(r["x"])
    hint_x = x
    if rk == "permvars":
        hint_x = [None] * len(x)
        for j, k in enumerate(c["ri"]):
            hint_x[k] = x[j]
    info, P = exact_info(c, hint_x)
    if info[0] == "bad-witness":
        return f"[bad-witness] the generator's certificate does not check: {info[1]}"
    Pr, perm, kappa = restate_exact(P, rk, c["ri"], c["rf"])
    S = c["stated"]
    Ps = dict(Q=None if S["Q"] is None else frm(S["Q"]), c=frv(S["c"]), A=frm(S["A"]), b=frv(S["b"]), G=frm(S["G"]), h=frv(S["h"]))
    if Ps != Pr:
        return f"[harness-restatement] the program stated by the harness is not the exact restatement {rk}"
    if info[0] == "infeasible":
        return f"[{key_of(rk, 'converged-on-infeasible')}] converged on an infeasible program"
    if info[0] == "unbounded":
        return f"[{key_of(rk, 'converged-on-unbounded')}] converged on an unbounded program"
    xs, fs = info[1], info[2] * kappa
    if perm is not None:
        xs = [xs[j] for j in perm]
    # (1) equalities, (2) inequalities of the program as stated. With the default parameters: the margins of the statement.
    # With a non-default epsilon the residual test no longer implies them; what is left is `program_t::feasible`
    # (1e-8 on the rows normalised by max(1e-3, |A|_F, |b|_2)), i.e. with the 100x allowance 1e-6 (1 + |b|_inf + |A|_F).
    default = not c["pars"] or [float(t) for t in c["pars"][:6]] == [0.999, 10.0, 1e-2, 0.9, 1e-10, 1e-16]   # only the budgets differ
    eps = 1e-10 if default else c["pars"][4]
    fro = lambda M: math.sqrt(sum(float(t) ** 2 for rr in M for t in rr))
    if Ps["b"]:
        dev = max(abs(a - bb) for a, bb in zip(xmv(Ps["A"], x), Ps["b"]))
        lim = 1e-6 * (1 + max(abs(float(t)) for t in Ps["b"]) + (0.0 if default else fro(Ps["A"])))
        if dev > lim:
            return (f"[{key_of(rk, 'feas-eq')}] converged with |Ax-b|_inf = {float(dev):.3e} > {lim:.3e} "
                    f"(|x|_inf = {max(abs(t) for t in r['x']):.3e})")
    if Ps["h"]:
        dev = max(a - hh for a, hh in zip(xmv(Ps["G"], x), Ps["h"]))
        lim = 1e-6 * (1 + max(abs(float(t)) for t in Ps["h"]) + (0.0 if default else fro(Ps["G"])))
        if dev > lim:
            return (f"[{key_of(rk, 'feas-ineq')}] converged with max(Gx-h) = {float(dev):.3e} > {lim:.3e} "
                    f"(|x|_inf = {max(abs(t) for t in r['x']):.3e})")
    # (3) reported objective
    fx = xobj(Ps["Q"], Ps["c"], x)
    mag = sum(abs(a * b) for a, b in zip(Ps["c"], x))
    if Ps["Q"] is not None:
        mag += sum(abs(Ps["Q"][i][j] * x[i] * x[j]) for i in range(len(x)) for j in range(len(x))) / 2
    if abs(fr(r["fx"]) - fx) > Fraction(1, 10 ** 6) * mag:
        return (f"[{key_of(rk, 'reported-fx')}] reported fx = {r['fx']!r} but f(x) = {float(fx)!r} "
                f"(magnitude of the terms {float(mag):.3e})")
    # (4) optimality
    M = max(1e-3, math.sqrt(sum(float(q) ** 2 for rr in (Ps["Q"] or []) for q in rr)), math.sqrt(sum(float(t) ** 2 for t in Ps["c"])))
    dist = math.sqrt(sum(float(a - b) ** 2 for a, b in zip(x, xs)))
    bound = 100 * eps * M * (1 + dist + sum(abs(t) for t in r["u"]) + sum(abs(t) for t in r["v"]))  # 1e-8 M (..) by default
    if abs(float(fx - fs)) > bound:
        return (f"[{key_of(rk, 'gap-bound')}] converged with f(x) - f* = {float(fx - fs):.6e} (f* = {float(fs)!r}), "
                f"allowed {bound:.3e} (M = {M:.3e}, |x-x*| = {dist:.3e})")
    return None


# ---------------------------------------------------------------------------------------------------------
# the comparator of the correspondence (model line vs implementation line, with the trace of the aug line)

class Rd:
    def __init__(self, toks):
        self.t = toks; self.i = 0
    def s(self):
        v = self.t[self.i]; self.i += 1; return v
    def int(self):
        return int(self.s())
    def f(self):
        return h2f(self.s())
    def of(self):
        w = self.s()
        return None if w == "none" else h2f(w)
    def fs(self):
        n = self.int(); return [self.f() for _ in range(n)]
    def done(self):
        return self.i >= len(self.t)


def near(a, b, rtol, atol):
    if a != a or b != b:
        return (a != a) and (b != b)
    if a == b:
        return True
    if math.isinf(a) or math.isinf(b):
        return False
    return abs(a - b) <= atol + rtol * max(abs(a), abs(b))


def vnear(a, b, rtol, atol):
    return len(a) == len(b) and all(near(x, y, rtol, atol) for x, y in zip(a, b))


def ninf(v):
    return max([abs(t) for t in v], default=0.0)


CMP_STATS = collections.Counter()   # how many decisions were compared / skipped for a rounding-level margin


def compare_why(aug, impl, model):
    """None when the model reproduces every logged number and decision; otherwise the first disagreement"""
    CMP_STATS["ops"] += 1
    if not impl.startswith("ok "):
        return None if impl == model else "implementation did not answer ok"
    if not model.startswith("ok "):
        return "model: " + model[:40]
    c = parse(aug)
    n = c["n"]; par = c["par"]
    a = Rd(impl.split()); b = Rd(model.split())
    a.s(); b.s()
    assert a.s() == "X"
    X = dict(status=a.int(), iters=a.int(), fx=a.f(), x=a.fs(), u=a.fs(), v=a.fs())
    assert a.s() == "K"
    X["kkt"] = a.f()
    any_unc = False      # some decision of the run was too close to call: the whole-run model may legitimately differ
    # N
    if a.s() != "N" or b.s() != "N":
        return "no N record"
    mufx_i, mufx_m = a.f(), b.f()
    if not near(mufx_i, mufx_m, 1e-11, 0):
        return f"mufx {mufx_i!r} vs {mufx_m!r}"
    p_i, p_m = a.int(), b.int()
    if p_i != p_m:
        return "number of reduced equalities"
    Nf = {}
    for name in ["Q", "c", "A", "b", "G", "h"]:
        Nf[name] = a.fs()
        if not vnear(Nf[name], b.fs(), 1e-11, 1e-14):
            return "normalised " + name
    Nn = dict(Q=None if not Nf["Q"] else chunk(Nf["Q"], n, n), c=Nf["c"], A=chunk(Nf["A"], n, len(Nf["b"])), b=Nf["b"],
              G=chunk(Nf["G"], n, len(Nf["h"])), h=Nf["h"])
    p = p_i; m = len(c["stated"]["h"])
    th = DULP * (n + p + m + 3)   # the driver prints margins relative to the magnitude of the terms behind both sides
    uncertain = False
    recs = list(c["recs"])
    if m > 0:
        if a.s() != "B" or b.s() != "B":
            return "no B record"
        st_i, st_m, mg = a.int(), b.int(), b.f()
        x0 = c["stated"]["x0"]
        if st_i != st_m:
            if mg > th:
                return f"start decision: impl {st_i} model {st_m} margin {mg:.3e}"
            return None
        if mg <= th:
            any_unc = True
    k = 0            # index into recs
    cur = None       # (x, u, v) of the current iteration
    while True:
        ta, tb = a.s(), b.s()
        if tb == "L":
            # the whole run of the model (solveIneq / solveNoineq driven by the logged Newton answers) against the returned state
            L = dict(status=b.int(), iters=b.int(), fx=b.f(), kkt=b.f(), x=b.fs(), u=b.fs(), v=b.fs(), div=b.int())
            tb = b.s()
            CMP_STATS["whole-run"] += 1
            if any_unc or uncertain:
                CMP_STATS["whole-run-skipped"] += 1
            else:
                why = compare_run(X, L, n, p, m, mufx_i)
                if why:
                    return why
        if ta != tb:
            return f"record {ta} vs {tb}"
        if ta == "E":
            si, sm = a.int(), b.int()
            CMP_STATS["final-status"] += 1
            if uncertain:
                CMP_STATS["final-status-skipped"] += 1
            elif si != sm:
                return f"final status impl {STATUS.get(si)} model {STATUS.get(sm)}"
            return None
        if ta == "U":
            ui, um = a.fs(), b.fs()
            x0 = c["stated"]["x0"]
            if len(ui) != len(um):
                return "u0 size"
            for s, t in zip(ui, um):
                if not near(s, t, RTOL + FLOOR * (n * ninf(x0) + 1) * abs(s), 0):
                    return f"u0 {s!r} vs {t!r}"
            continue
        rec = recs[k]; k += 1
        if rec[0] != ta:
            return f"trace record {rec[0]} vs result record {ta}"
        if ta == "I":
            _, x, u, v = rec
            cur = (x, u, v)
            uncertain = False     # every iteration is re-seeded from the logged (x, u, v)
            nx, nu, nv = ninf(x), ninf(u), ninf(v)
            sx = n * nx + 1
            if a.int() != b.int():
                return "iteration index"
            if not near(a.f(), b.f(), RTOL, FLOOR * (abs(mufx_i) * (n * n * nx * nx + n * nx) + 1e-300)):
                return f"fx at iteration {k}"
            if not near(a.f(), b.f(), RTOL, FLOOR * m * nu * sx):
                return f"eta at iteration {k}"
            if not vnear(a.fs(), b.fs(), RTOL, FLOOR * (sx + p * nv + m * nu)):
                return f"rdual at iteration {k}"
            if not vnear(a.fs(), b.fs(), RTOL, FLOOR * sx):
                return f"rprim at iteration {k}"
            if not vnear(a.fs(), b.fs(), RTOL, FLOOR * nu * sx * (1 + 1 / par["miu"])):
                return f"rcent at iteration {k}"
        elif ta == "S":
            _, dx, du, dv = rec
            x, u, v = cur
            s1_i = a.f()
            smax = b.f(); s1_m = b.of(); mg1 = b.f(); s2_m = b.of(); mg2 = b.f(); kind_m = b.int(); mgk = b.f()
            if b.s() != "W":
                return "no W record"
            wres = b.fs(); du_m = b.fs(); r3_m = b.fs(); b.int()
            why = compare_newton(Nn, par["miu"], x, u, v, dx, du, dv, wres, du_m, r3_m)
            if why:
                return why
            sx = n * (ninf(x) + abs(s1_i) * ninf(dx)) + 1
            CMP_STATS["stage1"] += 1
            if mg1 <= th:
                uncertain = True; any_unc = True; CMP_STATS["stage1-skipped"] += 1
            elif s1_m is None or not near(s1_i, s1_m, 1e-12, 0):
                return f"stage 1: impl s = {s1_i!r}, model {s1_m!r} (smax {smax!r}, margin {mg1:.3e})"
            # what the implementation did next
            nxt = recs[k] if k < len(recs) else None
            moved = None
            if nxt is not None:
                moved = nxt[1] != x or nxt[2] != u or nxt[3] != v
            CMP_STATS["stage2"] += 1
            if mg2 <= th or uncertain:
                uncertain = True; any_unc = True; CMP_STATS["stage2-skipped"] += 1
                continue
            if nxt is None:
                # loop left without a record: failed (non-finite) or max_iters; decided at E
                continue
            if (s2_m is not None) != moved:
                return f"stage 2: model step {s2_m!r}, implementation {'moved' if moved else 'did not move'} (margin {mg2:.3e})"
            if moved:
                for (w, d, wn, nm) in [(x, dx, nxt[1], "x"), (u, du, nxt[2], "u"), (v, dv, nxt[3], "v")]:
                    for wi, di, wni in zip(w, d, wn):
                        if not near(wi + s2_m * di, wni, 1e-12, 1e-300):
                            return f"stage 2: next {nm} is not {nm} + s2 d{nm} with the model's s2 = {s2_m!r}"
                kind_i = 0 if nxt[0] == "I" else 1
                CMP_STATS["eps0"] += 1
                if mgk <= th:
                    uncertain = True; any_unc = True; CMP_STATS["eps0-skipped"] += 1
                elif kind_i != kind_m:
                    return f"epsilon0 test: impl {'stops' if kind_i else 'continues'}, model kind {kind_m} (margin {mgk:.3e})"
        elif ta == "D":
            _, x, u, v = rec
            nx, nu, nv = ninf(x), ninf(u), ninf(v)
            sx = n * nx + 1
            feas_i = a.int(); eta_i = a.f(); rd_i = a.f(); rp_i = a.f(); fx_i = a.f()
            feas_m = b.int(); mgf = b.f(); eta_m = b.f(); rd_m = b.f(); rp_m = b.f(); fx_m = b.f(); st_m = b.int(); mgs = b.f()
            CMP_STATS["done"] += 1
            uncertain = False     # `done` is a function of the logged point alone (whatever path led to it)
            if mgf <= th:
                uncertain = True; any_unc = True; CMP_STATS["done-skipped"] += 1
                continue
            if feas_i != feas_m:
                return f"feasible flag impl {feas_i} model {feas_m} (margin {mgf:.3e})"
            if not near(eta_i, eta_m, RTOL, FLOOR * m * nu * sx):
                return "eta at done"
            if not near(rd_i, rd_m, RTOL, FLOOR * math.sqrt(n) * (sx + p * nv + m * nu)):
                return "|rdual| at done"
            if not near(rp_i, rp_m, RTOL, FLOOR * math.sqrt(p + 1) * sx):
                return "|rprim| at done"
            if not near(fx_i, fx_m, RTOL, FLOOR * (abs(mufx_i) * (n * n * nx * nx + n * nx) + 1e-300)):
                return "fx at done"
            if mgs <= th:
                uncertain = True; any_unc = True; CMP_STATS["status-skipped"] += 1
        elif ta == "Z":
            _, x, v = rec
            nx, nv = ninf(x), ninf(v)
            sx = n * nx + 1
            va_i = a.int(); ap_i = a.int(); fx_i = a.f(); rd_i = a.fs(); rp_i = a.fs()
            va_m = b.int(); ap_m = b.int(); mga = b.f(); fx_m = b.f(); rd_m = b.fs(); rp_m = b.fs(); b.int()
            if va_i != va_m:
                return "noineq: valid"
            if not near(fx_i, fx_m, RTOL, FLOOR * (abs(mufx_i) * (n * n * nx * nx + n * nx) + 1e-300)):
                return "noineq: fx"
            if not vnear(rd_i, rd_m, RTOL, FLOOR * (sx + p * nv)):
                return "noineq: rdual"
            if not vnear(rp_i, rp_m, RTOL, FLOOR * sx):
                return "noineq: rprim"
            if mga <= th:
                uncertain = True; any_unc = True
            elif ap_i != ap_m:
                return f"noineq: isApprox impl {ap_i} model {ap_m} (margin {mga:.3e})"
        else:
            return "unknown record " + ta


def compare_newton(N, miu, x, u, v, dx, du, dv, wres, du_m, r3_m):
    """the model's system `kktMat . (dx, dv) - kktVec`, its `du` and the linearised centrality residual against an independent
    evaluation of the same quantities (and `du` against the logged one, solver.cpp:299)"""
    if not all(math.isfinite(t) for t in x + u + v + dx + du + dv):
        return None
    top, bot, cen, kappa, dus, duss = newton_rows(N, miu, x, u, v, dx, du, dv)
    CMP_STATS["newton"] += 1
    if not kappa <= 1e8:
        CMP_STATS["newton-skipped"] += 1
        return None
    tol = 1e-9 + 1e-14 * kappa
    rows = top + bot
    if len(wres) != len(rows) or len(du_m) != len(du) or len(r3_m) != len(cen):
        return "newton: sizes"
    for i, ((val, sc), w) in enumerate(zip(rows, wres)):
        if not abs(val - w) <= tol * sc:
            return f"newton: row {i} of the model's system residual {w!r} vs {val!r} (terms {sc:.3e}, kappa {kappa:.2e})"
    for i, (dm, di, sc) in enumerate(zip(du_m, du, duss)):
        if not abs(dm - di) <= tol * sc:
            return f"newton: du[{i}] model {dm!r} logged {di!r} (terms {sc:.3e}, kappa {kappa:.2e})"
    for i, ((val, sc), w) in enumerate(zip(cen, r3_m)):
        if not abs(val - w) <= tol * sc:
            return f"newton: centrality row {i} {w!r} vs {val!r}"
    return None


def compare_run(X, L, n, p, m, mufx):
    if X["status"] != L["status"]:
        return f"whole run: status impl {STATUS.get(X['status'])} model {STATUS.get(L['status'])}"
    if X["iters"] != L["iters"]:
        return f"whole run: iterations impl {X['iters']} model {L['iters']}"
    nx, nu, nv = ninf(X["x"]), ninf(X["u"]), ninf(X["v"])
    if nx != nx or nu != nu or nv != nv:
        nx = nu = nv = 0.0
    for nm, sc in (("x", nx), ("u", nu), ("v", nv)):
        if not vnear(X[nm], L[nm], 1e-7, 1e-10 * sc):
            return f"whole run: returned {nm}"
    sx = n * nx + 1
    if not near(X["fx"], L["fx"], 1e-7, 1e-10 * (abs(mufx) * (n * n * nx * nx + n * nx) + 1e-300)):
        return f"whole run: fx impl {X['fx']!r} model {L['fx']!r}"
    if not near(X["kkt"], L["kkt"], 1e-7, 1e-10 * (1 + nu) * (sx + p * nv + m * nu)):
        return f"whole run: m_kkt impl {X['kkt']!r} model {L['kkt']!r}"
    return None


def compare(aug, impl, model):
    try:
        why = compare_why(aug, impl, model)
    except Exception as ex:
        why = f"comparator exception {ex!r}"
    if why and os.environ.get("C04_DEBUG"):
        vlib.log("C04 corr:", why, "::", aug[:120])
    return why is None


# ---------------------------------------------------------------------------------------------------------
# generator (all randomness from rng; every datum is an exactly representable dyadic rational)

def exact_float(v):
    f = float(v)
    if Fraction(f) != v:
        raise OverflowError("not representable")
    return f


def rnd_frac(rng, lo, hi, den):
    return Fraction(rng.range(lo, hi), den)


def gen_kkt_case(rng, nmax=12):
    for _ in range(50):
        try:
            return _gen_kkt_case(rng, nmax)
        except OverflowError:
            continue
    raise RuntimeError("cannot generate an exactly representable KKT program")


def _gen_kkt_case(rng, nmax):
    n = rng.range(1, nmax); p = rng.range(0, n - 1); m = rng.range(1, 2 * n + 2)
    lp = rng.chance(0.5)
    slater = rng.chance(0.75)
    two = lambda e: Fraction(2) ** e
    ex = rng.range(-7, 7) if rng.chance(0.6) else 0
    eg = rng.range(-7, 7) if rng.chance(0.5) else 0
    ea = rng.range(-7, 7) if rng.chance(0.4) else 0
    eq = rng.range(-7, 7) if rng.chance(0.5) else 0
    mixed = rng.chance(0.3)
    xs = [rnd_frac(rng, -24, 24, 8) * two(ex) for _ in range(n)]
    d = [Fraction(rng.range(-2, 2)) for _ in range(n)]
    d[rng.below(n)] = Fraction(rng.choice([-1, 1]))
    ones = [j for j in range(n) if abs(d[j]) == 1]
    A = []
    while len(A) < p:
        a = [rnd_frac(rng, -16, 16, 8) for _ in range(n)]
        if slater:
            j = rng.choice(ones)
            a[j] -= xdot(a, d) * d[j]
        if all(t == 0 for t in a):
            continue
        sc = two(ea + (rng.range(-3, 3) if mixed else 0))
        A.append([t * sc for t in a])
    b = xmv(A, xs)
    mode = rng.choice(["half", "half", "few", "many", "vertex"])
    if mode == "half":
        act = [rng.chance(0.5) for _ in range(m)]
    elif mode == "few":
        act = [False] * m
        for _ in range(rng.range(1, 2)):
            act[rng.below(m)] = True
    elif mode == "many":
        act = [rng.chance(0.85) for _ in range(m)]
    else:
        idx = rng.shuffle(range(m))[:max(0, min(m, n - p))]
        act = [i in idx for i in range(m)]
    G, h, us = [], [], []
    for i in range(m):
        while True:
            g = [rnd_frac(rng, -16, 16, 8) for _ in range(n)]
            if all(t == 0 for t in g):
                continue
            if slater and act[i]:
                t = xdot(g, d)
                if t == 0:
                    continue
                if t > 0:
                    g = [-q for q in g]
            break
        sc = two(eg + (rng.range(-3, 3) if mixed else 0))
        g = [t * sc for t in g]
        G.append(g)
        if act[i]:
            h.append(xdot(g, xs))
            us.append(Fraction(0) if rng.chance(0.1) else rnd_frac(rng, 1, 16, 8))
        else:
            h.append(xdot(g, xs) + rnd_frac(rng, 1, 16, 8) * sc * two(ex))
            us.append(Fraction(0))
    vs = [rnd_frac(rng, -16, 16, 8) for _ in range(p)]
    Q = None
    if not lp:
        r = rng.range(1, n)
        D = [[rnd_frac(rng, -8, 8, 4) for _ in range(n)] for _ in range(r)]
        Q = [[sum((D[k][i] * D[k][j] for k in range(r)), Fraction(0)) * two(eq) for j in range(n)] for i in range(n)]
    grad = [(xdot(Q[j], xs) if Q is not None else 0) + a + g for j, (a, g) in enumerate(zip(xtmv(A, vs, n), xtmv(G, us, n)))]
    cc = [-t for t in grad]
    x0mode, x0 = 0, None
    if slater and rng.chance(0.4):
        t = two(ex)
        for _ in range(60):
            x0 = [a + t * dd for a, dd in zip(xs, d)]
            if all(g < hh for g, hh in zip(xmv(G, x0), h)):
                break
            t /= 2
        else:
            x0 = None
        if x0 is not None:
            x0mode = 1
    ef = lambda v: [exact_float(t) for t in v]
    return dict(n=n, Q=None if Q is None else [ef(r) for r in Q], c=ef(cc), A=[ef(r) for r in A], b=ef(b), G=[ef(r) for r in G],
                h=ef(h), x0mode=x0mode, x0=ef(x0) if x0mode else None, wit=[ef(xs), ef(us), ef(vs)], src="kkt")


def gen_int_case(rng):
    n = rng.range(1, 3)
    p = rng.choice([0, 0, 1, 1, 2]) if n > 1 else rng.choice([0, 0, 0, 1])
    m = rng.choice([0, 1, 2, 3, 3, 4, 4, 5, 6])
    lp = rng.chance(0.5)
    A = [[float(rng.range(-3, 3)) for _ in range(n)] for _ in range(p)]
    G = [[float(rng.range(-3, 3)) for _ in range(n)] for _ in range(m)]
    if rng.chance(0.65):
        z = [float(rng.range(-2, 2)) for _ in range(n)]
        b = [sum(a * t for a, t in zip(r, z)) for r in A]
        h = [sum(a * t for a, t in zip(r, z)) + float(rng.range(0, 3)) for r in G]
    else:
        z = [0.0] * n
        b = [float(rng.range(-4, 4)) for _ in range(p)]
        h = [float(rng.range(-4, 4)) for _ in range(m)]
    Q = None
    if not lp:
        r = rng.range(1, n)
        D = [[rng.range(-2, 2) for _ in range(n)] for _ in range(r)]
        Q = [[float(sum(D[k][i] * D[k][j] for k in range(r))) for j in range(n)] for i in range(n)]
    cc = [float(rng.range(-3, 3)) for _ in range(n)]
    x0mode, x0 = 0, None
    if m > 0 and rng.chance(0.25):
        x0mode = 1
        x0 = [t + rng.range(-2, 2) / 2.0 for t in z]
    return dict(n=n, Q=Q, c=cc, A=A, b=b, G=G, h=h, x0mode=x0mode, x0=x0, wit=None, src="int")


def gen_overdetermined_case(rng):
    """more equality rows than variables: n independent rows that pin a point z, plus 1..2 further rows that are either
    consistent with z (the program is feasible, duplicated / combined information) or off by an integer (rank [A|b] = n + 1:
    the program is INFEASIBLE although every n-row subsystem is solvable); inequalities are slack at z"""
    n = rng.range(1, 3)
    while True:
        A = [[float(rng.range(-3, 3)) for _ in range(n)] for _ in range(n)]
        det = (A[0][0] if n == 1 else A[0][0] * A[1][1] - A[0][1] * A[1][0] if n == 2 else
               A[0][0] * (A[1][1] * A[2][2] - A[1][2] * A[2][1]) - A[0][1] * (A[1][0] * A[2][2] - A[1][2] * A[2][0])
               + A[0][2] * (A[1][0] * A[2][1] - A[1][1] * A[2][0]))
        if det != 0:
            break
    z = [float(rng.range(-2, 2)) for _ in range(n)]
    for _ in range(rng.range(1, 2)):
        row = [float(rng.range(-3, 3)) for _ in range(n)]
        if not any(row):
            row[rng.below(n)] = 1.0
        A.append(row)
    b = [sum(a * t for a, t in zip(r, z)) for r in A]
    if rng.chance(0.7):
        b[-1] += float(rng.choice([-3, -2, -1, 1, 2, 3]))          # inconsistent
    order = rng.shuffle(list(range(len(A))))
    A = [A[i] for i in order]; b = [b[i] for i in order]
    m = rng.choice([0, 0, 1, 2, 3])
    G = [[float(rng.range(-3, 3)) for _ in range(n)] for _ in range(m)]
    h = [sum(a * t for a, t in zip(r, z)) + float(rng.range(1, 3)) for r in G]
    Q = None
    if rng.chance(0.5):
        D = [[rng.range(-2, 2) for _ in range(n)] for _ in range(rng.range(1, n))]
        Q = [[float(sum(D[k][i] * D[k][j] for k in range(len(D)))) for j in range(n)] for i in range(n)]
    cc = [float(rng.range(-3, 3)) for _ in range(n)]
    x0mode, x0 = 0, None
    if m > 0 and rng.chance(0.3):
        x0mode, x0 = 1, list(z)
    return dict(n=n, Q=Q, c=cc, A=A, b=b, G=G, h=h, x0mode=x0mode, x0=x0, wit=None, src="int")


def exhaustive_1d():
    vals = [-1.0, 0.0, 1.0]
    for q in (None, 1.0):
        for cc in vals:
            for mm in (1, 2):
                for gh in itertools.product(itertools.product(vals, vals), repeat=mm):
                    yield dict(n=1, Q=None if q is None else [[q]], c=[cc], A=[], b=[], G=[[g] for g, _ in gh],
                               h=[hh for _, hh in gh], x0mode=0, x0=None, wit=None, src="exh")


def pow2(rng, lo, hi):
    return 2.0 ** rng.range(lo, hi)


def restatement(rng, case, kind):
    n, p, m = case["n"], len(case["b"]), len(case["h"])
    if kind == "none":
        return [], []
    if kind == "dupeq":
        return ([rng.below(p)], []) if p >= 1 else None
    if kind == "combeq":
        if p < 1:
            return None
        while True:
            t = [float(rng.range(-2, 2)) for _ in range(p)]
            if any(t):
                return [], t
    if kind == "mixeq":
        if p < 2:
            return None
        T = [[0.0] * p for _ in range(p)]
        for i in range(p):
            T[i][i] = rng.choice([1.0, -1.0, 2.0, 0.5, 3.0])
            for j in range(i):
                T[i][j] = float(rng.range(-2, 2))
        return [], [v for r in T for v in r]
    if kind == "scaleeq":
        return ([], [rng.choice([-1.0, 1.0]) * (rng.range(1, 32) / 4.0 if rng.chance(0.5) else pow2(rng, -6, 6)) for _ in range(p)]) if p >= 1 else None
    if kind == "scaleineq":
        return ([], [(rng.range(1, 64) / 4.0 if rng.chance(0.5) else pow2(rng, -6, 6)) for _ in range(m)]) if m >= 1 else None
    if kind == "scaleobj":
        return [], [rng.range(1, 64) / 4.0 if rng.chance(0.5) else pow2(rng, -10, 10)]
    if kind == "permvars":
        return (rng.shuffle(range(n)), []) if n >= 2 else None
    if kind == "permrows":
        return (rng.shuffle(range(p)) + rng.shuffle(range(m)), []) if (p >= 2 or m >= 2) else None
    raise ValueError(kind)


def rnd_pars(rng):
    """non-default solver parameters `s0 miu alpha beta epsilon epsilon0` (inside the domains solver_t registers)"""
    return [rng.choice([0.9, 0.99, 0.999]), rng.choice([2.0, 10.0, 100.0]), rng.choice([1e-4, 1e-2, 1e-1]),
            rng.choice([0.5, 0.9]), rng.choice([1e-3, 1e-3, 1e-6, 1e-8, 1e-10]), rng.choice([1e-16, 1e-12])]


def rnd_budget_pars(rng):
    """the default `s0 … epsilon0` followed by small iteration budgets `solver::max_iters` (domain [10, 1000]) and
    `solver::max_lsearch_iters`: runs that end because the budget is used up, a few iterations before / after the residual test
    would have been met (whatever the budget, `converged` has to mean what the statement says)"""
    return [0.999, 10.0, 1e-2, 0.9, 1e-10, 1e-16, float(rng.choice([10, 10, 11, 12, 13, 14, 16, 20, 1000])), float(rng.choice([10, 50, 50]))]


def with_restatements(rng, case, count):
    """the op lines of one base program: as stated + `count` applicable restatements (None = all)"""
    out = []
    if rng.chance(0.15):
        case = dict(case); case["pars"] = rnd_pars(rng)
    elif rng.chance(0.12):
        case = dict(case); case["pars"] = rnd_budget_pars(rng)
    # the equality restatements apply to fewer programs: try them first half of the time
    eqk = rng.shuffle(["dupeq", "combeq", "mixeq", "scaleeq"])
    oth = rng.shuffle(["scaleineq", "scaleobj", "permvars", "permrows"])
    kinds = (eqk + oth) if rng.chance(0.5) else rng.shuffle(eqk + oth)
    done = 0
    for kind in ["none"] + kinds:
        if count is not None and kind != "none" and done >= count:
            break
        r = restatement(rng, case, kind)
        if r is None:
            continue
        c = dict(case); c["rkind"] = kind; c["ri"], c["rf"] = r
        try:
            # the restated data must stay exactly representable (they do by construction; checked, not assumed)
            P = dict(Q=None if c["Q"] is None else frm(c["Q"]), c=frv(c["c"]), A=frm(c["A"]), b=frv(c["b"]), G=frm(c["G"]), h=frv(c["h"]))
            Pr, _, _ = restate_exact(P, kind, c["ri"], c["rf"])
            for v in [Pr["c"], Pr["b"], Pr["h"]] + Pr["A"] + Pr["G"] + (Pr["Q"] or []):
                for t in v:
                    exact_float(t)
        except OverflowError:
            continue
        out.append(fmt(c))
        if kind != "none":
            done += 1
    return out


def _corpus():
    cp = os.path.join(vlib.VERIF, "corpus", "C04", "ops.txt")
    if os.path.exists(cp):
        return [l.strip() for l in open(cp) if l.strip() and not l.startswith("#")]
    return []


def gen(rng, tier):
    ops = _corpus()
    quick = tier != "thorough"
    count = 2 if quick else None
    for case in exhaustive_1d():
        if quick and not rng.chance(0.5):
            continue
        case["rkind"], case["ri"], case["rf"] = "none", [], []
        ops.append(fmt(case))
        if not quick or rng.chance(0.1):
            ops += with_restatements(rng, case, 1 if quick else None)[1:]
    for _ in range(320 if quick else 1200):
        ops += with_restatements(rng, gen_int_case(rng), count)
    for _ in range(60 if quick else 300):
        ops += with_restatements(rng, gen_overdetermined_case(rng), 1 if quick else None)
    for _ in range(120 if quick else 400):
        ops += with_restatements(rng, gen_kkt_case(rng, 4), count)
    for _ in range(330 if quick else 1500):
        ops += with_restatements(rng, gen_kkt_case(rng, 12), count)
    return ops


# ---------------------------------------------------------------------------------------------------------
# regenerated fragment: `program_t::feasible` and the status decision of `solver_t::done` (Gen/ProgramDone.lean)

def translate():
    return c04_translate.translate()


# ---------------------------------------------------------------------------------------------------------
# bookkeeping

def nontrivial(op):
    c = parse(op, want_trace=False)
    if c["n"] < 2:
        return False
    m = len(c["h"])
    if c["wit"] is None:
        return m >= 2
    xs = frv(c["wit"][0])
    act = sum(1 for g, hh in zip(xmv(frm(c["G"]), xs), frv(c["h"])) if g == hh)
    return 0 < act < m


def distribution(ops):
    d = {}
    for op in ops:
        t = op.split()
        n = int(t[3]); m = int(t[5])
        src = "kkt" if " opt " in op else ("exh-1d" if n == 1 and m <= 2 and int(t[4]) == 0 else "int")
        rk = next((w for w in t if w in RKINDS), "?")
        for k in (f"kind/{t[2]}", f"source/{src}", f"restatement/{rk}", f"n/{n}", "ineq/none" if m == 0 else "ineq/some"):
            d[k] = d.get(k, 0) + 1
    # what the comparator and the run-time monitors actually did in this process (called after the run)
    for k, v in CMP_STATS.items():
        d["compared/" + k] = v
    for k, v in MON_STATS.items():
        d["monitor/" + k] = v
    return d


def stage2_failed_at_end(aug):
    """the trace ends `I x u v, S .., D x u v` with the same point: stage 2 ran out of trials and `done` was called on the
    state of the last trial point (solver.cpp:346-354)"""
    try:
        recs = parse(aug)["recs"]
    except Exception:
        return False
    return (len(recs) >= 3 and recs[-1][0] == "D" and recs[-2][0] == "S" and recs[-3][0] == "I"
            and recs[-1][1:] == recs[-3][1:])


def classify(op, kind, detail):
    if kind == "oracle" and detail.startswith("["):
        key = detail[1:detail.index("]")]
        if (key.endswith("feas-eq") or key.endswith("feas-ineq")) and "|x|_inf = " in detail:
            # one input class whatever the restatement: the iterate drifted to |x| >= 1e12 along a flat direction, where the
            # float residuals `A x - b`, `G x - h` of `program_t::feasible` / `done` are pure cancellation
            try:
                if float(detail.split("|x|_inf = ")[1].split(")")[0]) >= 1e12:
                    return "feasibility:huge-iterate-cancellation"
            except ValueError:
                pass
        if key.endswith("reported-fx") and stage2_failed_at_end(op):
            # one call site whatever the restatement: fx/eta/residuals of the last trial point are returned with the old x
            return "reported-fx:stage2-failed-trial-state"
        return key
    if kind == "corr":
        return "corr"
    return kind


def shrink_candidates(op):
    c = parse(op, want_trace=False)
    out = []
    if c["rkind"] != "none":
        d = dict(c); d["rkind"], d["ri"], d["rf"] = "none", [], []
        out.append(fmt(d))
    if c["x0mode"] == 1:
        d = dict(c); d["x0mode"], d["x0"] = 0, None
        out.append(fmt(d))
    if c["wit"] is None and c["rkind"] == "none":
        for i in range(len(c["h"])):
            d = dict(c); d["G"] = c["G"][:i] + c["G"][i + 1:]; d["h"] = c["h"][:i] + c["h"][i + 1:]
            out.append(fmt(d))
        for i in range(len(c["b"])):
            d = dict(c); d["A"] = c["A"][:i] + c["A"][i + 1:]; d["b"] = c["b"][:i] + c["b"][i + 1:]
            out.append(fmt(d))
    return out
