"""C19 — translator of the domain guards of src/parameter.cpp into Lean (Gen/ParamCheck.lean) and of the factory dump
into a Lean table (Gen/FactoryParams.lean). Imported by tools/props/c19.py (kept apart only for readability).

Accepted C++ subset (anything else raises vlib.Broken, i.e. the obligation counts as no longer checking):
  expressions:  c ? a : b, ||, &&, !, <= < >= >, parentheses, locals, `param.m_field`,
                std::holds_alternative<LE_t>(x), ::nano::isfinite(x), ::check(c, a, b), static_cast<tscalar>(x), std::move(x),
                std::find(D.begin(), D.end(), v) ==/!= D.end()
  statements:   const auto x = <expr>;   critical(<expr>, message…);   param.m_field = <expr>;   return param;
The functions are located by their signature (name + parameter types), never by line number.
"""
import os, re
import vlib
from vlib import Broken

SRC = "src/parameter.cpp"


def broken(msg):
    return Broken("translate:ParamCheck", msg)


def strip_comments_strings(s):
    s = re.sub(r"//[^\n]*", "", s)
    s = re.sub(r"/\*.*?\*/", "", s, flags=re.S)
    s = re.sub(r'"(?:[^"\\\n]|\\.)*"', '""', s)
    s = re.sub(r"'(?:[^'\\\n]|\\.)'", "' '", s)
    return s


def function_body(src, sig_re, what):
    ms = list(re.finditer(sig_re, src))
    if len(ms) != 1:
        raise broken(f"{what}: expected exactly one definition with the known signature in {SRC}, found {len(ms)}")
    m = ms[0]
    i = m.end()
    while i < len(src) and src[i].isspace():
        i += 1
    if i >= len(src) or src[i] != "{":
        raise broken(f"{what}: no body after the signature")
    depth, j = 0, i
    while j < len(src):
        if src[j] == "{":
            depth += 1
        elif src[j] == "}":
            depth -= 1
            if depth == 0:
                return m, src[i + 1:j]
        j += 1
    raise broken(f"{what}: unbalanced braces")


def split_top(s, sep):
    out, depth, cur = [], 0, []
    for ch in s:
        if ch in "([{":
            depth += 1
        elif ch in ")]}":
            depth -= 1
        if ch == sep and depth == 0:
            out.append("".join(cur)); cur = []
        else:
            cur.append(ch)
    out.append("".join(cur))
    return out


# --- expressions ------------------------------------------------------------------------------------------

PRE = [
    (r"std::holds_alternative\s*<\s*LE_t\s*>", "__isLE"),
    (r"std::holds_alternative\s*<\s*LT_t\s*>", "__isLT"),
    (r"static_cast\s*<\s*tscalar\s*>", "__cast"),
]
TOK = re.compile(r"\s*(?:((?:::)?[A-Za-z_][A-Za-z_0-9]*(?:::[A-Za-z_][A-Za-z_0-9]*)*)|(<=|>=|==|!=|&&|\|\||[()<>,!?:.]))")


def tokenize(s):
    for pat, rep in PRE:
        s = re.sub(pat, rep, s)
    out, i = [], 0
    while i < len(s):
        if s[i:].strip() == "":
            break
        m = TOK.match(s, i)
        if not m:
            raise broken("cannot tokenize: " + s[i:i + 40].strip())
        out.append(("id", m.group(1)) if m.group(1) else ("op", m.group(2)))
        i = m.end()
    return out


class Parser:
    """C++ expression -> AST: ('var', n) ('member', e, f) ('call', e, [args]) ('un', '!', e) ('bin', op, a, b) ('tern', c, a, b)"""
    def __init__(self, toks):
        self.t, self.i = toks, 0
    def peek(self):
        return self.t[self.i] if self.i < len(self.t) else ("eof", "")
    def eat(self, v=None):
        k = self.peek()
        if k[0] == "eof" or (v is not None and k[1] != v):
            raise broken(f"expected {v or 'a token'}, got {k[1] or 'end of expression'}")
        self.i += 1
        return k
    def parse(self):
        e = self.tern()
        if self.peek()[0] != "eof":
            raise broken("trailing tokens in expression: " + self.peek()[1])
        return e
    def tern(self):
        c = self.orx()
        if self.peek() == ("op", "?"):
            self.eat(); a = self.tern(); self.eat(":"); b = self.tern()
            return ("tern", c, a, b)
        return c
    def orx(self):
        a = self.andx()
        while self.peek() == ("op", "||"):
            self.eat(); a = ("bin", "||", a, self.andx())
        return a
    def andx(self):
        a = self.cmp()
        while self.peek() == ("op", "&&"):
            self.eat(); a = ("bin", "&&", a, self.cmp())
        return a
    def cmp(self):
        a = self.unary()
        if self.peek()[0] == "op" and self.peek()[1] in ("<=", ">=", "<", ">", "==", "!="):
            op = self.eat()[1]
            return ("bin", op, a, self.unary())
        return a
    def unary(self):
        if self.peek() == ("op", "!"):
            self.eat(); return ("un", "!", self.unary())
        return self.postfix()
    def postfix(self):
        k = self.eat()
        if k == ("op", "("):
            e = self.tern(); self.eat(")")
        elif k[0] == "id":
            e = ("var", k[1])
        else:
            raise broken("unexpected token " + k[1])
        while True:
            if self.peek() == ("op", "."):
                self.eat(); f = self.eat()
                if f[0] != "id":
                    raise broken("member name expected")
                e = ("member", e, f[1])
            elif self.peek() == ("op", "("):
                self.eat(); args = []
                if self.peek() != ("op", ")"):
                    args.append(self.tern())
                    while self.peek() == ("op", ","):
                        self.eat(); args.append(self.tern())
                self.eat(")")
                e = ("call", e, args)
            else:
                return e


def parse_expr(text):
    return Parser(tokenize(text)).parse()


class Lower:
    """AST -> Lean text; `env` = the C++ locals in scope (name -> Lean name), `param` = the parameter object"""
    def __init__(self, env, param=None):
        self.env, self.param = dict(env), param
    def fname(self, e):
        return e[1] if e[0] == "var" else None
    def is_end_of(self, e):
        if e[0] == "call" and e[2] == [] and e[1][0] == "member" and e[1][2] == "end":
            return e[1][1]
        return None
    def find_in(self, e):
        """std::find(D.begin(), D.end(), v) -> (D, v)"""
        if e[0] == "call" and self.fname(e[1]) == "std::find" and len(e[2]) == 3:
            b, en, v = e[2]
            if b[0] == "call" and b[2] == [] and b[1][0] == "member" and b[1][2] == "begin":
                d = b[1][1]
                if self.is_end_of(en) == d:
                    return d, v
        return None
    def lower(self, e):
        k = e[0]
        if k == "var":
            if e[1] in self.env:
                return self.env[e[1]]
            raise broken("unbound symbol " + e[1])
        if k == "member":
            if e[1] == ("var", self.param) and e[2].startswith("m_"):
                return f"{self.env[self.param]}.{e[2][2:]}"
            raise broken("unsupported member access ." + e[2])
        if k == "un":
            return f"(!{self.lower(e[2])})"
        if k == "tern":
            return f"(if {self.lower(e[1])} then {self.lower(e[2])} else {self.lower(e[3])})"
        if k == "bin":
            op, a, b = e[1], e[2], e[3]
            if op in ("||", "&&"):
                return f"({self.lower(a)} {op} {self.lower(b)})"
            if op in ("==", "!="):
                for x, y in ((a, b), (b, a)):
                    f = self.find_in(x)
                    if f and self.is_end_of(y) == f[0]:
                        inn = f"(List.elem {self.lower(f[1])} {self.lower(f[0])})"
                        return f"(!{inn})" if op == "==" else inn
                raise broken("unsupported equality test")
            lean = {"<=": "≤", ">=": "≥", "<": "<", ">": ">"}[op]
            return f"(decide ({self.lower(a)} {lean} {self.lower(b)}))"
        if k == "call":
            f, args = self.fname(e[1]), e[2]
            if f == "__isLE" and len(args) == 1:
                return f"(Cmp.isLE {self.lower(args[0])})"
            if f == "__isLT" and len(args) == 1:
                return f"(!(Cmp.isLE {self.lower(args[0])}))"
            if f in ("::nano::isfinite", "nano::isfinite", "std::isfinite") and len(args) == 1:
                return f"(IsFinite.isFinite {self.lower(args[0])})"
            if f in ("::check", "check") and len(args) == 3:
                return "(check " + " ".join(self.lower(a) for a in args) + ")"
            if f == "__cast" and len(args) == 1 and "__cast" in self.env:
                return f"({self.env['__cast']} {self.lower(args[0])})"
            if f == "std::move" and len(args) == 1:
                return self.lower(args[0])
            raise broken(f"unsupported call {f or '<expression>'}/{len(args)}")
        raise broken("unsupported expression")


# --- the four fragments -----------------------------------------------------------------------------------

ID = r"([A-Za-z_]\w*)"
SIG_CHECK = r"auto\s+check\s*\(\s*const\s+LEorLT\s*&\s*" + ID + r"\s*,\s*tscalar\s+" + ID + r"\s*,\s*tscalar\s+" + ID + r"\s*\)"
SIG_ENUM = r"auto\s*&\s*update\s*\(\s*const\s+string_t\s*&\s*" + ID + r"\s*,\s*parameter_t::enum_t\s*&\s*" + ID + r"\s*,\s*string_t\s+" + ID + r"\s*\)"
SIG_RANGE = (r"auto\s*&\s*update\s*\(\s*const\s+string_t\s*&\s*" + ID + r"\s*,\s*parameter_t::range_t\s*<\s*tscalar\s*>\s*&\s*" + ID +
             r"\s*,\s*tvalue\s+" + ID + r"\s*\)")
SIG_PAIR = (r"auto\s*&\s*update\s*\(\s*const\s+string_t\s*&\s*" + ID + r"\s*,\s*parameter_t::pair_range_t\s*<\s*tscalar\s*>\s*&\s*" + ID +
            r"\s*,\s*tvalue1\s+" + ID + r"\s*,\s*tvalue2\s+" + ID + r"\s*\)")


def translate_check(src):
    m, body = function_body(src, SIG_CHECK, "check(LEorLT, …)")
    stmts = [s.strip() for s in split_top(body, ";") if s.strip()]
    if len(stmts) != 1 or not stmts[0].startswith("return"):
        raise broken("check: the body is no longer a single return statement")
    lelt, v1, v2 = m.group(1), m.group(2), m.group(3)
    e = Lower({lelt: "lelt", v1: "value1", v2: "value2"}).lower(parse_expr(stmts[0][len("return"):]))
    return ("/-- `check(lelt, value1, value2)` -/\n"
            "def check {β : Type} [LT β] [LE β] [DecidableLT β] [DecidableLE β] (lelt : Cmp) (value1 value2 : β) : Bool :=\n"
            f"  {e}\n")


def translate_update(src, sig, what, header, param_fields, values, cast):
    """the body as a chain: let / if-throw / field assignment / return; result `(param, threw)`"""
    m, body = function_body(src, sig, what)
    pname = m.group(2)
    cvalues = [m.group(3 + k) for k in range(len(values))]
    env = {pname: "param"}
    for c, l in zip(cvalues, values):
        env[c] = l
    if cast:
        env["__cast"] = "cast"
    lines = []
    stmts = [s.strip() for s in split_top(body, ";") if s.strip()]
    returned = False
    for st in stmts:
        if returned:
            raise broken(f"{what}: statement after return")
        low = Lower(env, pname)
        mm = re.match(r"const\s+auto\s+([A-Za-z_]\w*)\s*=(?!=)(.*)$", st, re.S)
        if mm:
            e = low.lower(parse_expr(mm.group(2)))
            lean = mm.group(1) if mm.group(1) not in ("param", "cast") else mm.group(1) + "'"
            lines.append(f"  let {lean} := {e}")
            env[mm.group(1)] = lean
            continue
        mm = re.match(r"critical\s*\((.*)\)$", st, re.S)
        if mm:
            args = split_top(mm.group(1), ",")
            if len(args) < 2:
                raise broken(f"{what}: critical() without a message")
            lines.append(f"  if {low.lower(parse_expr(args[0]))} then (param, true) else")
            continue
        mm = re.match(re.escape(pname) + r"\s*\.\s*m_([A-Za-z_]\w*)\s*=(?!=)(.*)$", st, re.S)
        if mm:
            if mm.group(1) not in param_fields:
                raise broken(f"{what}: assignment to unknown member m_{mm.group(1)}")
            lines.append(f"  let param := {{ param with {mm.group(1)} := {low.lower(parse_expr(mm.group(2)))} }}")
            continue
        mm = re.match(r"return\s+(.*)$", st, re.S)
        if mm:
            if mm.group(1).strip() != pname:
                raise broken(f"{what}: does not return the parameter")
            lines.append("  (param, false)")
            returned = True
            continue
        raise broken(f"{what}: unsupported statement `{st[:60]}`")
    if not returned:
        raise broken(f"{what}: no return statement")
    return header + "\n".join(lines) + "\n"


def paramcheck_text(repo):
    path = os.path.join(repo, SRC)
    if not os.path.exists(path):
        raise broken(f"{SRC} does not exist")
    src = strip_comments_strings(open(path).read())
    out = ["-- GENERATED by tools/props/c19.py from src/parameter.cpp — do not edit",
           "import NanoVerif.Model.ParamTypes",
           "/-! `check(LEorLT, …)` and the three `update(name, param, value…)` functions of src/parameter.cpp, statement by",
           "    statement: `critical(c, …)` becomes `if c then (param, true) else …` (the parameter as it is at the throw),",
           "    `param.m_x = e` becomes `let param := { param with x := e }`, `return param` becomes `(param, false)`;",
           "    `cast` stands for `static_cast<tscalar>`. -/",
           "namespace NanoVerif.Gen.ParamCheck",
           "open NanoVerif.Param",
           "",
           translate_check(src),
           translate_update(src, SIG_ENUM, "update(name, enum_t&, value)",
                            "/-- `update(name, enum_t& param, string_t value)` -/\n"
                            "def updateEnum (param : EnumP) (value : String) : EnumP × Bool :=\n",
                            ["value", "domain"], ["value"], False),
           translate_update(src, SIG_RANGE, "update(name, range_t<tscalar>&, value)",
                            "/-- `update(name, range_t<tscalar>& param, tvalue value_)` -/\n"
                            "def updateRange {β γ : Type} [LT β] [LE β] [DecidableLT β] [DecidableLE β] [IsFinite β] (cast : γ → β)\n"
                            "    (param : Range β) (value_ : γ) : Range β × Bool :=\n",
                            ["value", "min", "max", "mincomp", "maxcomp"], ["value_"], True),
           translate_update(src, SIG_PAIR, "update(name, pair_range_t<tscalar>&, value1, value2)",
                            "/-- `update(name, pair_range_t<tscalar>& param, tvalue1 value1_, tvalue2 value2_)` -/\n"
                            "def updatePair {β γ : Type} [LT β] [LE β] [DecidableLT β] [DecidableLE β] [IsFinite β] (cast : γ → β)\n"
                            "    (param : PRange β) (value1_ value2_ : γ) : PRange β × Bool :=\n",
                            ["value1", "value2", "min", "max", "mincomp", "valcomp", "maxcomp"], ["value1_", "value2_"], True),
           "end NanoVerif.Gen.ParamCheck", ""]
    return "\n".join(out)


# --- the factory table ------------------------------------------------------------------------------------

def unq(tok):
    """`'`-prefixed percent-encoded token -> str"""
    assert tok.startswith("'"), tok
    out, i, s = [], 1, tok
    while i < len(s):
        if s[i] == "%":
            out.append(chr(int(s[i + 1:i + 3], 16))); i += 3
        else:
            out.append(s[i]); i += 1
    return "".join(out)


def q(s):
    out = ["'"]
    for ch in s.encode("latin-1", "replace"):
        if 0x20 < ch < 0x7f and ch != 0x25:
            out.append(chr(ch))
        else:
            out.append("%%%02X" % ch)
    return "".join(out)


def lean_str(s):
    out = []
    for ch in s:
        if ch == '"' or ch == "\\":
            out.append("\\" + ch)
        elif 0x20 <= ord(ch) < 0x7f:
            out.append(ch)
        else:
            out.append("\\x%02x" % ord(ch))
    return '"' + "".join(out) + '"'


def xf_of_hex(h):
    """bit pattern -> Lean `XF` literal (exact value)"""
    if h == "nan":
        return ".nan"
    b = int(h, 16)
    neg = "true" if (b >> 63) & 1 else "false"
    ex, fr = (b >> 52) & 2047, b & ((1 << 52) - 1)
    if ex == 2047:
        return f"(.inf {neg})" if fr == 0 else ".nan"
    if ex == 0:
        return f"(.fin {neg} {fr} (-1074))"
    return f"(.fin {neg} {(1 << 52) + fr} ({ex - 1075}))"


def read_state(t):
    """reads one parameter state from a vlib.Toks; returns a dict"""
    k = t.s()
    if k == "mono":
        return dict(kind=k)
    if k == "enum":
        v = unq(t.s()); n = t.int()
        return dict(kind=k, value=v, domain=[unq(t.s()) for _ in range(n)])
    if k == "str":
        return dict(kind=k, value=unq(t.s()))
    if k == "int":
        return dict(kind=k, value=t.int(), min=t.int(), max=t.int(), mincomp=t.s(), maxcomp=t.s())
    if k == "float":
        return dict(kind=k, value=t.s(), min=t.s(), max=t.s(), mincomp=t.s(), maxcomp=t.s())
    if k == "ipair":
        return dict(kind=k, value1=t.int(), value2=t.int(), min=t.int(), max=t.int(), mincomp=t.s(), valcomp=t.s(), maxcomp=t.s())
    if k == "fpair":
        return dict(kind=k, value1=t.s(), value2=t.s(), min=t.s(), max=t.s(), mincomp=t.s(), valcomp=t.s(), maxcomp=t.s())
    raise ValueError("unknown parameter kind " + k)


def lean_int(i):
    return str(i) if i >= 0 else f"({i})"


def lean_storage(st):
    k = st["kind"]
    c = lambda x: "." + x
    if k == "mono":
        return ".mono"
    if k == "str":
        return f".str {lean_str(st['value'])}"
    if k == "enum":
        return f".enum ⟨{lean_str(st['value'])}, [{', '.join(lean_str(d) for d in st['domain'])}]⟩"
    if k == "int":
        return f".irange ⟨{lean_int(st['value'])}, {lean_int(st['min'])}, {lean_int(st['max'])}, {c(st['mincomp'])}, {c(st['maxcomp'])}⟩"
    if k == "float":
        return f".frange ⟨{xf_of_hex(st['value'])}, {xf_of_hex(st['min'])}, {xf_of_hex(st['max'])}, {c(st['mincomp'])}, {c(st['maxcomp'])}⟩"
    if k == "ipair":
        return (f".iprange ⟨{lean_int(st['value1'])}, {lean_int(st['value2'])}, {lean_int(st['min'])}, {lean_int(st['max'])}, "
                f"{c(st['mincomp'])}, {c(st['valcomp'])}, {c(st['maxcomp'])}⟩")
    return (f".fprange ⟨{xf_of_hex(st['value1'])}, {xf_of_hex(st['value2'])}, {xf_of_hex(st['min'])}, {xf_of_hex(st['max'])}, "
            f"{c(st['mincomp'])}, {c(st['valcomp'])}, {c(st['maxcomp'])}⟩")


FACTORIES = ["solver", "lsearchk", "lsearch0", "loss", "splitter", "tuner", "generator", "wlearner", "linear", "datasource", "function"]


def read_tree(t):
    """`<'type_id> <n> (<'name> <state>)*n <k> (<child> <tree>)*k` from a vlib.Toks -> (type_id, [(name, state)], [(child, tree)])"""
    ty = unq(t.s()); n = t.int()
    params = []
    for _ in range(n):
        name = unq(t.s())
        params.append((name, read_state(t)))
    k = t.int()
    kids = []
    for _ in range(k):
        child = t.s()
        kids.append((child, read_tree(t)))
    return (ty, params, kids)


def parse_dump(res):
    """`ok ; F 'id 'type n ('name state)* k (child F' 'id')* ; … ; owner K <tree> ; …`
    -> [(factory, id, type_id, [(name, state)], [(child, factory, id)])]  +  .owners = [(kind, tree)] (attribute of the list)"""
    if not res.startswith("ok"):
        raise Broken("translate:FactoryParams", "the factory dump did not answer ok: " + res[:300])
    entries = Entries()
    for rec in res[2:].split(" ; "):
        rec = rec.strip().lstrip(";").strip()
        if not rec:
            continue
        t = vlib.Toks(rec)
        f = t.s()
        if f == "owner":
            kind = t.s()
            entries.owners.append((kind, read_tree(t)))
        else:
            id_ = unq(t.s()); ty = unq(t.s()); n = t.int()
            params = []
            for _ in range(n):
                name = unq(t.s())
                params.append((name, read_state(t)))
            kids = []
            for _ in range(t.int()):
                child = t.s(); cf = t.s(); cid = unq(t.s())
                kids.append((child, cf, cid))
            entries.append(Entry((f, id_, ty, params), kids))
        if not t.done():
            raise Broken("translate:FactoryParams", "trailing tokens in dump record " + rec[:100])
    return entries


class Entry(tuple):
    """(factory, id, type_id, params) — a 4-tuple as before — with the ids of the owned objects as attribute `kids`"""
    def __new__(cls, t, kids):
        e = super().__new__(cls, t)
        e.kids = kids
        return e


class Entries(list):
    def __init__(self):
        super().__init__()
        self.owners = []


def lean_params(params, indent):
    if not params:
        return "[]"
    sep = ",\n" + " " * indent
    return "[\n" + " " * indent + sep.join(f"({lean_str(n)}, {lean_storage(st)})" for n, st in params) + "]"


def lean_tree(tree, indent):
    ty, params, kids = tree
    pad = " " * indent
    ks = "[]" if not kids else ("[\n" + pad + "  " + (",\n" + pad + "  ").join(
        f"({lean_str(c)}, {lean_tree(k, indent + 4)})" for c, k in kids) + "]")
    return f".node {lean_str(ty)} {lean_params(params, indent + 4)}\n{pad}  {ks}"


def factoryparams_text(entries):
    out = ["-- GENERATED by tools/props/c19.py from a run of harness/c19.cpp (`factory dump`) on the current build of the repository — do not edit",
           "import NanoVerif.Model.Configurable",
           "/-! every id of the 11 factories with every registered parameter (kind, bounds, comparators, default value) and the",
           "    ids of the objects it owns (child, factory, id); the default constructed owners that no factory hands out",
           "    (`ml::params_t`, `gboost_model_t`) as whole configuration trees; doubles are exact (`XF.fin sign mantissa exponent`). -/",
           "namespace NanoVerif.Gen.FactoryParams",
           "open NanoVerif.Param",
           "",
           "/-- factory, id, type_id, registered parameters, owned objects as (child, factory, id) -/",
           "abbrev Entry := FactoryEntry XF",
           ""]
    for f in FACTORIES:
        es = [e for e in entries if e[0] == f]
        out.append(f"def entries_{f} : List Entry := [")
        rows = []
        for e in es:
            (_, id_, ty, params) = e
            kids = getattr(e, "kids", [])
            ks = "[" + ", ".join(f"({lean_str(c)}, {lean_str(cf)}, {lean_str(cid)})" for c, cf, cid in kids) + "]"
            rows.append(f"  ⟨{lean_str(f)}, {lean_str(id_)}, {lean_str(ty)}, {lean_params(params, 6)}, {ks}⟩")
        out.append(",\n".join(rows) + "]")
        out.append("")
    out.append("/-- one chunk per factory -/")
    out.append("def chunks : List (List Entry) := [" + ", ".join("entries_" + f for f in FACTORIES) + "]")
    out.append("")
    out.append("def table : List Entry := chunks.flatten")
    out.append("")
    out.append("/-- the default constructed owners (kind, configuration tree) -/")
    out.append("def owners : List (String × Tree XF) := [")
    out.append(",\n".join(f"  ({lean_str(k)}, {lean_tree(t, 4)})" for k, t in getattr(entries, "owners", [])) + "]")
    out.append("")
    out.append("end NanoVerif.Gen.FactoryParams")
    out.append("")
    return "\n".join(out)


# --- typed reads of parameters in the library (Gen/ParamReads.lean) ----------------------------------------

READ_RE = re.compile(r"\.\s*value(_pair)?\s*<\s*([A-Za-z_][A-Za-z_0-9:]*)\s*>\s*\(\s*\)")
LIT_RE = re.compile(r'"((?:[^"\\]|\\.)*)"')


def _match_open(text, close):
    """index of the `(` matching the `)` at text[close]"""
    depth = 0
    i = close
    while i >= 0:
        if text[i] == ")":
            depth += 1
        elif text[i] == "(":
            depth -= 1
            if depth == 0:
                return i
        i -= 1
    return -1


def scan_reads(repo):
    """every `<expr>.parameter(<name expression>).value<T>()` / `.value_pair<T>()` of src/ and include/ ->
    ([(exact, name, pair, type, site)], [unresolved sites]); include/nano/parameter.h (the implementation of the reads) and
    include/nano/configurable.h are left out"""
    uses, unresolved = [], []
    for top in ("include", "src"):
        for root, _, names in sorted(os.walk(os.path.join(repo, top))):
            for fn in sorted(names):
                if not fn.endswith((".h", ".cpp", ".hpp")):
                    continue
                path = os.path.join(root, fn)
                rel = os.path.relpath(path, repo)
                if rel in ("include/nano/parameter.h", "include/nano/configurable.h"):
                    continue
                raw = open(path, errors="replace").read()
                # comments out, string literals kept
                text = re.sub(r"//[^\n]*", lambda m: " " * len(m.group(0)), raw)
                text = re.sub(r"/\*.*?\*/", lambda m: re.sub(r"[^\n]", " ", m.group(0)), text, flags=re.S)
                for m in READ_RE.finditer(text):
                    line = text.count("\n", 0, m.start()) + 1
                    site = f"{rel}:{line}"
                    pair, ty = bool(m.group(1)), m.group(2)
                    j = m.start() - 1
                    while j >= 0 and text[j].isspace():
                        j -= 1
                    if j < 0 or text[j] != ")":
                        # `param.value<T>()` on a parameter_t variable / m_value of a range: only inside parameter.h
                        unresolved.append(site + " (receiver is not a call)")
                        continue
                    o = _match_open(text, j)
                    head = text[max(0, o - 12):o]
                    if o < 0 or not re.search(r"\bparameter\s*$", head):
                        unresolved.append(site + " (receiver is not parameter(...))")
                        continue
                    arg = text[o + 1:j].strip()
                    lits = LIT_RE.findall(arg)
                    if LIT_RE.fullmatch(arg):
                        uses.append((True, lits[0], pair, ty, site))
                    elif lits and arg.rstrip(" )").endswith('"' + lits[-1] + '"'):
                        uses.append((False, lits[-1], pair, ty, site))
                    else:
                        unresolved.append(site + f" (name expression `{arg[:60]}`)")
    return uses, unresolved


def rkind(ty):
    return {"int": ".i32", "int32_t": ".i32", "uint64_t": ".u64", "size_t": ".u64", "int64_t": ".i64", "tensor_size_t": ".i64",
            "scalar_t": ".scalar", "string_t": ".string"}.get(ty, ".enum")


def all_param_names(entries):
    names = []
    def walk(tree):
        for n, _ in tree[1]:
            names.append(n)
        for _, k in tree[2]:
            walk(k)
    for e in entries or []:
        for n, _ in e[3]:
            names.append(n)
    for _, tree in getattr(entries, "owners", []):
        walk(tree)
    return sorted(set(names))


def paramreads_text(repo, entries=None):
    """reads whose name is an expression ending in a literal (`basename + "lsearch_beta"`) are resolved against the parameter
    names of the factory dump: one row per registered parameter whose name ends in the literal"""
    uses, unresolved = scan_reads(repo)
    known = all_param_names(entries)
    distinct = {}
    for ex, name, pair, ty, site in uses:
        if ex:
            distinct.setdefault((name, pair, ty), []).append(site)
        else:
            for full in known:
                if full.endswith(name):
                    distinct.setdefault((full, pair, ty), []).append(site + " …" + name)
    out = ["-- GENERATED by tools/props/c19.py from the sources under include/ and src/ — do not edit",
           "import NanoVerif.Model.ParamNarrow",
           "/-! every typed read `parameter(<name>).value<T>()` / `.value_pair<T>()` of the library: the parameter name (a name",
           "    given as an expression ending in a literal is resolved against the registered names of the factory dump), pair",
           "    read?, the type, what the conversion to that type does, the first site (+ how many more).",
           f"    {len(uses)} reads resolved ({len(distinct)} distinct rows), {len(unresolved)} unresolved (an unresolved read fails the",
           "    static check of C19). -/",
           "namespace NanoVerif.Gen.ParamReads",
           "open NanoVerif.Param",
           "",
           "def reads : List ReadUse := ["]
    rows = []
    for (name, pair, ty), sites in distinct.items():
        where = sites[0] + (f" (+{len(sites) - 1})" if len(sites) > 1 else "")
        rows.append(f"  ⟨{lean_str(name)}, {'true' if pair else 'false'}, {lean_str(ty)}, {rkind(ty)}, {lean_str(where)}⟩")
    out.append(",\n".join(rows) + "]")
    out += ["", "end NanoVerif.Gen.ParamReads", ""]
    return "\n".join(out)


# --- clonability: classes, data members, clone() bodies, user-provided copy operations ---------------------

def _strip_comments(text):
    text = re.sub(r"//[^\n]*", lambda m: " " * len(m.group(0)), text)
    return re.sub(r"/\*.*?\*/", lambda m: re.sub(r"[^\n]", " ", m.group(0)), text, flags=re.S)


def _blank_strings(text):
    return re.sub(r'"(?:[^"\\\n]|\\.)*"', lambda m: '"' + " " * (len(m.group(0)) - 2) + '"', text)


def _close(text, i, op="{", cl="}"):
    """index of the bracket closing the one at text[i]"""
    depth = 0
    while i < len(text):
        c = text[i]
        if c == op:
            depth += 1
        elif c == cl:
            depth -= 1
            if depth == 0:
                return i
        i += 1
    return -1


CLASS_RE = re.compile(r"\b(class|struct)\s+(?:NANO_PUBLIC\s+|alignas\s*\([^)]*\)\s*)*((?:[A-Za-z_]\w*::)*[A-Za-z_]\w*)\s*(?:final\s*)?(:(?!:)[^{;]*)?\{")
ACCESS_RE = re.compile(r"\b(public|private|protected)\s*:")


def _top_statements(body):
    """the statements of a class body at nesting depth 0: [(text, inline body or None)]; nested class definitions are returned
    as ("class …", body)"""
    out, i, start = [], 0, 0
    n = len(body)
    while i < n:
        c = body[i]
        if c == "(":
            i = _close(body, i, "(", ")") + 1
            continue
        if c == "{":
            j = _close(body, i)
            head = body[start:i].strip()
            # a brace initialiser of a data member (`tensor_size_t m_x{0};`) is part of the statement
            k = j + 1
            while k < n and body[k].isspace():
                k += 1
            if k < n and body[k] in ";," and "(" not in re.sub(r"<[^<>]*>", "", head) and not re.match(r"\s*(class|struct|enum|union)\b", head):
                i = j + 1
                continue
            out.append((head, body[i + 1:j]))
            i = j + 1
            if k < n and body[k] == ";":
                i = k + 1
            start = i
            continue
        if c == ";":
            text = body[start:i].strip()
            if text:
                out.append((text, None))
            start = i + 1
        i += 1
    return out


def _bases(spec):
    if not spec:
        return []
    out = []
    for part in split_top(spec.lstrip(":"), ","):
        part = re.sub(r"\b(public|private|protected|virtual)\b", "", part).strip()
        part = re.sub(r"<.*>", "", part, flags=re.S).strip()
        if part:
            out.append(part.split("::")[-1])
    return out


MEMBER_SKIP = re.compile(r"^\s*(using|typedef|friend|static|enum|template|constexpr|inline|explicit|virtual|operator|class|struct|union|"
                         r"static_assert|NANO_PUBLIC)\b")


def parse_classes(text, where, prefix="", out=None):
    """-> {qualified name: dict(where, bases, members[(type, name)], clone, copy_ctor, copy_assign)}; clone / copy_*: None (not
    declared), 'pure', 'default', 'delete', 'decl' (defined elsewhere) or ('inline', body)"""
    out = {} if out is None else out
    pos = 0
    while True:
        m = CLASS_RE.search(text, pos)
        if not m:
            break
        # `enum class x {` is not a class; `class x;` forward declarations do not match (no brace)
        before = text[max(0, m.start() - 8):m.start()]
        if re.search(r"\benum\s*$", before) or re.search(r"<\s*$|,\s*$", before):
            pos = m.end()
            continue
        o = m.end() - 1
        c = _close(text, o)
        if c < 0:
            break
        name = prefix + m.group(2)
        body = text[o + 1:c]
        short_name = m.group(2).split("::")[-1]
        info = dict(where=where, bases=_bases(m.group(3)), members=[], clone=None, copy_ctor=None, copy_assign=None)
        short = short_name
        flat = ACCESS_RE.sub(" ", body)
        for stmt, inl in _top_statements(flat):
            s1 = " ".join(stmt.split())
            if re.match(r"(class|struct)\b", s1) and inl is not None:
                parse_classes(s1 + "{" + inl + "}", where, name + "::", out)
                continue
            if re.search(r"\bclone\s*\(\s*\)\s*const\b", s1):
                if re.search(r"=\s*0\s*$", s1):
                    info["clone"] = "pure"
                else:
                    info["clone"] = ("inline", inl) if inl is not None else "decl"
                continue
            cm = re.search(r"(?:^|[\s&])" + re.escape(short) + r"\s*\(\s*const\s+" + re.escape(short) + r"(?:<[^()]*>)?\s*&\s*\w*\s*\)", s1)
            if cm and "operator" not in s1:
                if re.search(r"=\s*default\s*$", s1):
                    info["copy_ctor"] = "default"
                elif re.search(r"=\s*delete\s*$", s1):
                    info["copy_ctor"] = "delete"
                else:
                    info["copy_ctor"] = ("inline", s1 + "{" + inl + "}") if inl is not None else "decl"
                continue
            am = re.search(r"operator\s*=\s*\(\s*const\s+" + re.escape(short) + r"(?:<[^()]*>)?\s*&\s*\w*\s*\)", s1)
            if am:
                if re.search(r"=\s*default\s*$", s1):
                    info["copy_assign"] = "default"
                elif re.search(r"=\s*delete\s*$", s1):
                    info["copy_assign"] = "delete"
                else:
                    info["copy_assign"] = ("inline", s1 + "{" + inl + "}") if inl is not None else "decl"
                continue
            if inl is not None or MEMBER_SKIP.match(s1) or re.search(r"\boperator\b", s1):
                continue
            core = re.sub(r"\{[^{}]*\}\s*$", "", s1).strip()       # brace initialiser
            core = re.sub(r"=[^=]*$", "", core).strip() if "=" in core and "(" not in core.split("=")[0] else core
            if "(" in re.sub(r"<[^<>]*(<[^<>]*>)*[^<>]*>", "", core):
                continue                                             # a function declaration
            mm = re.match(r"^(?:mutable\s+)?(.+?)[\s\*&]+(\w+)\s*(\[[^\]]*\])?$", core)
            if mm and not re.match(r"^(return|delete|throw)\b", core):
                ty = core[:mm.start(2)].strip()
                info["members"].append((ty, mm.group(2)))
        out[name] = info
        pos = o + 1 if False else c + 1
    return out


def scan_clones(repo):
    """-> (classes, definitions): classes from every header and source file; definitions = {(class, what): body text} for the
    out-of-line `C::clone() const`, `C::C(const C&)`, `C::operator=(const C&)`"""
    classes, defs = {}, {}
    for top in ("include", "src"):
        for root, _, names in sorted(os.walk(os.path.join(repo, top))):
            for fn in sorted(names):
                if not fn.endswith((".h", ".cpp", ".hpp")):
                    continue
                path = os.path.join(root, fn)
                rel = os.path.relpath(path, repo)
                text = _blank_strings(_strip_comments(open(path, errors="replace").read()))
                for k, v in parse_classes(text, rel).items():
                    # a class defined twice under one name (anonymous namespaces of two files): keep both
                    key = k if k not in classes else f"{k}@{rel}"
                    classes[key] = v
                for m in re.finditer(r"\b([A-Za-z_]\w*)\s*(<[^<>;{}()]*>)?\s*::\s*clone\s*\(\s*\)\s*const\s*\{", text):
                    o = m.end() - 1
                    defs[(m.group(1), "clone")] = (text[o + 1:_close(text, o)], rel)
                for m in re.finditer(r"\b([A-Za-z_]\w*)\s*(?:<[^<>;{}()]*>)?\s*::\s*([A-Za-z_]\w*)\s*\(\s*const\s+([A-Za-z_]\w*)\s*&\s*(\w*)\s*\)", text):
                    if m.group(1) == m.group(2) == m.group(3):
                        j = m.end()
                        o = text.find("{", j)
                        semi = text.find(";", j)
                        if o < 0 or (0 <= semi < o):
                            continue
                        defs[(m.group(1), "copy_ctor")] = (text[j:_close(text, o) + 1], rel)
                for m in re.finditer(r"\b([A-Za-z_]\w*)\s*(?:<[^<>;{}()]*>)?\s*::\s*operator\s*=\s*\(\s*const\s+([A-Za-z_]\w*)\s*&\s*(\w*)\s*\)\s*\{", text):
                    if m.group(1) == m.group(2):
                        o = m.end() - 1
                        defs[(m.group(1), "copy_assign")] = (text[o:_close(text, o) + 1], rel)
    return classes, defs


def canonical_clone(cls, body):
    b = re.sub(r"\s+", "", body or "")
    return re.fullmatch(r"returnstd::make_unique<(\w+::)*" + re.escape(cls) + r"(<[^;]*>)?>\(\*this\);", b) is not None


def clone_report(repo):
    """-> dict(clonable=[class], noncanonical_clone={class: why}, user_copy={class: [what…]}, missing={class: [member…]},
    suspicious={class: [(type, member)]}, problems=[str])"""
    classes, defs = scan_clones(repo)
    rep = dict(clonable=[], noncanonical_clone={}, user_copy={}, missing={}, suspicious={}, problems=[])
    short = lambda k: k.split("@")[0].split("::")[-1]
    by_short = {}
    for k, v in classes.items():
        by_short.setdefault(short(k), []).append(v)
    # classes that implement clone()
    for k, v in sorted(classes.items()):
        c = v["clone"]
        if c in (None, "pure"):
            continue
        name = short(k)
        rep["clonable"].append(name)
        body = c[1] if isinstance(c, tuple) else (defs.get((name, "clone")) or (None, None))[0]
        if body is None:
            rep["problems"].append(f"{name} ({v['where']}): clone() is declared but its definition was not found")
        elif not canonical_clone(name, body):
            rep["noncanonical_clone"][name] = " ".join(body.split())[:200]
        if v["copy_ctor"] == "delete":
            rep["problems"].append(f"{name} ({v['where']}): clone() of a class whose copy constructor is deleted")
    # every class that is copied when a clonable object is: the clonable classes, their bases, the classes of their members
    reach, todo = set(), list(rep["clonable"])
    while todo:
        n = todo.pop()
        if n in reach or n not in by_short:
            continue
        reach.add(n)
        for v in by_short[n]:
            todo += v["bases"]
            for ty, _ in v["members"]:
                todo += re.findall(r"[A-Za-z_]\w*", ty)
    # user-provided copy operations anywhere in the library (a reachable one matters, the others are listed too)
    for k, v in sorted(classes.items()):
        name = short(k)
        for what in ("copy_ctor", "copy_assign"):
            c = v[what]
            if c in (None, "default", "delete"):
                continue
            text = c[1] if isinstance(c, tuple) else (defs.get((name, what)) or (None, None))[0]
            rep["user_copy"].setdefault(name, []).append(what)
            if text is None:
                rep["problems"].append(f"{name} ({v['where']}): user-declared {what} whose definition was not found")
                continue
            flat = re.sub(r"\s+", " ", text)
            lost = []
            for ty, mname in v["members"]:
                if not re.search(r"\b" + re.escape(mname) + r"\s*[({=]", flat) and not re.search(r"\b" + re.escape(mname) + r"\b\s*\.", flat) \
                        and not re.search(r"std::swap\([^)]*\b" + re.escape(mname) + r"\b", flat) and "swap(" not in flat.replace(" ", ""):
                    lost.append(mname)
            for b in v["bases"]:
                if not by_short.get(b):
                    continue
                if what == "copy_ctor" and not re.search(r"\b" + re.escape(b) + r"\s*(<[^()]*>)?\s*[({]\s*\w+\s*[)}]", flat):
                    lost.append("base " + b)
                if what == "copy_assign" and not re.search(r"\b" + re.escape(b) + r"\s*(<[^()]*>)?\s*::\s*operator\s*=\s*\(\s*\w+\s*\)", flat):
                    lost.append("base " + b)
            if lost:
                rep["missing"].setdefault(name, []).extend(f"{what}: {m}" for m in lost)
        if name in reach:
            for ty, mname in v["members"]:
                if re.search(r"shared_ptr\s*<|[\*]\s*$|[^&]&\s*$|\*\s*const\s*$", ty) and "unique_ptr" not in ty:
                    rep["suspicious"].setdefault(name, []).append((ty, mname))
    rep["reach"] = sorted(reach)
    rep["classes"] = classes
    return rep
