"""C13 — tuning evaluates grid points once and reports the true best trial (DESIGN.md §4 C13)."""
import itertools, math, os
import vlib
from vlib import Toks, lst, f2h, h2f

ID = "C13"
LEVEL = "proof"
HARNESS = "c13"
LEAN_MODULES = ["NanoVerif.Props.C13"]
NS = "NanoVerif.C13."
OBLIGATIONS = [NS + t for t in [
    # building blocks
    "localSearch_inGrid", "localSearch_nodup", "localSearch_length_le", "mergeSort_sortSpec", "hintedSort_sortSpec",
    "evaluate_nodup", "nonfinite_rejected_evaluate",
    # tuner_t::optimize, both tuners: every callback, every SortSpec, every surrogate oracle
    "steps_in_grid", "steps_params_on_grid", "steps_nodup", "steps_budget", "steps_sorted_first_min", "steps_true_values",
    "steps_perm_trace", "trace_in_grid", "trace_nodup", "trace_budget", "nonfinite_rejected", "optimize_terminates",
    # ml::tune / ml::result_t
    "decode_bijective", "slots_disjoint", "tune_calls_once", "batch_slots", "batch_keeps_old", "optimum_is_argmin",
]]
TRUSTED = [
    "Lean 4.33.0 kernel; Mathlib modules imported by NanoVerif/Proofs/Tuner*.lean and NanoVerif/Props/C13.lean",
    "axioms: at most propext, Classical.choice, Quot.sound (audited per theorem on every run)",
    "hand-written models NanoVerif/Model/Tuner.lean (tuner.cpp, tuner/util.cpp, tuner/local.cpp, control skeleton of "
    "tuner/surrogate.cpp, combinatorial.h) and NanoVerif/Model/Tune.lean (machine/tune.cpp, machine/result.cpp); tied to the "
    "code by the correspondence run (harness/c13.cpp on the real library vs the compiled Lean driver, exact comparison)",
    "std::sort returns a sorted permutation (SortSpec); pool_t::map runs every index exactly once (= C17)",
    "tools/props/c13.py generator + direct monitors; harness/c13.cpp; g++/libstdc++/Eigen",
]
ASSUMPTIONS = [
    "the L-BFGS fit and minimisation of the quadratic surrogate are not modelled: the centre it proposes is an oracle "
    "(any grid point or a failure); the theorems hold for every such oracle",
    "the callback returns exactly one value per requested row (the harness callback does)",
    "percentiles / standard deviation of ml::store_stats are not modelled here (C20): the model treats the 12 numbers of a "
    "(trial, fold) as an opaque payload handed over by the harness; the python oracle recomputes mean, count and percentiles",
    "the closest previous trial is read from the state before the batch (identical to the code whenever old_trials > 0 or the "
    "batch has one trial; the first batch of both tuners has one trial)",
    "thread interleavings of ml::tune are those the OS produced during the runs (the theorem covers every order of the indices)",
]
RULE = ("function level: local_search for every source point of small boxes (d <= 2) with radii 0..3 and random boxes with d <= 5; "
        "evaluate on random (also unsorted, also tied) step lists; run level: both tuners on 1..3 grids of 2..31 values "
        "(linear and log10), max_evals 10..1000, landscapes as lookup tables: injective, separable bowls, corner minima, plateaus, "
        "hashed (many ties), constant, with nan/inf entries; ml::tune with 0..2 grids, 2..10 folds, both tuners, per-sample "
        "tensors from a lookup table; a run/tune case is non-trivial when the grid has at least 5 points (then at least 3 batches "
        "are requested and the centre is proposed again and filtered); distinct by op text")
FLAVOUR = {"quick": "plain", "thorough": "asan"}
HARNESS_TIMEOUT = 1500
# ml::tune opens one log file per (trial, fold) under std::filesystem::temp_directory_path(): keep them out of /tmp
# (the harness works in a private sub-directory of TMPDIR and removes it)
_TMP = os.path.join(vlib.CACHE, "tmp-c13")
os.makedirs(_TMP, exist_ok=True)
HARNESS_ENV = {"TMPDIR": _TMP}
DBL_MAX = 1.7976931348623157e308


# ---------------------------------------------------------------------------------------------------------
# op construction

def fl(xs):
    return lst(xs, f2h)


def spaces_str(spaces):
    return f"{len(spaces)}" + "".join(f" {t} {fl(v)}" for t, v in spaces)


def land_lin(a, table):
    return f"lin {lst(a)} {fl(table)}"


def land_sep(tabs):
    return f"sep {len(tabs)} " + " ".join(fl(t) for t in tabs)


def strides(sizes):
    s, acc = [], 1
    for n in reversed(sizes):
        s.append(acc); acc *= n
    return list(reversed(s))


def gen_space(rng, n):
    """sorted distinct grid values; log10 spaces need strictly positive values"""
    kind = rng.below(4)
    if kind == 0:      # small integers (exact arithmetic, symmetric distances)
        start = rng.range(-3, 3)
        return 1, [float(start + k) for k in range(n)]
    if kind == 1:      # log10 grid
        lo = rng.range(-6, 0)
        return 0, sorted({10.0 ** (lo + 0.25 * k) for k in range(n)})
    if kind == 2:      # random reals
        vals = set()
        while len(vals) < n:
            vals.add(rng.uniform(-10.0, 10.0))
        return 1, sorted(vals)
    vals = set()       # dyadic
    while len(vals) < n:
        vals.add(rng.range(-64, 64) / 8.0)
    return 1, sorted(vals)


def pick_size(rng):
    r = rng.below(10)
    if r < 2:
        return 2
    if r < 3:
        return 31
    if r < 4:
        return 3
    return rng.range(2, 31)


def distinct_values(rng, n, lo=-100.0, hi=100.0):
    vals = set()
    while len(vals) < n:
        vals.add(rng.uniform(lo, hi))
    return rng.shuffle(sorted(vals))


def gen_landscape(rng, sizes, kind):
    d = len(sizes)
    total = 1
    for n in sizes:
        total *= n
    if kind == "inj":
        if total <= 1200:
            return land_lin(strides(sizes), distinct_values(rng, total))
        return land_sep([distinct_values(rng, n) for n in sizes])
    if kind == "bowl":       # separable convex bowl, centre anywhere (also outside the grid: corner minimum)
        tabs = []
        for n in sizes:
            c = rng.range(-2, n + 1) if rng.chance(0.5) else rng.uniform(-1.0, n)
            w = rng.choice([0.5, 1.0, 2.0, 3.0])
            tabs.append([w * (g - c) * (g - c) for g in range(n)])
        return land_sep(tabs)
    if kind == "corner":     # monotone in every coordinate: the minimum sits in a corner
        tabs = []
        for n in sizes:
            t = sorted(distinct_values(rng, n))
            tabs.append(t if rng.chance(0.5) else list(reversed(t)))
        return land_sep(tabs)
    if kind == "plateau":    # few distinct values
        levels = [float(v) for v in range(rng.range(1, 3))]
        if total <= 1200:
            return land_lin(strides(sizes), [rng.choice(levels) for _ in range(total)])
        return land_sep([[rng.choice(levels) for _ in range(n)] for n in sizes])
    if kind == "hash":       # hashed table: many exact ties scattered over the grid
        n = rng.choice([5, 7, 11, 17, 29])
        return land_lin([rng.range(1, 40) for _ in range(d)], distinct_values(rng, n))
    if kind == "const":
        return land_lin([0] * d, [rng.uniform(-5.0, 5.0)])
    if kind == "nonfinite":  # some entries are nan / +-inf
        n = rng.choice([7, 11, 17, 29, 61])
        t = distinct_values(rng, n)
        for _ in range(rng.range(1, 3)):
            t[rng.below(n)] = rng.choice([float("nan"), float("inf"), float("-inf")])
        return land_lin([rng.range(1, 40) for _ in range(d)], t)
    if kind == "extreme":    # finite, tiny up to large magnitudes (below 1e150)
        n = rng.choice([7, 11, 17])
        t = [rng.choice([1.0, -1.0]) * 10.0 ** rng.range(-300, 149) for _ in range(n)]
        return land_lin([rng.range(1, 40) for _ in range(d)], t)
    if kind == "huge":       # finite, magnitudes 1e150 .. 1e300 (KNOWN_FINDINGS: the surrogate fit overflows)
        n = rng.choice([7, 11, 17])
        t = [rng.choice([1.0, -1.0]) * rng.uniform(1.0, 9.0) * 10.0 ** rng.range(150, 300) for _ in range(n)]
        return land_lin([rng.range(1, 40) for _ in range(d)], t)
    raise ValueError(kind)


def gen_run(rng, tuner=None, kind=None, d=None, max_evals=None, sizes=None):
    tuner = tuner or rng.choice(["local-search", "surrogate"])
    d = d or rng.choice([1, 1, 2, 2, 3])
    sizes = sizes or [pick_size(rng) for _ in range(d)]
    spaces = [gen_space(rng, n) for n in sizes]
    sizes = [len(v) for _, v in spaces]
    if max_evals is None:
        max_evals = rng.choice([10, 10, 10, 11, 20, 37, 100]) if tuner == "surrogate" else \
            rng.choice([10, 10, 11, 20, 37, 100, 100, 333, 1000])
    kind = kind or rng.choice(["inj", "inj", "inj", "bowl", "bowl", "corner", "plateau", "hash", "const", "nonfinite"])
    return f"tuner run {tuner} {max_evals} {spaces_str(spaces)} {gen_landscape(rng, sizes, kind)}"


def gen_evaluate(rng):
    d = rng.range(1, 3)
    sizes = [rng.range(2, 6) for _ in range(d)]
    spaces = [gen_space(rng, n) for n in sizes]
    sizes = [len(v) for _, v in spaces]
    kind = rng.choice(["inj", "plateau", "hash", "nonfinite", "bowl"])
    land = gen_landscape(rng, sizes, kind)
    allpts = list(itertools.product(*[range(n) for n in sizes]))
    nsteps = rng.range(0, min(len(allpts), 8))
    pts = rng.shuffle(allpts)[:nsteps]
    vals = [float(rng.range(-3, 3)) if rng.chance(0.5) else rng.uniform(-9.0, 9.0) for _ in pts]
    if rng.chance(0.7):      # the invariant of the tuners: steps sorted by value
        order = sorted(range(len(pts)), key=lambda i: vals[i])
        pts = [pts[i] for i in order]; vals = [vals[i] for i in order]
    k = rng.range(0, 9)
    igrids = []
    for _ in range(k):
        r = rng.below(10)
        if r < 3 and pts:
            igrids.append(rng.choice(pts))           # already evaluated
        elif r < 4 and igrids:
            igrids.append(rng.choice(igrids))        # proposed twice in the same batch
        else:
            igrids.append(rng.choice(allpts))
    steps = f"{len(pts)}" + "".join(f" {lst(p)} {f2h(v)}" for p, v in zip(pts, vals))
    return f"tuner evaluate {spaces_str(spaces)} {land} {steps} {len(igrids)}" + "".join(f" {lst(g)}" for g in igrids)


def gen_tune(rng, tuner=None):
    tuner = tuner or rng.choice(["local-search", "surrogate"])
    d = rng.choice([0, 1, 1, 2, 2])
    while True:
        sizes = [rng.range(2, 9) for _ in range(d)]
        total = 1
        for n in sizes:
            total *= n
        if total <= 36:
            break
    spaces = [gen_space(rng, n) for n in sizes]
    folds = rng.choice([2, 2, 3, 4, 5, 7, 10])
    nsamples = rng.range(folds, 40)
    n = rng.choice([13, 31, 64, 101])
    table = [float(rng.range(0, 9)) / 4.0 if rng.chance(0.3) else rng.uniform(0.0, 5.0) for _ in range(n)]
    if rng.chance(0.06):
        table[rng.below(n)] = float("inf")   # (no nan: std::nth_element needs a strict weak order, percentiles are C20)
    A, B, C, D, E = [rng.range(1, 97) for _ in range(5)]
    return (f"tuner tune {tuner} {rng.choice([10, 10, 12, 20, 33])} {folds} {rng.range(0, 1024)} {rng.range(0, 50)} {nsamples} "
            f"{spaces_str(spaces)} {A} {B} {C} {D} {E} {fl(table)}")


def gen(rng, tier):
    ops = []
    cp = os.path.join(vlib.VERIF, "corpus", "C13", "ops.txt")
    if os.path.exists(cp):
        ops += [l.strip() for l in open(cp) if l.strip() and not l.startswith("#")]
    big = tier == "thorough"
    # local_search: every source point of small boxes, radii 0..3
    for d in (1, 2):
        for mx in itertools.product(range(0, 4 if d == 1 else 3), repeat=d):
            for src in itertools.product(*[range(-1, m + 2) for m in mx]):
                for r in (0, 1, 2, 3):
                    ops.append(f"tuner lsearch {lst([0] * d)} {lst(mx)} {lst(src)} {r}")
    for _ in range(1500 if big else 300):
        d = rng.range(1, 5)
        mn = [rng.range(-3, 3) for _ in range(d)]
        mx = [m + rng.range(0, 31) for m in mn]
        src = [rng.range(a - 2, b + 2) for a, b in zip(mn, mx)]
        ops.append(f"tuner lsearch {lst(mn)} {lst(mx)} {lst(src)} {rng.choice([1, 1, 2, 4, 8, 16, 32, 64, rng.range(0, 40)])}")
    for _ in range(9000 if big else 1500):
        ops.append(gen_evaluate(rng))
    # boundary cases of the run level first: grids of 2 and 31 values, max_evals 10
    for tuner in ("local-search", "surrogate"):
        for sizes in ([2], [31], [2, 2], [2, 31], [31, 31], [2, 2, 2], [3, 3, 3]):
            for kind in ("inj", "plateau", "corner", "const"):
                ops.append(gen_run(rng, tuner=tuner, kind=kind, d=len(sizes), sizes=sizes, max_evals=10))
    ops.append(gen_run(rng, tuner="local-search", kind="inj", d=3, sizes=[31, 31, 31], max_evals=1000))
    ops.append(gen_run(rng, tuner="local-search", kind="bowl", d=3, sizes=[31, 31, 31], max_evals=1000))
    for _ in range(8000 if big else 1300):
        ops.append(gen_run(rng))
    for _ in range(120 if big else 20):
        ops.append(gen_run(rng, kind="extreme"))
    for _ in range(40 if big else 6):
        ops.append(gen_run(rng, kind="huge", max_evals=rng.choice([10, 20])))
    for _ in range(3000 if big else 450):
        ops.append(gen_tune(rng))
    return ops


# ---------------------------------------------------------------------------------------------------------
# parsing (independent of the harness and of the Lean driver)

def read_spaces(t):
    d = t.int()
    out = []
    for _ in range(d):
        ty = t.int(); out.append((ty, t.fs()))
    return out


def read_landscape(t):
    kind = t.s()
    if kind == "lin":
        a = t.ints(); table = t.fs()
        return lambda g: table[sum(x * y for x, y in zip(a, g)) % len(table)]
    d = t.int()
    tabs = [t.fs() for _ in range(d)]

    def f(g):
        v = None
        for i, gi in enumerate(g):
            x = tabs[i][gi % len(tabs[i])]
            v = x if v is None else v + x
        return v
    return f


def feq(a, b):
    return (a != a and b != b) or a == b


def decode(spaces, params):
    """grid index of every hyper-parameter value, None when a value is not on its grid"""
    g = []
    for (_, vals), p in zip(spaces, params):
        hit = [k for k, v in enumerate(vals) if v == p]
        if len(hit) != 1:
            return None
        g.append(hit[0])
    return tuple(g)


def read_batches(r):
    nb = r.int()
    batches = []
    for _ in range(nb):
        k = r.int(); d = r.int()
        batches.append([[r.f() for _ in range(d)] for _ in range(k)])
    return batches


def read_steps(r):
    assert r.s() == "steps"
    n = r.int()
    steps = []
    for _ in range(n):
        g = tuple(r.ints()); p = r.fs(); v = r.f()
        steps.append((g, p, v))
    assert r.s() == "first"
    first = tuple(r.ints())
    assert r.s() == "sorted"
    return steps, first, r.int()


def neighbourhood(mn, mx, src, radius):
    out = []
    for off in itertools.product((-1, 0, 1), repeat=len(src)):
        g = tuple(s + o * radius for s, o in zip(src, off))
        if all(a <= x <= b for a, x, b in zip(mn, g, mx)):
            out.append(g)
    return out


# ---------------------------------------------------------------------------------------------------------
# the property oracle: direct monitors of the statement of C13 on the implementation's answer

def oracle(aug, res):
    t = Toks(aug); t.s(); op = t.s()
    r = Toks(res)
    head = r.s()
    if head == "bad-op":
        return f"harness rejected the op: {res[:100]}"
    if op == "lsearch":
        mn, mx, src, radius = t.ints(), t.ints(), t.ints(), t.int()
        if head != "ok":
            return f"local_search failed: {res[:80]}"
        got = [tuple(r.ints()) for _ in range(r.int())]
        want = neighbourhood(mn, mx, src, radius)
        if sorted(got) != sorted(want):
            return f"local_search: {got} is not the clipped neighbourhood {want}"
        return None
    if op == "evaluate":
        return oracle_evaluate(t, r, head)
    if op == "run":
        return oracle_run(t, r, head)
    if op == "tune":
        return oracle_tune(t, r, head, aug)
    return f"unknown op {op}"


def oracle_evaluate(t, r, head):
    spaces = read_spaces(t); f = read_landscape(t)
    steps = []
    for _ in range(t.int()):
        g = tuple(t.ints()); steps.append((g, t.f()))
    igrids = [tuple(t.ints()) for _ in range(t.int())]
    done = {g for g, _ in steps}
    fresh = [g for g in igrids if g not in done]
    if head == "throw":
        r.s()
        batches = read_batches(r)
        if not any(not math.isfinite(f(g)) for g in fresh):
            return "evaluate: exception although every requested value is finite"
        return check_batch(spaces, batches, fresh)
    ret = r.int()
    batches = read_batches(r)
    got, first, sorted_flag = read_steps(r)
    if not fresh:
        if ret != 0 or batches:
            return "evaluate: nothing new to evaluate but the callback was called / true returned"
        if sorted((g, v) for g, _, v in got) != sorted(steps):
            return "evaluate: steps changed although nothing was evaluated"
        return None
    if any(not math.isfinite(f(g)) for g in fresh):
        return "nonfinite-accepted: evaluate accepted a non-finite value without an exception"
    why = check_batch(spaces, batches, fresh)
    if why:
        return why
    if ret != 1:
        return "evaluate: new points evaluated but false returned"
    want = sorted(steps + [(g, f(g)) for g in fresh])
    if sorted((g, v) for g, _, v in got) != want:
        return "evaluate: returned steps are not the old steps plus the new evaluations"
    for g, p, v in got:
        if [vals[k] for (_, vals), k in zip(spaces, g)] != p:
            return f"evaluate: step {g} carries parameter values {p} that are not its grid values"
    if sorted_flag != 1:
        return "unsorted: evaluate returned steps that are not sorted by value"
    return None


def check_batch(spaces, batches, fresh):
    if len(batches) != 1:
        return f"evaluate: callback called {len(batches)} times"
    dec = [decode(spaces, p) for p in batches[0]]
    if any(g is None for g in dec):
        return "off-grid: the callback received a value that is not a grid value"
    if sorted(dec) != sorted(fresh):
        return f"evaluate: callback batch {dec} differs from the not yet evaluated points {fresh}"
    return None


def oracle_run(t, r, head):
    t.s(); max_evals = t.int()
    spaces = read_spaces(t); f = read_landscape(t)
    d = len(spaces)
    thrown = head == "throw"
    if thrown:
        r.s()
    batches = read_batches(r)
    if d == 0:   # "at least one parameter space is needed": the tuner refuses before any evaluation
        return None if thrown and not batches else "no-spaces: the tuner accepted an empty list of parameter spaces"
    seen = []
    for bi, b in enumerate(batches):
        if not b:
            return "callback called with an empty batch"
        for p in b:
            g = decode(spaces, p)
            if g is None:
                return f"off-grid: the callback received {p}, not a point of the grids"
            if g in seen:
                return f"duplicate: grid point {g} evaluated twice"
            seen.append(g)
    if len(seen) > max_evals + 3 ** d:
        return f"budget: {len(seen)} evaluations > max_evals {max_evals} + 3^{d}"
    bad = [bi for bi, b in enumerate(batches) if any(not math.isfinite(f(decode(spaces, p))) for p in b)]
    if thrown:
        if not bad:
            m = max([abs(f(g)) for g in seen] + [0.0])
            return f"throws-on-finite: exception although every evaluated value is finite (max |value| = {m:.3e})"
        if bad[0] != len(batches) - 1:
            return "nonfinite-accepted: a non-finite value was accepted (more batches followed it)"
        return None
    if bad:
        return "nonfinite-accepted: a non-finite value was accepted without an exception"
    steps, first, sorted_flag = read_steps(r)
    if sorted(g for g, _, _ in steps) != sorted(seen):
        return "returned steps are not exactly the evaluated points"
    for g, p, v in steps:
        if not feq(v, f(g)):
            return f"step {g} reports value {v}, the callback returned {f(g)}"
        if [vals[k] for (_, vals), k in zip(spaces, g)] != p:
            return f"step {g} carries parameter values that are not its grid values"
    if sorted_flag != 1:
        return "unsorted: returned steps are not sorted by value"
    if not steps:
        return "no step returned"
    best = min(f(g) for g in seen)
    if first not in seen or f(first) != best:
        return f"first-not-min: first step {first} has value {f(first) if first in seen else None}, minimum observed is {best}"
    return None


def percentile(sorted_vals, p):
    pos = p * (len(sorted_vals) - 1) / 100.0
    lo, hi = math.floor(pos), math.ceil(pos)
    return sorted_vals[lo] if lo == hi else (sorted_vals[lo] + sorted_vals[hi]) / 2


def read_slot(r):
    return [r.s() for _ in range(18)]


def oracle_tune(t, r, head, aug):
    t.s(); t.int()
    folds = t.int(); t.int(); t.int(); nsamples = t.int()
    spaces = read_spaces(t)
    A, B, C, D, E = [t.int() for _ in range(5)]
    table = t.fs()
    assert t.s() == "|"
    nf = t.int()
    splits = [(t.ints(), t.ints()) for _ in range(nf)]
    if nf != folds:
        return f"splitter produced {nf} folds, {folds} requested"
    payload = {}
    for _ in range(t.int()):
        gi = t.int(); fo = t.int(); payload[(gi, fo)] = [t.s() for _ in range(18)]
    sizes = [len(v) for _, v in spaces]
    total = 1
    for n in sizes:
        total *= n

    def entry(gi, fo, split, kind, sid):
        return table[(A * gi + B * fo + C * split + D * kind + E * sid) % len(table)]

    thrown = head == "throw"
    if thrown:
        r.s()
    assert r.s() == "calls"
    calls = [(r.int(), r.int(), r.int()) for _ in range(r.int())]
    for gi, fo, closest in calls:
        if gi < 0 or gi >= total:
            return "off-grid: the model callback received hyper-parameter values that are not grid values"
        if fo < 0:
            return "wrong-fold-indices: the model callback received sample indices that are no fold of the splitter"
    pairs = [(gi, fo) for gi, fo, _ in calls]
    if len(set(pairs)) != len(pairs):
        dup = [p for p in pairs if pairs.count(p) > 1][0]
        return f"called-twice: (trial at grid point {dup[0]}, fold {dup[1]}) evaluated more than once"

    def value_of(gi):
        s = 0.0
        for fo in range(folds):
            vd = splits[fo][1]
            s += math.fsum(entry(gi, fo, 1, 0, sid) for sid in vd) / len(vd)
        return s / folds

    if thrown:
        gis = sorted({gi for gi, _, _ in calls})
        if all(math.isfinite(value_of(gi)) for gi in gis):
            return "throws-on-finite: ml::tune threw although every trial value is finite"
        return None
    assert r.s() == "trials"; trials = r.int()
    assert r.s() == "folds"; rfolds = r.int()
    assert r.s() == "optimum"; optimum = r.int()
    if rfolds != folds:
        return "result has the wrong number of folds"
    trial_gi, values = [], []
    for trial in range(trials):
        p = r.fs()
        g = decode(spaces, p)
        if g is None:
            return "off-grid: a trial's hyper-parameter values are not grid values"
        gi = 0
        for k, n in zip(g, sizes):
            gi = gi * n + k
        if gi in trial_gi:
            return f"duplicate: grid point {gi} is tried twice"
        trial_gi.append(gi)
        value = r.f()
        means = []
        for fo in range(folds):
            slot = read_slot(r)
            extra = r.int()
            if (gi, fo) not in pairs:
                return f"never-called: (trial {trial}, fold {fo}) was not evaluated"
            if slot != payload[(gi, fo)]:
                return f"wrong-slot: statistics stored for (trial {trial}, fold {fo}) are not those of the tensors returned for it"
            if extra != gi * 1000 + fo:
                return f"wrong-slot: model data stored for (trial {trial}, fold {fo}) is {extra}"
            # the payload itself, recomputed from the definition (mean, count, percentiles of the validation errors)
            vd = sorted(entry(gi, fo, 1, 0, sid) for sid in splits[fo][1])
            tr_n = len(splits[fo][0])
            mean = math.fsum(vd) / len(vd)
            got = [h2f(x) for x in slot]
            if not vlib.close(got[0], mean, 1e-12, 1e-300) or got[2] != len(vd):
                return f"stats: mean/count of (trial {trial}, fold {fo}) = {got[0]}/{got[2]}, definition gives {mean}/{len(vd)}"
            for k, pc in enumerate((1, 5, 10, 20, 50, 80, 90, 95, 99)):
                if not feq(got[3 + k], percentile(vd, float(pc))):
                    return f"stats: percentile {pc} of (trial {trial}, fold {fo}) = {got[3 + k]}, definition gives {percentile(vd, float(pc))}"
            if got[13] != len(vd) or got[15] != tr_n or got[17] != tr_n:
                return "stats: wrong counts"
            means.append(got[0])
        s = 0.0
        for m in means:
            s += m
        want = s / folds
        if not (vlib.close(value, want, 1e-12, 1e-300)):
            return f"value: trial {trial} reports {value}, the mean validation error across folds is {want}"
        values.append(value)
    if sorted(pairs) != sorted((gi, fo) for gi in trial_gi for fo in range(folds)):
        return "calls-mismatch: the set of (trial, fold) calls is not trials x folds"
    ids = {gi * 1000 + fo for gi in trial_gi for fo in range(folds)}
    for gi, fo, closest in calls:
        if closest != -1 and (closest not in ids or closest % 1000 != fo or closest // 1000 == gi):
            return f"closest: call (grid point {gi}, fold {fo}) received model data {closest} of another fold / of no earlier trial"
    if not values or any(v != v for v in values):
        return None if trials == 1 else "nan value accepted"
    best = min(values)
    if optimum != values.index(best):
        return f"optimum-not-argmin: optimum trial {optimum} (value {values[optimum] if 0 <= optimum < trials else None}), smallest mean validation error {best} at trial {values.index(best)}"
    return None


# ---------------------------------------------------------------------------------------------------------

def grid_total(op):
    t = Toks(op); t.s(); o = t.s()
    if o == "run":
        t.s(); t.int()
    elif o == "tune":
        t.s()
        for _ in range(5):
            t.int()
    else:
        return None
    total = 1
    for _, v in read_spaces(t):
        total *= len(v)
    return total


def nontrivial(op):
    o = op.split()[1]
    if o == "lsearch":
        return True
    if o == "evaluate":
        return True
    return grid_total(op) >= 5


def distribution(ops):
    d = {}
    for op in ops:
        t = op.split()
        k = t[1]
        if k in ("run", "tune"):
            k += "/" + t[2]
            if t[1] == "run":
                tt = Toks(op); tt.s(); tt.s(); tt.s(); tt.int()
                k += f"/d{len(read_spaces(tt))}/{tt.s()}"
        d[k] = d.get(k, 0) + 1
    return d


def classify(op, kind, detail):
    t = op.split()
    base = t[1] if len(t) > 1 else "?"
    if base in ("run", "tune") and len(t) > 2:
        base += ":" + t[2]
    if kind == "oracle":
        key = base + ":" + detail.split(":")[0].split(" ")[0]
        if key == "run:surrogate:throws-on-finite" and "max |value| = " in detail:
            # KNOWN_FINDINGS: only the overflow of the surrogate fit on values of magnitude >= 1e150 is a known finding
            if float(detail.split("max |value| = ")[1].split(")")[0]) >= 1e150:
                key += ":magnitude>=1e150"
        return key
    return base


def shrink_candidates(op):
    """smaller variants of a failing run/tune op: lower max_evals"""
    t = op.split()
    out = []
    if len(t) > 3 and t[1] in ("run", "tune"):
        me = int(t[3])
        for m in (10, (me + 10) // 2):
            if 10 <= m < me:
                out.append(" ".join(t[:3] + [str(m)] + t[4:]))
    return out
