"""C13 — tuning evaluates grid points once and reports the true best trial (DESIGN.md §4 C13)."""
import itertools, math, os
import vlib
from vlib import Toks, lst, f2h, h2f
from props import c13_translate

ID = "C13"
LEVEL = "proof"
HARNESS = "c13"
LEAN_MODULES = ["NanoVerif.Props.C13"]   # imports Proofs/TunerGenWalkLen, TunerGenWalk, TunerGen (Gen/TunerSpace)
NS = "NanoVerif.C13."
OBLIGATIONS = [NS + t for t in [
    # building blocks
    "localSearch_inGrid", "localSearch_nodup", "localSearch_length_le", "mergeSort_sortSpec", "hintedSort_sortSpec",
    "evaluate_nodup", "nonfinite_rejected_evaluate",
    # tuner_t::optimize, both tuners: every callback, every SortSpec, every surrogate oracle
    "steps_in_grid", "steps_params_on_grid", "steps_nodup", "steps_budget", "steps_sorted_first_min", "steps_true_values",
    "steps_perm_trace", "trace_in_grid", "trace_nodup", "trace_budget", "nonfinite_rejected", "optimize_terminates",
    # ml::tune / ml::result_t
    "decode_bijective", "slots_disjoint", "tune_calls_once", "batch_slots", "batch_keeps_old", "optimum_is_argmin",
    # the quadratic surrogate: feature map, fit objective (mse), fitted quadratic — gradient = derivative, convexity
    "fit_expand", "fit_rows_same_length", "fit_above_tangent", "fit_convex", "fit_stationary_is_min", "fit_grad_is_deriv",
    "quad_expand", "quad_stationary_is_min", "quad_is_fit_output", "quad_grad_is_deriv", "quadDim_quadLen", "quadSize_le",
    # param_space_t and the centre the surrogate tuner derives from the minimiser (oracle = the two solver runs only)
    "closest_point_optimal", "closest_roundtrip", "space_make_spec", "toSurrogate_none_iff", "toSurrogate_linear",
    "toSurrogate_linear_strictMono", "fromSurrogate_mem", "fromSurrogate_toSurrogate_linear", "sgrid_isSome",
    "closestGridPoint_roundtrip_linear", "centreOf_inGrid", "surrogate_step_centre",
    "toSurrogate_log10_strictMono", "fromSurrogate_toSurrogate_log10", "closestGridPoint_roundtrip_log10",
    # warm starts (result_t::closest_trial as ml::tune calls it), order of the returned steps
    "closestTrial_frame", "closestTrial_lt", "closestTrial_zero", "closestTrial_nearest", "tune_reads_only_earlier",
    "step_order_strict_weak",
]] + ["NanoVerif.Tuner." + t for t in [
    # translation round: the model text IS the text regenerated from /repo (Gen/TunerSpace.lean, c13_translate.py)
    "model_make_is_generated", "model_toSurrogate_is_generated", "model_fromSurrogate_is_generated", "model_closestScan_is_generated",
    "model_closestGridPoint_is_generated", "model_closestGridValue_is_generated",
    "model_minOf_is_generated", "model_maxOf_is_generated", "model_avgOf_is_generated",
    "model_evaluate_is_generated", "model_combos_is_generated", "model_addScaled_is_generated", "model_inGrid_is_generated",
    "model_tunerOptimize_is_generated", "model_optimize_is_generated", "model_step_coarse_is_generated", "model_step_main_is_generated", "surrogate_header_is_local",
    "model_quadLen_is_generated", "model_quadDim_is_generated", "model_quadSize_is_generated",
    "model_featPairIdx_is_generated", "model_gradPairIdx_is_generated", "model_valuePairIdx_is_generated",
    "model_quadTerms_is_generated", "model_quadValue_is_generated", "model_quadGrad_is_generated",
    "walk_eq_zip", "model_quadValue_is_generated_walk", "model_quadGrad_is_generated_walk",
    "two_mul_pairIdx_length", "model_quadValue_walk_of_assert", "model_quadGrad_walk_of_assert",
    "model_trialValue_is_generated", "model_optimumTrial_is_generated", "model_closestTrial_is_generated", "model_threadCallback_is_generated",
    "model_tune_counts_is_generated",
]]


def translate():
    """Gen/TunerSpace.lean: param_space_t (criticals, maps, arg-min loop), igrid helpers, local_search arithmetic, the three loop headers, the
    surrogate's index walks, result_t's arg-min scans, the index arithmetic of ml::tune's thread_callback"""
    return c13_translate.translate()

TRUSTED = [
    "Lean 4.33.0 kernel; Mathlib modules imported by NanoVerif/Proofs/Tuner*.lean and NanoVerif/Props/C13.lean",
    "axioms: at most propext, Classical.choice, Quot.sound (audited per theorem on every run)",
    "hand-written models NanoVerif/Model/Tuner.lean (tuner.cpp, tuner/util.cpp, tuner/local.cpp, control skeleton of "
    "tuner/surrogate.cpp, combinatorial.h), NanoVerif/Model/TunerSurrogate.lean (tuner/space.cpp, the two functions of "
    "tuner/surrogate.cpp and the derivation of the proposed centre) and NanoVerif/Model/Tune.lean (machine/tune.cpp, "
    "machine/result.cpp); tied to the code by the correspondence run (harness/c13.cpp on the real library vs the compiled Lean "
    "driver: exact comparison, except the fit objective whose Eigen products are compared to 1e-12 of the summed magnitudes)",
    "hooks: solver.done (final state of every L-BFGS run inside the surrogate tuner), pool hook H1 map_enter (batches of ml::tune)",
    "Float.log10 / Float.pow of the Lean runtime and std::log10 / std::pow call the same libm",
    "std::sort returns a sorted permutation (SortSpec); pool_t::map runs every index exactly once (= C17)",
    "tools/props/c13.py generator + direct monitors; harness/c13.cpp; g++/libstdc++/Eigen",
    "tools/props/c13_translate.py: the translator of the param_space_t constructor's criticals, param_space_t::to_surrogate / from_surrogate / closest_grid_point_from_surrogate / "
    "closest_grid_value_from_surrogate, the arithmetic of nano::local_search, the loop headers of tuner_t::optimize and both do_optimize, "
    "the number-of-coefficients formulas and the loop nests / per-pair updates of the quadratic surrogate, make_min/max/avg_igrid, "
    "the arg-min loops of result_t::optimum_trial / closest_trial and the index arithmetic of ml::tune's thread_callback into Gen/TunerSpace.lean "
    "(reads `for` nests as the list of index pairs in iteration order; the `k++` walk is checked syntactically: one coefficient per pair); "
    "Proofs/TunerGen.lean proves the hand-written model text equal to it for every scalar type",
]
ASSUMPTIONS = [
    "the two L-BFGS runs of a surrogate iteration (fit of the quadratic, minimisation of the fitted quadratic) are the oracle "
    "Tuner.Solver (any answer or a failure; the theorems hold for every such oracle); what is handed to them and how the centre is "
    "derived from the minimiser is modelled; run-time monitors (python oracle, every `run surrogate` case): a run reported "
    "converged ends at a point meeting the stopping criterion for the function as defined, valid states are finite, the next "
    "batch is the neighbourhood of the first closest grid point of the logged minimiser",
    "the callback returns exactly one value per requested row (the harness callback does)",
    "percentiles / standard deviation of ml::store_stats are not modelled here (C20): the model treats the 12 numbers of a "
    "(trial, fold) as an opaque payload handed over by the harness; the python oracle recomputes mean, count and percentiles",
    "the closest previous trial is read from the state before the batch (identical to the code whenever old_trials > 0 or the "
    "batch has one trial; the first batch of both tuners has one trial)",
    "thread interleavings of ml::tune are those the OS produced during the runs (the theorem covers every order of the indices)",
]
RULE = ("function level: local_search for every source point of small boxes (d <= 2) with radii 0..3 and random boxes with d <= 5; "
        "evaluate on random (also unsorted, also tied) step lists; run level: both tuners on 1..3 grids of 2..31 values "
        "(linear and log10), max_evals 10..1000, landscapes as lookup tables: injective, separable bowls, corner minima, plateaus, "
        "hashed (many ties), constant, with nan/inf entries; ml::tune with 0..2 grids, 2..10 folds, both tuners, per-sample "
        "tensors from a lookup table (closest earlier trial checked against the batches observed at the pool); function level: "
        "param_space_t (valid and refused grids; queries on grid values, surrogate coordinates of grid points, mid-points, outside the "
        "range, 1e88, inf, nan), quadratic_surrogate_fit_t and quadratic_surrogate_t value/gradient on random data (d <= 4, <= 40 "
        "samples, also run-away points ~1e80) against exact rational arithmetic; a run/tune case is non-trivial when the grid has at least 5 points (then at least 3 batches "
        "are requested and the centre is proposed again and filtered); distinct by op text")
FLAVOUR = {"quick": "plain", "thorough": "asan"}
HARNESS_TIMEOUT = 1500
# ml::tune opens one log file per (trial, fold) under std::filesystem::temp_directory_path(): keep them out of /tmp
# (the harness works in a private sub-directory of TMPDIR and removes it)
_TMP = os.path.join(vlib.CACHE, "tmp-c13")
os.makedirs(_TMP, exist_ok=True)
HARNESS_ENV = {"TMPDIR": _TMP}
DBL_MAX = 1.7976931348623157e308


# ---------------------------------------------------------------------------------------------------------
# op construction

def fl(xs):
    return lst(xs, f2h)


def spaces_str(spaces):
    return f"{len(spaces)}" + "".join(f" {t} {fl(v)}" for t, v in spaces)


def land_lin(a, table):
    return f"lin {lst(a)} {fl(table)}"


def land_sep(tabs):
    return f"sep {len(tabs)} " + " ".join(fl(t) for t in tabs)


def strides(sizes):
    s, acc = [], 1
    for n in reversed(sizes):
        s.append(acc); acc *= n
    return list(reversed(s))


def gen_space(rng, n):
    """sorted distinct grid values; log10 spaces need strictly positive values"""
    kind = rng.below(4)
    if kind == 0:      # small integers (exact arithmetic, symmetric distances)
        start = rng.range(-3, 3)
        return 1, [float(start + k) for k in range(n)]
    if kind == 1:      # log10 grid
        lo = rng.range(-6, 0)
        return 0, sorted({10.0 ** (lo + 0.25 * k) for k in range(n)})
    if kind == 2:      # random reals
        vals = set()
        while len(vals) < n:
            vals.add(rng.uniform(-10.0, 10.0))
        return 1, sorted(vals)
    vals = set()       # dyadic
    while len(vals) < n:
        vals.add(rng.range(-64, 64) / 8.0)
    return 1, sorted(vals)


def pick_size(rng):
    r = rng.below(10)
    if r < 2:
        return 2
    if r < 3:
        return 31
    if r < 4:
        return 3
    return rng.range(2, 31)


def distinct_values(rng, n, lo=-100.0, hi=100.0):
    vals = set()
    while len(vals) < n:
        vals.add(rng.uniform(lo, hi))
    return rng.shuffle(sorted(vals))


def gen_landscape(rng, sizes, kind):
    d = len(sizes)
    total = 1
    for n in sizes:
        total *= n
    if kind == "inj":
        if total <= 1200:
            return land_lin(strides(sizes), distinct_values(rng, total))
        return land_sep([distinct_values(rng, n) for n in sizes])
    if kind == "bowl":       # separable convex bowl, centre anywhere (also outside the grid: corner minimum)
        tabs = []
        for n in sizes:
            c = rng.range(-2, n + 1) if rng.chance(0.5) else rng.uniform(-1.0, n)
            w = rng.choice([0.5, 1.0, 2.0, 3.0])
            tabs.append([w * (g - c) * (g - c) for g in range(n)])
        return land_sep(tabs)
    if kind == "corner":     # monotone in every coordinate: the minimum sits in a corner
        tabs = []
        for n in sizes:
            t = sorted(distinct_values(rng, n))
            tabs.append(t if rng.chance(0.5) else list(reversed(t)))
        return land_sep(tabs)
    if kind == "plateau":    # few distinct values
        levels = [float(v) for v in range(rng.range(1, 3))]
        if total <= 1200:
            return land_lin(strides(sizes), [rng.choice(levels) for _ in range(total)])
        return land_sep([[rng.choice(levels) for _ in range(n)] for n in sizes])
    if kind == "hash":       # hashed table: many exact ties scattered over the grid
        n = rng.choice([5, 7, 11, 17, 29])
        return land_lin([rng.range(1, 40) for _ in range(d)], distinct_values(rng, n))
    if kind == "const":
        return land_lin([0] * d, [rng.uniform(-5.0, 5.0)])
    if kind == "nonfinite":  # some entries are nan / +-inf
        n = rng.choice([7, 11, 17, 29, 61])
        t = distinct_values(rng, n)
        for _ in range(rng.range(1, 3)):
            t[rng.below(n)] = rng.choice([float("nan"), float("inf"), float("-inf")])
        return land_lin([rng.range(1, 40) for _ in range(d)], t)
    if kind == "extreme":    # finite, tiny up to large magnitudes (below 1e150)
        n = rng.choice([7, 11, 17])
        t = [rng.choice([1.0, -1.0]) * 10.0 ** rng.range(-300, 149) for _ in range(n)]
        return land_lin([rng.range(1, 40) for _ in range(d)], t)
    if kind == "huge":       # finite, magnitudes 1e150 .. 1e300 (KNOWN_FINDINGS: the surrogate fit overflows)
        n = rng.choice([7, 11, 17])
        t = [rng.choice([1.0, -1.0]) * rng.uniform(1.0, 9.0) * 10.0 ** rng.range(150, 300) for _ in range(n)]
        return land_lin([rng.range(1, 40) for _ in range(d)], t)
    raise ValueError(kind)


def gen_run(rng, tuner=None, kind=None, d=None, max_evals=None, sizes=None):
    tuner = tuner or rng.choice(["local-search", "surrogate"])
    d = d or rng.choice([1, 1, 2, 2, 3])
    sizes = sizes or [pick_size(rng) for _ in range(d)]
    spaces = [gen_space(rng, n) for n in sizes]
    sizes = [len(v) for _, v in spaces]
    if max_evals is None:
        max_evals = rng.choice([10, 10, 10, 11, 20, 37, 100]) if tuner == "surrogate" else \
            rng.choice([10, 10, 11, 20, 37, 100, 100, 333, 1000])
    kind = kind or rng.choice(["inj", "inj", "inj", "bowl", "bowl", "corner", "plateau", "hash", "const", "nonfinite"])
    return f"tuner run {tuner} {max_evals} {spaces_str(spaces)} {gen_landscape(rng, sizes, kind)}"


def gen_evaluate(rng):
    d = rng.range(1, 3)
    sizes = [rng.range(2, 6) for _ in range(d)]
    spaces = [gen_space(rng, n) for n in sizes]
    sizes = [len(v) for _, v in spaces]
    kind = rng.choice(["inj", "plateau", "hash", "nonfinite", "bowl"])
    land = gen_landscape(rng, sizes, kind)
    allpts = list(itertools.product(*[range(n) for n in sizes]))
    nsteps = rng.range(0, min(len(allpts), 8))
    pts = rng.shuffle(allpts)[:nsteps]
    vals = [float(rng.range(-3, 3)) if rng.chance(0.5) else rng.uniform(-9.0, 9.0) for _ in pts]
    if rng.chance(0.7):      # the invariant of the tuners: steps sorted by value
        order = sorted(range(len(pts)), key=lambda i: vals[i])
        pts = [pts[i] for i in order]; vals = [vals[i] for i in order]
    k = rng.range(0, 9)
    igrids = []
    for _ in range(k):
        r = rng.below(10)
        if r < 3 and pts:
            igrids.append(rng.choice(pts))           # already evaluated
        elif r < 4 and igrids:
            igrids.append(rng.choice(igrids))        # proposed twice in the same batch
        else:
            igrids.append(rng.choice(allpts))
    steps = f"{len(pts)}" + "".join(f" {lst(p)} {f2h(v)}" for p, v in zip(pts, vals))
    return f"tuner evaluate {spaces_str(spaces)} {land} {steps} {len(igrids)}" + "".join(f" {lst(g)}" for g in igrids)


def gen_tune(rng, tuner=None):
    tuner = tuner or rng.choice(["local-search", "surrogate"])
    d = rng.choice([0, 1, 1, 2, 2])
    while True:
        sizes = [rng.range(2, 9) for _ in range(d)]
        total = 1
        for n in sizes:
            total *= n
        if total <= 36:
            break
    spaces = [gen_space(rng, n) for n in sizes]
    folds = rng.choice([2, 2, 3, 4, 5, 7, 10])
    nsamples = rng.range(folds, 40)
    n = rng.choice([13, 31, 64, 101])
    table = [float(rng.range(0, 9)) / 4.0 if rng.chance(0.3) else rng.uniform(0.0, 5.0) for _ in range(n)]
    if rng.chance(0.06):
        table[rng.below(n)] = float("inf")   # (no nan: std::nth_element needs a strict weak order, percentiles are C20)
    A, B, C, D, E = [rng.range(1, 97) for _ in range(5)]
    return (f"tuner tune {tuner} {rng.choice([10, 10, 12, 20, 33])} {folds} {rng.range(0, 1024)} {rng.range(0, 50)} {nsamples} "
            f"{spaces_str(spaces)} {A} {B} {C} {D} {E} {fl(table)}")


EPS = 2.220446049250313e-16


def to_sur(ty, vals, v):
    """param_space_t::to_surrogate as the documentation states it (linear: position within [min, max]; log10)"""
    if ty == 1:
        return (v - vals[0]) / (vals[-1] - vals[0])
    return math.log10(v)


def gen_space_op(rng):
    n = pick_size(rng)
    ty, vals = gen_space(rng, n)
    r = rng.below(12)
    if r == 0:
        vals = vals[:1]                                   # a single value
    elif r == 1 and len(vals) > 2:
        i = rng.below(len(vals) - 1); vals[i], vals[i + 1] = vals[i + 1], vals[i]   # not sorted
    elif r == 2:
        i = rng.below(len(vals) - 1); vals[i + 1] = vals[i]                            # not distinct
    elif r == 3:
        ty = 0; vals = [rng.choice([0.0, -1.0, 1e-17, EPS / 2, EPS])] + [1.0 + k for k in range(n - 1)]  # log10 of <= 0
    qs = []
    ok = len(vals) >= 2 and all(a < b for a, b in zip(vals, vals[1:])) and (ty == 1 or vals[0] >= EPS)
    if ok:
        sg = [to_sur(ty, vals, v) for v in vals]
        for _ in range(rng.range(3, 12)):
            k = rng.below(len(vals))
            c = rng.below(9)
            if c == 0:
                qs.append(vals[k])                                   # a grid value (to_surrogate on the grid)
            elif c == 1:
                qs.append(sg[k])                                     # the surrogate coordinate of a grid point: round trip
            elif c == 2 and k + 1 < len(vals):
                qs.append((sg[k] + sg[k + 1]) / 2)                   # half way between two grid points (ties)
            elif c == 3:
                qs.append(rng.choice([1e88, -1e88, 5.2e300, float("inf"), float("-inf"), float("nan"), 0.0, 1.0]))
            elif c == 4:
                qs.append(rng.uniform(vals[0], vals[-1]))            # inside the range of values
            elif c == 5:
                qs.append(rng.choice([vals[0] - 1e-9, vals[-1] + 1e-9, vals[0], vals[-1]]))
            else:
                lo, hi = min(sg), max(sg)
                qs.append(rng.uniform(lo - 0.5 * (hi - lo), hi + 0.5 * (hi - lo)))
    else:
        qs = [rng.uniform(-1.0, 2.0) for _ in range(2)]
    return f"tuner space {ty} {fl(vals)} {fl(qs)}"


def gen_sfit(rng):
    d = rng.choice([1, 1, 2, 2, 3])
    n = rng.choice([1, 2, 3, 5, 8, 13, 21, 40])
    c = rng.below(3)
    if c == 0:
        ps = [rng.range(0, 8) / 8.0 for _ in range(n * d)]          # dyadic surrogate coordinates (exact arithmetic)
    elif c == 1:
        ps = [rng.uniform(0.0, 1.0) for _ in range(n * d)]
    else:
        ps = [rng.uniform(-6.0, 0.0) for _ in range(n * d)]         # log10 coordinates
    ys = [rng.uniform(-5.0, 5.0) * rng.choice([1.0, 1.0, 1e3, 1e-3]) for _ in range(n)]
    m = (d + 1) * (d + 2) // 2
    x = [0.0] * m if rng.chance(0.15) else [rng.uniform(-3.0, 3.0) for _ in range(m)]
    return f"tuner sfit {n} {d} {fl(ps)} {fl(ys)} {fl(x)}"


def gen_squad(rng):
    d = rng.choice([1, 1, 2, 2, 3, 4])
    m = (d + 1) * (d + 2) // 2
    model = [rng.uniform(-40.0, 40.0) if rng.chance(0.8) else float(rng.range(-3, 3)) for _ in range(m)]
    c = rng.below(6)
    if c == 0:
        x = [rng.choice([1.0, -1.0]) * rng.uniform(1.0, 9.0) * 10.0 ** rng.range(60, 90) for _ in range(d)]   # run-away iterates
    elif c == 1:
        x = [0.0] * d
    else:
        x = [rng.uniform(-2.0, 3.0) for _ in range(d)]
    return f"tuner squad {fl(model)} {fl(x)}"


def gen(rng, tier):
    ops = []
    cp = os.path.join(vlib.VERIF, "corpus", "C13", "ops.txt")
    if os.path.exists(cp):
        ops += [l.strip() for l in open(cp) if l.strip() and not l.startswith("#")]
    big = tier == "thorough"
    # local_search: every source point of small boxes, radii 0..3
    for d in (1, 2):
        for mx in itertools.product(range(0, 4 if d == 1 else 3), repeat=d):
            for src in itertools.product(*[range(-1, m + 2) for m in mx]):
                for r in (0, 1, 2, 3):
                    ops.append(f"tuner lsearch {lst([0] * d)} {lst(mx)} {lst(src)} {r}")
    for _ in range(1500 if big else 300):
        d = rng.range(1, 5)
        mn = [rng.range(-3, 3) for _ in range(d)]
        mx = [m + rng.range(0, 31) for m in mn]
        src = [rng.range(a - 2, b + 2) for a, b in zip(mn, mx)]
        ops.append(f"tuner lsearch {lst(mn)} {lst(mx)} {lst(src)} {rng.choice([1, 1, 2, 4, 8, 16, 32, 64, rng.range(0, 40)])}")
    for _ in range(9000 if big else 1500):
        ops.append(gen_evaluate(rng))
    # boundary cases of the run level first: grids of 2 and 31 values, max_evals 10
    for tuner in ("local-search", "surrogate"):
        for sizes in ([2], [31], [2, 2], [2, 31], [31, 31], [2, 2, 2], [3, 3, 3]):
            for kind in ("inj", "plateau", "corner", "const"):
                ops.append(gen_run(rng, tuner=tuner, kind=kind, d=len(sizes), sizes=sizes, max_evals=10))
    ops.append(gen_run(rng, tuner="local-search", kind="inj", d=3, sizes=[31, 31, 31], max_evals=1000))
    ops.append(gen_run(rng, tuner="local-search", kind="bowl", d=3, sizes=[31, 31, 31], max_evals=1000))
    for _ in range(8000 if big else 1300):
        ops.append(gen_run(rng))
    for _ in range(120 if big else 20):
        ops.append(gen_run(rng, kind="extreme"))
    for _ in range(40 if big else 6):
        ops.append(gen_run(rng, kind="huge", max_evals=rng.choice([10, 20])))
    for _ in range(3000 if big else 450):
        ops.append(gen_tune(rng))
    for _ in range(3000 if big else 400):
        ops.append(gen_space_op(rng))
    for _ in range(2000 if big else 300):
        ops.append(gen_sfit(rng))
    for _ in range(2000 if big else 300):
        ops.append(gen_squad(rng))
    return ops


# ---------------------------------------------------------------------------------------------------------
# parsing (independent of the harness and of the Lean driver)

def read_spaces(t):
    d = t.int()
    out = []
    for _ in range(d):
        ty = t.int(); out.append((ty, t.fs()))
    return out


def read_landscape(t):
    kind = t.s()
    if kind == "lin":
        a = t.ints(); table = t.fs()
        return lambda g: table[sum(x * y for x, y in zip(a, g)) % len(table)]
    d = t.int()
    tabs = [t.fs() for _ in range(d)]

    def f(g):
        v = None
        for i, gi in enumerate(g):
            x = tabs[i][gi % len(tabs[i])]
            v = x if v is None else v + x
        return v
    return f


def feq(a, b):
    return (a != a and b != b) or a == b


def decode(spaces, params):
    """grid index of every hyper-parameter value, None when a value is not on its grid"""
    g = []
    for (_, vals), p in zip(spaces, params):
        hit = [k for k, v in enumerate(vals) if v == p]
        if len(hit) != 1:
            return None
        g.append(hit[0])
    return tuple(g)


def read_batches(r):
    nb = r.int()
    batches = []
    for _ in range(nb):
        k = r.int(); d = r.int()
        batches.append([[r.f() for _ in range(d)] for _ in range(k)])
    return batches


def read_steps(r):
    assert r.s() == "steps"
    n = r.int()
    steps = []
    for _ in range(n):
        g = tuple(r.ints()); p = r.fs(); v = r.f()
        steps.append((g, p, v))
    assert r.s() == "first"
    first = tuple(r.ints())
    assert r.s() == "sorted"
    return steps, first, r.int()


def neighbourhood(mn, mx, src, radius):
    out = []
    for off in itertools.product((-1, 0, 1), repeat=len(src)):
        g = tuple(s + o * radius for s, o in zip(src, off))
        if all(a <= x <= b for a, x, b in zip(mn, g, mx)):
            out.append(g)
    return out


# ---------------------------------------------------------------------------------------------------------
# the property oracle: direct monitors of the statement of C13 on the implementation's answer

def oracle(aug, res):
    t = Toks(aug); t.s(); op = t.s()
    r = Toks(res)
    head = r.s()
    if head == "bad-op":
        return f"harness rejected the op: {res[:100]}"
    if op == "lsearch":
        mn, mx, src, radius = t.ints(), t.ints(), t.ints(), t.int()
        if head != "ok":
            return f"local_search failed: {res[:80]}"
        got = [tuple(r.ints()) for _ in range(r.int())]
        want = neighbourhood(mn, mx, src, radius)
        if sorted(got) != sorted(want):
            return f"local_search: {got} is not the clipped neighbourhood {want}"
        return None
    if op == "evaluate":
        return oracle_evaluate(t, r, head)
    if op == "run":
        return oracle_run(t, r, head)
    if op == "tune":
        return oracle_tune(t, r, head, aug)
    if op == "space":
        return oracle_space(t, r, head)
    if op == "sfit":
        return oracle_sfit(t, r, head)
    if op == "squad":
        return oracle_squad(t, r, head)
    return f"unknown op {op}"


def oracle_evaluate(t, r, head):
    spaces = read_spaces(t); f = read_landscape(t)
    steps = []
    for _ in range(t.int()):
        g = tuple(t.ints()); steps.append((g, t.f()))
    igrids = [tuple(t.ints()) for _ in range(t.int())]
    done = {g for g, _ in steps}
    fresh = [g for g in igrids if g not in done]
    if head == "throw":
        r.s()
        batches = read_batches(r)
        if not any(not math.isfinite(f(g)) for g in fresh):
            return "evaluate: exception although every requested value is finite"
        return check_batch(spaces, batches, fresh)
    ret = r.int()
    batches = read_batches(r)
    got, first, sorted_flag = read_steps(r)
    if not fresh:
        if ret != 0 or batches:
            return "evaluate: nothing new to evaluate but the callback was called / true returned"
        if sorted((g, v) for g, _, v in got) != sorted(steps):
            return "evaluate: steps changed although nothing was evaluated"
        return None
    if any(not math.isfinite(f(g)) for g in fresh):
        return "nonfinite-accepted: evaluate accepted a non-finite value without an exception"
    why = check_batch(spaces, batches, fresh)
    if why:
        return why
    if ret != 1:
        return "evaluate: new points evaluated but false returned"
    want = sorted(steps + [(g, f(g)) for g in fresh])
    if sorted((g, v) for g, _, v in got) != want:
        return "evaluate: returned steps are not the old steps plus the new evaluations"
    for g, p, v in got:
        if [vals[k] for (_, vals), k in zip(spaces, g)] != p:
            return f"evaluate: step {g} carries parameter values {p} that are not its grid values"
    if sorted_flag != 1:
        return "unsorted: evaluate returned steps that are not sorted by value"
    return None


def check_batch(spaces, batches, fresh):
    if len(batches) != 1:
        return f"evaluate: callback called {len(batches)} times"
    dec = [decode(spaces, p) for p in batches[0]]
    if any(g is None for g in dec):
        return "off-grid: the callback received a value that is not a grid value"
    if sorted(dec) != sorted(fresh):
        return f"evaluate: callback batch {dec} differs from the not yet evaluated points {fresh}"
    return None


def read_solves(t):
    """the part of the augmented `run` op after the landscape: observed batches, first step, solver log"""
    assert t.s() == "|"
    for _ in range(t.int()):
        for _ in range(t.int()):
            t.ints()
    for _ in range(t.int()):
        t.ints()
    assert t.s() == "|"
    eps = t.f()
    solves = []
    for _ in range(t.int()):
        solves.append(dict(nsteps=t.int(), conv=t.int(), valid=t.int(), fx=t.f(), x0=t.fs(), x=t.fs(), gx=t.fs()))
    return eps, solves


def gradient_test(fx, g):
    """the solver's stopping criterion: |g|_inf / max(1, |f|)"""
    return max(abs(v) for v in g) / max(1, abs(fx))


def stationary(what, fx, g, sc_g, eps):
    """run-time monitor: a run that ended `converged` ended at a point that satisfies the stopping criterion for the
    function as defined (value and gradient recomputed exactly), up to the rounding of the gradient's sums"""
    slack = max(Fraction(TOL) * s for s in sc_g) / max(1, abs(fx))
    gt = gradient_test(fx, g)
    if gt >= Fraction(eps) * (1 + Fraction(1, 10 ** 6)) + slack:
        return f"{what}: the solver reports convergence, but |gradient| / max(1, |value|) = {float(gt):.3e} >= epsilon {eps:.1e}"
    return None


def check_surrogate(spaces, f, batches, eps, solves, thrown):
    """monitors of the surrogate tuner's proposals: the solver runs alternate fit / minimisation; every minimiser is
    mapped, per coordinate, to the first closest grid point (surrogate coordinates) and the next batch is that point's
    neighbourhood minus the evaluated points; converged runs end at stationary points of the functions as defined"""
    sizes = [len(v) for _, v in spaces]
    mn, mx = [0] * len(sizes), [n - 1 for n in sizes]
    sgs = [[to_sur(ty, vals, v) for v in vals] for ty, vals in spaces]
    seen, starts = [], {}
    for bi, b in enumerate(batches):
        starts[len(seen)] = bi
        seen += [decode(spaces, p) for p in b]
    for k in range(0, len(solves), 2):
        e1 = solves[k]
        e2 = solves[k + 1] if k + 1 < len(solves) else None
        n = e1["nsteps"]
        pts = seen[:n]
        if not e1["valid"]:
            if e2 is not None or not thrown:
                return "surrogate-fit-invalid: the tuner went on after a failed fit"
            continue
        if any(not math.isfinite(v) for v in e1["x"]):
            return "surrogate-fit-invalid: a state with non-finite coefficients is reported valid"
        m = [Fraction(v) for v in e1["x"]]
        d = len(spaces)
        if len(m) != (d + 1) * (d + 2) // 2:
            return f"surrogate-size: {len(m)} coefficients fitted for {d} hyper-parameters"
        if e1["conv"]:
            rows = [quad_terms([Fraction(sgs[i][gi]) for i, gi in enumerate(g)]) for g in pts]
            ys = [Fraction(f(g)) for g in pts]
            fx, g = fit_value_grad(rows, ys, m)
            _, sc = fit_value_grad([[abs(a) for a in row] for row in rows], [-abs(v) for v in ys], [abs(v) for v in m])
            why = stationary("fit-not-stationary", fx, g, sc, eps)
            if why:
                return why
        if e2 is None:
            return None if thrown else "surrogate: a fit without the minimisation that follows it"
        if e2["nsteps"] != n:
            return "surrogate: the solver runs do not alternate fit / minimisation"
        if not e2["valid"]:
            if not thrown or k + 2 < len(solves):
                return "surrogate-min-invalid: the tuner went on after a failed minimisation"
            continue
        x = e2["x"]
        if len(x) != d or any(not math.isfinite(v) for v in x):
            return "surrogate-min-invalid: a state with a non-finite point is reported valid"
        if e2["conv"]:
            fxq, gq = quad_value_grad(m, [Fraction(v) for v in x])
            _, sc = quad_value_grad([abs(v) for v in m], [abs(Fraction(v)) for v in x])
            why = stationary("minimiser-not-stationary", fxq, gq, sc, eps)
            if why:
                return why
        # the proposed centre: per coordinate the first closest grid point, decided only beyond the tolerance
        cands = []
        for i in range(d):
            ds = [abs(x[i] - g) for g in sgs[i]]
            dmin = min(ds)
            ok = [kk for kk, dd in enumerate(ds) if dd <= dmin * (1 + 1e-12) + 1e-300 and not any(ds[j] == dd for j in range(kk))]
            cands.append(ok)
        nxt = sorted(batches_decoded(spaces, batches, starts.get(n)))
        hit = False
        for centre in itertools.product(*cands):
            want = sorted(g for g in neighbourhood(mn, mx, centre, 1) if g not in pts)
            if want == nxt:
                hit = True
                break
        if not hit:
            c0 = tuple(c[0] for c in cands)
            return (f"wrong-centre: after {n} evaluations the minimiser of the surrogate is {x}, its closest grid point {c0}; "
                    f"the next batch {nxt} is not that point's neighbourhood minus the evaluated points")
    return None


def batches_decoded(spaces, batches, bi):
    return [] if bi is None else [decode(spaces, p) for p in batches[bi]]


def oracle_run(t, r, head):
    tuner = t.s(); max_evals = t.int()
    spaces = read_spaces(t); f = read_landscape(t)
    eps, solves = read_solves(t)
    d = len(spaces)
    thrown = head == "throw"
    if thrown:
        r.s()
    batches = read_batches(r)
    if d == 0:   # "at least one parameter space is needed": the tuner refuses before any evaluation
        return None if thrown and not batches else "no-spaces: the tuner accepted an empty list of parameter spaces"
    seen = []
    for bi, b in enumerate(batches):
        if not b:
            return "callback called with an empty batch"
        for p in b:
            g = decode(spaces, p)
            if g is None:
                return f"off-grid: the callback received {p}, not a point of the grids"
            if g in seen:
                return f"duplicate: grid point {g} evaluated twice"
            seen.append(g)
    if len(seen) > max_evals + 3 ** d:
        return f"budget: {len(seen)} evaluations > max_evals {max_evals} + 3^{d}"
    bad = [bi for bi, b in enumerate(batches) if any(not math.isfinite(f(decode(spaces, p))) for p in b)]
    if tuner == "surrogate" and not bad:
        why = check_surrogate(spaces, f, batches, eps, solves, thrown)
        if why:
            return why
    elif tuner != "surrogate" and solves:
        return "local-search tuner ran a solver"
    if thrown:
        if not bad:
            m = max([abs(f(g)) for g in seen] + [0.0])
            return f"throws-on-finite: exception although every evaluated value is finite (max |value| = {m:.3e})"
        if bad[0] != len(batches) - 1:
            return "nonfinite-accepted: a non-finite value was accepted (more batches followed it)"
        return None
    if bad:
        return "nonfinite-accepted: a non-finite value was accepted without an exception"
    steps, first, sorted_flag = read_steps(r)
    if sorted(g for g, _, _ in steps) != sorted(seen):
        return "returned steps are not exactly the evaluated points"
    for g, p, v in steps:
        if not feq(v, f(g)):
            return f"step {g} reports value {v}, the callback returned {f(g)}"
        if [vals[k] for (_, vals), k in zip(spaces, g)] != p:
            return f"step {g} carries parameter values that are not its grid values"
    if sorted_flag != 1:
        return "unsorted: returned steps are not sorted by value"
    if not steps:
        return "no step returned"
    best = min(f(g) for g in seen)
    if first not in seen or f(first) != best:
        return f"first-not-min: first step {first} has value {f(first) if first in seen else None}, minimum observed is {best}"
    return None


# ---------------------------------------------------------------------------------------------------------
# parameter spaces and the quadratic surrogate: independent evaluation (exact rational arithmetic where possible)

from fractions import Fraction

TOL = 1e-12


def frac(x):
    return Fraction(x) if math.isfinite(x) else None


def quad_terms(p):
    """1, p_i, p_i p_j (i <= j) — the documented feature map of the quadratic surrogate"""
    n = len(p)
    return [1] + list(p) + [p[i] * p[j] for i in range(n) for j in range(i, n)]


def quad_value_grad(m, x):
    """value and gradient of the quadratic with coefficients m (ordered as quad_terms) at x"""
    n = len(x)
    fx = sum(c * t for c, t in zip(m, quad_terms(x)))
    g = [m[1 + i] for i in range(n)]
    k = 1 + n
    for i in range(n):
        for j in range(i, n):
            if i == j:
                g[i] += 2 * m[k] * x[i]
            else:
                g[i] += m[k] * x[j]; g[j] += m[k] * x[i]
            k += 1
    return fx, g


def fit_value_grad(rows, ys, x):
    """sum over the samples of the mse loss 0.5 (row . x - y)^2 and its gradient"""
    fx = 0
    g = [0] * len(x)
    for row, y in zip(rows, ys):
        r = sum(a * b for a, b in zip(row, x)) - y
        fx += r * r / 2
        for k, a in enumerate(row):
            g[k] += r * a
    return fx, g


def near(got, want, scale):
    """got (float) against the exact value, relative to the magnitude of the summed terms"""
    if want is None or scale is None:
        return True
    if not math.isfinite(got):
        return abs(scale) > 1e300        # only an overflow may produce it
    return abs(Fraction(got) - want) <= Fraction(TOL) * scale + Fraction(1, 10 ** 300)


def check_vgrad(r, head, want_f, want_g, scale_f, scale_g, what):
    if head != "ok":
        return f"{what}: {head}"
    fx, f0 = r.f(), r.f()
    gx = r.fs()
    if not feq(fx, f0):
        return f"{what}: value with gradient {fx} differs from the value alone {f0}"
    if len(gx) != len(want_g):
        return f"{what}: gradient of size {len(gx)}"
    if not near(fx, want_f, scale_f):
        return f"{what}-value: {fx}, the definition gives {float(want_f)}"
    for k, (a, b, sc) in enumerate(zip(gx, want_g, scale_g)):
        if not near(a, b, sc):
            return f"{what}-gradient: component {k} = {a}, the derivative of the value is {float(b)}"
    return None


def oracle_sfit(t, r, head):
    n, d = t.int(), t.int()
    ps, ys, x = t.fs(), t.fs(), t.fs()
    if not all(math.isfinite(v) for v in ps + ys + x):
        return None
    rows = [quad_terms([Fraction(v) for v in ps[i * d:(i + 1) * d]]) for i in range(n)]
    fy, fx_ = [Fraction(v) for v in ys], [Fraction(v) for v in x]
    want_f, want_g = fit_value_grad(rows, fy, fx_)
    sc_f, sc_g = fit_value_grad([[abs(a) for a in row] for row in rows], [-abs(v) for v in fy], [abs(v) for v in fx_])
    return check_vgrad(r, head, want_f, want_g, sc_f, sc_g, "surrogate-fit")


def oracle_squad(t, r, head):
    m, x = t.fs(), t.fs()
    if head == "size-mismatch":
        return f"surrogate-size: a model of {len(m)} coefficients is taken as a quadratic in {r.int()} variables, not {len(x)}"
    if not all(math.isfinite(v) for v in m + x):
        return None
    fm, fx_ = [Fraction(v) for v in m], [Fraction(v) for v in x]
    want_f, want_g = quad_value_grad(fm, fx_)
    sc_f, sc_g = quad_value_grad([abs(v) for v in fm], [abs(v) for v in fx_])
    return check_vgrad(r, head, want_f, want_g, sc_f, sc_g, "surrogate")


def closest_ok(sg, q, got):
    """is `got` the first grid point closest to q (surrogate coordinates sg)? decided only beyond the tolerance"""
    ds = [abs(q - g) for g in sg]
    if not (0 <= got < len(sg)):
        return f"closest-grid-point: index {got} outside the grid"
    finite = [x for x in ds if x == x and x < DBL_MAX]
    if not finite:
        return None if got == 0 else f"closest-grid-point: {got} although no distance is below DBL_MAX"
    dmin = min(finite)
    if not (ds[got] <= dmin * (1 + 1e-12) + 1e-300):
        return f"closest-grid-point: {got} at distance {ds[got]}, point {ds.index(dmin)} is at distance {dmin}"
    if any(ds[k] < ds[got] * (1 - 1e-12) for k in range(got)):
        return f"closest-grid-point: {got} is not the first closest one"
    if any(ds[k] == ds[got] for k in range(got)):
        return f"closest-grid-point: {got} is not the first of the equally close points"
    return None


def oracle_space(t, r, head):
    ty = t.int(); vals = t.fs(); qs = t.fs()
    bad = (len(vals) < 2 or any(b < a for a, b in zip(vals, vals[1:])) or any(a == b for a, b in zip(vals, vals[1:]))
           or (ty == 0 and min(vals) < EPS))
    if head == "throw":
        return None if bad else "space-rejected: a sorted grid of distinct (positive for log10) values is refused"
    if bad:
        return "space-accepted: the constructor accepted a grid that is too short, unsorted, repeated or not positive (log10)"
    mn, mx = vals[0], vals[-1]
    sg = [to_sur(ty, vals, v) for v in vals]
    if any(b <= a for a, b in zip(sg, sg[1:])) and ty == 1:
        return None       # the grid collapses in floating point: nothing to decide
    k = r.int()
    prev = None
    for q in qs:
        tos = r.s(); frm = r.f(); cp = r.int(); cv = r.f()
        outside = q < mn or q > mx
        if (tos == "x") != outside:
            return f"to_surrogate: value {q} {'accepted outside' if outside else 'refused inside'} [{mn}, {mx}]"
        if not outside and q == q:
            got = h2f(tos)
            if not vlib.close(got, to_sur(ty, vals, q), 1e-14, 1e-300):
                return f"to_surrogate({q}) = {got}, expected {to_sur(ty, vals, q)}"
            if ty == 1 and not (0.0 <= got <= 1.0):
                return f"to_surrogate({q}) = {got} is outside [0, 1]"
        if q == q:
            if not (mn <= frm <= mx):
                return f"from_surrogate({q}) = {frm} is outside [{mn}, {mx}]"
            if math.isfinite(q):
                try:
                    raw = mn + q * (mx - mn) if ty == 1 else 10.0 ** q
                except OverflowError:
                    raw = float("inf")
                want = min(max(raw, mn), mx)
                if not vlib.close(frm, want, 1e-14, 1e-300):
                    return f"from_surrogate({q}) = {frm}, expected {want}"
        why = closest_ok(sg, q, cp)
        if why:
            return why
        if q in sg and sg.count(q) == 1 and cp != sg.index(q):
            return f"round-trip: the surrogate coordinate of grid point {sg.index(q)} is mapped to grid point {cp}"
        if not feq(cv, vals[cp]):
            return f"closest-grid-value: {cv} is not the value of the closest grid point {cp}"
    return None


def percentile(sorted_vals, p):
    pos = p * (len(sorted_vals) - 1) / 100.0
    lo, hi = math.floor(pos), math.ceil(pos)
    return sorted_vals[lo] if lo == hi else (sorted_vals[lo] + sorted_vals[hi]) / 2


def read_slot(r):
    return [r.s() for _ in range(18)]


def oracle_tune(t, r, head, aug):
    t.s(); t.int()
    folds = t.int(); t.int(); t.int(); nsamples = t.int()
    spaces = read_spaces(t)
    A, B, C, D, E = [t.int() for _ in range(5)]
    table = t.fs()
    assert t.s() == "|"
    nf = t.int()
    splits = [(t.ints(), t.ints()) for _ in range(nf)]
    if nf != folds:
        return f"splitter produced {nf} folds, {folds} requested"
    payload = {}
    for _ in range(t.int()):
        gi = t.int(); fo = t.int(); payload[(gi, fo)] = [t.s() for _ in range(18)]
    sizes = [len(v) for _, v in spaces]
    total = 1
    for n in sizes:
        total *= n

    def entry(gi, fo, split, kind, sid):
        return table[(A * gi + B * fo + C * split + D * kind + E * sid) % len(table)]

    thrown = head == "throw"
    if thrown:
        r.s()
    assert r.s() == "calls"
    calls = [(r.int(), r.int(), r.int()) for _ in range(r.int())]
    for gi, fo, closest in calls:
        if gi < 0 or gi >= total:
            return "off-grid: the model callback received hyper-parameter values that are not grid values"
        if fo < 0:
            return "wrong-fold-indices: the model callback received sample indices that are no fold of the splitter"
    pairs = [(gi, fo) for gi, fo, _ in calls]
    if len(set(pairs)) != len(pairs):
        dup = [p for p in pairs if pairs.count(p) > 1][0]
        return f"called-twice: (trial at grid point {dup[0]}, fold {dup[1]}) evaluated more than once"

    def value_of(gi):
        s = 0.0
        for fo in range(folds):
            vd = splits[fo][1]
            s += math.fsum(entry(gi, fo, 1, 0, sid) for sid in vd) / len(vd)
        return s / folds

    if thrown:
        gis = sorted({gi for gi, _, _ in calls})
        if all(math.isfinite(value_of(gi)) for gi in gis):
            return "throws-on-finite: ml::tune threw although every trial value is finite"
        return None
    assert r.s() == "trials"; trials = r.int()
    assert r.s() == "folds"; rfolds = r.int()
    assert r.s() == "optimum"; optimum = r.int()
    if rfolds != folds:
        return "result has the wrong number of folds"
    trial_gi, values, trial_params = [], [], []
    for trial in range(trials):
        p = r.fs()
        trial_params.append(p)
        g = decode(spaces, p)
        if g is None:
            return "off-grid: a trial's hyper-parameter values are not grid values"
        gi = 0
        for k, n in zip(g, sizes):
            gi = gi * n + k
        if gi in trial_gi:
            return f"duplicate: grid point {gi} is tried twice"
        trial_gi.append(gi)
        value = r.f()
        means = []
        for fo in range(folds):
            slot = read_slot(r)
            extra = r.int()
            if (gi, fo) not in pairs:
                return f"never-called: (trial {trial}, fold {fo}) was not evaluated"
            if slot != payload[(gi, fo)]:
                return f"wrong-slot: statistics stored for (trial {trial}, fold {fo}) are not those of the tensors returned for it"
            if extra != gi * 1000 + fo:
                return f"wrong-slot: model data stored for (trial {trial}, fold {fo}) is {extra}"
            # the payload itself, recomputed from the definition (mean, count, percentiles of the validation errors)
            vd = sorted(entry(gi, fo, 1, 0, sid) for sid in splits[fo][1])
            tr_n = len(splits[fo][0])
            mean = math.fsum(vd) / len(vd)
            got = [h2f(x) for x in slot]
            if not vlib.close(got[0], mean, 1e-12, 1e-300) or got[2] != len(vd):
                return f"stats: mean/count of (trial {trial}, fold {fo}) = {got[0]}/{got[2]}, definition gives {mean}/{len(vd)}"
            for k, pc in enumerate((1, 5, 10, 20, 50, 80, 90, 95, 99)):
                if not feq(got[3 + k], percentile(vd, float(pc))):
                    return f"stats: percentile {pc} of (trial {trial}, fold {fo}) = {got[3 + k]}, definition gives {percentile(vd, float(pc))}"
            if got[13] != len(vd) or got[15] != tr_n or got[17] != tr_n:
                return "stats: wrong counts"
            means.append(got[0])
        s = 0.0
        for m in means:
            s += m
        want = s / folds
        if not (vlib.close(value, want, 1e-12, 1e-300)):
            return f"value: trial {trial} reports {value}, the mean validation error across folds is {want}"
        values.append(value)
    if sorted(pairs) != sorted((gi, fo) for gi in trial_gi for fo in range(folds)):
        return "calls-mismatch: the set of (trial, fold) calls is not trials x folds"
    ids = {gi * 1000 + fo for gi in trial_gi for fo in range(folds)}
    for gi, fo, closest in calls:
        if closest != -1 and (closest not in ids or closest % 1000 != fo or closest // 1000 == gi):
            return f"closest: call (grid point {gi}, fold {fo}) received model data {closest} of another fold / of no earlier trial"
    # warm start: every call of a batch receives the model data of the trial closest (Euclidean distance of the
    # hyper-parameter values) among the trials of the EARLIER batches — never of the batch in flight; the batches are
    # those observed at the pool (one `map` per batch)
    assert r.s() == "batches"
    sizes_b = r.ints()
    if sum(sizes_b) != trials or any(k <= 0 for k in sizes_b):
        return f"batches: the pool ran batches of {sizes_b} trials, the result holds {trials} trials"
    start_of = []
    a = 0
    for k in sizes_b:
        start_of += [a] * k
        a += k
    for gi, fo, closest in calls:
        i = trial_gi.index(gi)
        a = start_of[i]
        if a == 0:
            if sizes_b[0] == 1 and closest != -1:
                return f"closest-in-flight: the first trial received model data {closest} although nothing was fitted before"
            continue
        ds = [math.sqrt(sum((x - y) ** 2 for x, y in zip(trial_params[j], trial_params[i]))) for j in range(a)]
        dmin = min(ds)
        ok = [j for j, dd in enumerate(ds) if dd <= dmin * (1 + 1e-12) + 1e-300 and not any(ds[q] == dd for q in range(j))]
        if closest == -1 or trial_gi.index(closest // 1000) >= a:
            return (f"closest-in-flight: call (trial {i}, fold {fo}) of the batch starting at trial {a} received the model data "
                    f"{closest} of a trial of its own batch (or none)")
        if trial_gi.index(closest // 1000) not in ok:
            return (f"closest-not-nearest: call (trial {i}, fold {fo}) received the model data of trial "
                    f"{trial_gi.index(closest // 1000)}, the closest earlier trial is {ok[0]}")
    if not values or any(v != v for v in values):
        return None if trials == 1 else "nan value accepted"
    best = min(values)
    if optimum != values.index(best):
        return f"optimum-not-argmin: optimum trial {optimum} (value {values[optimum] if 0 <= optimum < trials else None}), smallest mean validation error {best} at trial {values.index(best)}"
    return None


# ---------------------------------------------------------------------------------------------------------
# correspondence: exact, except for the sums Eigen may re-associate (the fit objective): those are compared relative to
# the magnitude of the summed terms, which the model prints next to each number

def close_scaled(a, b, scale):
    if a != a or b != b:
        return (a != a) and (b != b)
    if a == b:
        return True
    if not (math.isfinite(a) and math.isfinite(b)):
        return not math.isfinite(scale) or abs(scale) > 1e300
    return abs(a - b) <= TOL * abs(scale) + 1e-300


def compare(aug, impl, model):
    op = aug.split()[1]
    if op == "sfit":
        if "|" not in model.split():
            return impl == model
        mt = model.split()
        cut = mt.index("|")
        a, b, sc = impl.split(), mt[:cut], mt[cut + 1:]
        if len(a) != len(b) or a[0] != b[0] or a[3] != b[3] or len(sc) != len(a) - 2:
            return False
        fx, f0, g = h2f(a[1]), h2f(a[2]), [h2f(v) for v in a[4:]]
        mfx, mg = h2f(b[1]), [h2f(v) for v in b[4:]]
        sfx, sg = h2f(sc[0]), [h2f(v) for v in sc[2:]]
        return (close_scaled(fx, mfx, sfx) and close_scaled(f0, mfx, sfx) and len(g) == len(mg) == len(sg)
                and all(close_scaled(x, y, z) for x, y, z in zip(g, mg, sg)))
    if op == "run":
        a, b = impl.split(), model.split()
        if "solves" not in a or "solves" not in b:
            return impl == model
        ia, ib = a.index("solves"), b.index("solves")
        if a[:ia] != b[:ib]:
            return False
        ta, tb = Toks(" ".join(a[ia + 1:])), Toks(" ".join(b[ib + 1:]))
        n = ta.int()
        if tb.int() != n:
            return False
        for _ in range(n):
            fx, g = ta.f(), ta.fs()
            mfx, sfx, mg, sg = tb.f(), tb.f(), tb.fs(), tb.fs()
            if len(g) != len(mg) or len(sg) != len(g) or not close_scaled(fx, mfx, sfx):
                return False
            if not all(close_scaled(x, y, z) for x, y, z in zip(g, mg, sg)):
                return False
        return ta.done() and tb.done()
    return impl == model


def grid_total(op):
    t = Toks(op); t.s(); o = t.s()
    if o == "run":
        t.s(); t.int()
    elif o == "tune":
        t.s()
        for _ in range(5):
            t.int()
    else:
        return None
    total = 1
    for _, v in read_spaces(t):
        total *= len(v)
    return total


def nontrivial(op):
    o = op.split()[1]
    if o == "lsearch":
        return True
    if o in ("evaluate", "space", "sfit", "squad"):
        return True
    return grid_total(op) >= 5


def distribution(ops):
    d = {}
    for op in ops:
        t = op.split()
        k = t[1]
        if k in ("run", "tune"):
            k += "/" + t[2]
            if t[1] == "run":
                tt = Toks(op); tt.s(); tt.s(); tt.s(); tt.int()
                k += f"/d{len(read_spaces(tt))}/{tt.s()}"
        d[k] = d.get(k, 0) + 1
    return d


def classify(op, kind, detail):
    t = op.split()
    base = t[1] if len(t) > 1 else "?"
    if base in ("run", "tune") and len(t) > 2:
        base += ":" + t[2]
    if kind == "oracle":
        key = base + ":" + detail.split(":")[0].split(" ")[0]
        if key == "run:surrogate:throws-on-finite" and "max |value| = " in detail:
            # KNOWN_FINDINGS: only the overflow of the surrogate fit on values of magnitude >= 1e150 is a known finding
            if float(detail.split("max |value| = ")[1].split(")")[0]) >= 1e150:
                key += ":magnitude>=1e150"
        return key
    return base


def shrink_candidates(op):
    """smaller variants of a failing run/tune op: lower max_evals"""
    t = op.split()
    out = []
    if len(t) > 3 and t[1] in ("run", "tune"):
        me = int(t[3])
        for m in (10, (me + 10) // 2):
            if 10 <= m < me:
                out.append(" ".join(t[:3] + [str(m)] + t[4:]))
    return out
