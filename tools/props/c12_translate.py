"""C12: C++ -> Lean translator for the splitters and the sampling utilities (DESIGN.md §2.3.a).

Extracts, *by function name* from the current source text of the repository under check, and emits core-Lean files:

  kfold_splitter_t::split   (src/splitter/kfold.cpp)   -> Gen/SplitKFold.lean    `trainPieces`, `validPieces`, `foldPair`, `split`
  random_splitter_t::split  (src/splitter/random.cpp)  -> Gen/SplitRandom.lean   `outer`, `trainPieces`, `validPieces`, `foldPair`, `loop`, `split`
  sample_with_replacement / sample_without_replacement (the overloads with a generator, src/core/sampling.cpp),
  make_rng (src/core/random.cpp), make_udist (include/nano/core/random.h)
                                                       -> Gen/SplitSampling.lean `withoutReplacement`, `withReplacement`,
                                                          `weightedWithReplacement`, `makeRngSeeded`, `udistGuard`, `unseeded`

Statement language of the splitters (everything else raises vlib.Broken("translate", …)):
  `const auto x = parameter("splitter::…").value<T>();`          a registered parameter (Int)
  `auto rng = make_rng(seed);`                                    the generator of this call
  `std::shuffle(std::begin(v), std::end(v), rng | make_rng(seed));`  before the loop (once) or first statement of the loop body
  `splits_t s; s.reserve(static_cast<size_t>(folds));`            no effect on the answer
  `for (tensor_size_t fold = 0; fold < folds; ++fold) { … }`      the loop over the folds
  `const auto x = <integer expression>;`                          an integer local (canonical names t0, t1, … / o0, o1, … so that a
                                                                  renamed local does not change the generated text)
  `const auto w = v.vector();`                                    an alias of an index vector
  `indices_t v(<integer expression>);`                            a new index vector of that size
  `v.vector()[.segment(o, l)] = w[.vector()].segment(o, l);`      a piece (dest offset, dest length, source offset, source length)
  `std::sort(std::begin(v), std::end(v));`, `s.emplace_back(std::move(a), std::move(b));`, `return s;`
Integer expressions: + - * and `/` (C++ signed division truncates toward zero: `Int.tdiv`), comparisons, `c ? a : b`, `v.size()`,
`idiv(a, b)` (the translated `Gen.idiv`), parentheses. All of them are `tensor_size_t`: Lean `Int`.

The expression tokenizer / parser is the one of c14_translate.py (`Parser`), extended by the ternary operator and integer division.
"""
import os, re
import vlib
from props import c14_translate as c14
from props.c14_translate import TranslateError, strip_comments, block_after, split_top

GEN = os.path.join(vlib.LEAN, "NanoVerif", "Gen")
OUT_KFOLD = os.path.join(GEN, "SplitKFold.lean")
OUT_RANDOM = os.path.join(GEN, "SplitRandom.lean")
OUT_SAMPLING = os.path.join(GEN, "SplitSampling.lean")
KFOLD_CPP = "src/splitter/kfold.cpp"
RANDOM_CPP = "src/splitter/random.cpp"
SAMPLING_CPP = "src/core/sampling.cpp"
RNG_CPP = "src/core/random.cpp"
RNG_H = "include/nano/core/random.h"

PARAMS = {"splitter::seed": "seed", "splitter::folds": "folds", "splitter::random::train_per": "trainPer"}

TOK = re.compile(r"\s*(?:(\d+)(?![\w.])"
                 r"|([A-Za-z_][A-Za-z_0-9]*(?:::[A-Za-z_][A-Za-z_0-9]*)*)"
                 r"|(<=|>=|==|!=|&&|\|\||[-+*/()<>,!?:]))")


def tokenize(s):
    out = []; i = 0
    while i < len(s):
        if s[i:].strip() == "":
            break
        m = TOK.match(s, i)
        if not m:
            raise TranslateError("cannot tokenize at: " + s[i:i + 40].strip())
        out.append(("num", m.group(1)) if m.group(1) else ("id", m.group(2)) if m.group(2) else ("op", m.group(3)))
        i = m.end()
    return out


class IntParser(c14.Parser):
    """c14's precedence climbing (|| && cmp + - * / unary) at `Int`: `/` truncates toward zero, plus `c ? a : b` and `idiv`"""
    def top(self):
        c = self.cond()
        if self.peek()[1] == "?":
            self.eat(); a = self.top(); self.eat(":"); b = self.top()
            return f"(if {c} then {a} else {b})"
        return c

    def mul(self):
        a = self.unary()
        while self.peek()[1] in ("*", "/"):
            op = self.eat()[1]; b = self.unary()
            a = f"(Int.tdiv {a} {b})" if op == "/" else f"({a} * {b})"
        return a

    def primary(self):
        k = self.eat()
        if k[0] == "num":
            return k[1]
        if k[1] == "(":
            e = self.top(); self.eat(")")
            return e if e.startswith("(") or " " not in e else f"({e})"
        if k[0] == "id":
            name = k[1]
            if self.peek()[1] != "(":
                if name in self.bind:
                    return self.bind[name]
                raise TranslateError("unbound symbol " + name)
            self.eat("(")
            a = [self.top()]
            while self.peek()[1] == ",":
                self.eat(); a.append(self.top())
            self.eat(")")
            if name in ("idiv", "nano::idiv") and len(a) == 2:
                return f"(Gen.idiv {a[0]} {a[1]})"
            raise TranslateError("unbound call " + name)
        raise TranslateError(f"unexpected token {k[1]!r}")


def int_expr(text, bind, what):
    """`v.size()` is an identifier of the binding (`SIZE:v`)"""
    text = re.sub(r"\b([A-Za-z_]\w*)\.size\(\)", r"SIZEOF_\1", text)
    p = IntParser(tokenize(text), bind, None)
    e = p.top()
    if p.peek()[0] != "eof":
        raise TranslateError(f"{what}: trailing tokens in `{text.strip()}`")
    return e


def split_args(text):
    out, depth, cur = [], 0, ""
    for ch in text:
        if ch == "," and depth == 0:
            out.append(cur.strip()); cur = ""
            continue
        depth += (ch == "(") - (ch == ")")
        cur += ch
    out.append(cur.strip())
    return out


def function_body(src, qualified, what):
    m = re.search(re.escape(qualified) + r"\s*\(", src)
    if not m:
        raise TranslateError(f"definition of {what} not found")
    i = m.end(); depth = 1
    while depth:
        depth += (src[i] == "(") - (src[i] == ")"); i += 1
    m2 = re.match(r"\s*(?:const)?\s*(?:noexcept)?\s*\{", src[i:])
    if not m2:
        raise TranslateError(f"{what}: no body after the parameter list")
    return src[m.end():i - 1], block_after(src, i + m2.end() - 1)[0]


# ---------------------------------------------------------------------------------------------------------------------
# the two splitters

class Vec:
    def __init__(self, size):
        self.size = size; self.pieces = []; self.sorted = False


class SplitFn:
    """walks `split(indices_t samples)`; afterwards: params, outer / inner integer locals, the two vectors of the pair, where the
    shuffle happens and with which generator"""
    def __init__(self, what):
        self.what = what
        self.params = []            # lean names in order of appearance
        self.bind = {}              # C++ symbol -> Lean term
        self.alias = {}             # vector alias -> vector
        self.outer = []; self.inner = []   # (canonical name, lean expression)
        self.vecs = {}
        self.rng_var = None; self.rng_seed = None
        self.shuffle = None         # ("pre" | "loop", "temp" | "var")
        self.splits = None; self.pair = None; self.returned = False
        self.loop_var = None; self.arg = None

    def fail(self, msg):
        raise TranslateError(f"{self.what}: {msg}")

    def vec_of(self, name):
        name = self.alias.get(name, name)
        if name != self.arg and name not in self.vecs:
            self.fail(f"`{name}` is not an index vector")
        return name

    def size_bind(self):
        b = dict(self.bind)
        b["SIZEOF_" + self.arg] = "size"
        for a, v in self.alias.items():
            b["SIZEOF_" + a] = "size" if v == self.arg else self.vecs[v].size
        for v, o in self.vecs.items():
            b["SIZEOF_" + v] = o.size
        return b

    def expr(self, text):
        return int_expr(text, self.size_bind(), self.what)

    def shuffle_stmt(self, s, where):
        m = re.fullmatch(r"std::shuffle\(std::begin\((\w+)\), std::end\((\w+)\), (.+)\)", s)
        if not m:
            return False
        if m.group(1) != m.group(2) or m.group(1) != self.arg:
            self.fail(f"shuffle of something else than the argument: `{s}`")
        if self.shuffle is not None:
            self.fail("more than one shuffle statement")
        g = m.group(3).strip()
        mt = re.fullmatch(r"make_rng\((\w+)\)", g)
        if mt:
            if self.bind.get(mt.group(1)) != "seed":
                self.fail(f"generator not made from splitter::seed: `{g}`")
            if where == "loop":
                self.fail("a new generator for every fold is not translated")
            self.shuffle = (where, "temp")
        elif g == self.rng_var:
            self.shuffle = (where, "var")
        else:
            self.fail(f"unknown generator `{g}`")
        return True

    def top(self, body, arg):
        self.arg = arg
        stmts = split_top(body)
        seen_loop = False
        for st in stmts:
            if st[0] == "for":
                if seen_loop:
                    self.fail("two loops")
                seen_loop = True
                m = re.fullmatch(r"tensor_size_t (\w+) = 0; (\w+) < (\w+); \+\+(\w+)", st[1])
                if not m or len({m.group(1), m.group(2), m.group(4)}) != 1 or self.bind.get(m.group(3)) != "folds":
                    self.fail(f"loop header `{st[1]}`")
                self.loop_var = m.group(1)
                self.bind[self.loop_var] = "fold"
                self.loop(st[2])
                del self.bind[self.loop_var]
                continue
            if st[0] != "stmt":
                self.fail(f"`{st[0]}` statement outside the fold loop")
            s = st[1]
            if self.returned:
                self.fail(f"statement after return: `{s}`")
            m = re.fullmatch(r"const auto (\w+) = parameter\(\"([\w:]+)\"\)\.value<([\w:]+)>\(\)", s)
            if m:
                if m.group(2) not in PARAMS:
                    self.fail(f"unknown parameter {m.group(2)}")
                if m.group(3) not in ("uint64_t", "tensor_size_t", "int64_t"):
                    self.fail(f"parameter read as {m.group(3)}")
                self.bind[m.group(1)] = PARAMS[m.group(2)]
                self.params.append(PARAMS[m.group(2)])
                continue
            if seen_loop:
                m = re.fullmatch(r"return (\w+)", s)
                if m and m.group(1) == self.splits:
                    self.returned = True
                    continue
                self.fail(f"statement after the loop: `{s}`")
            m = re.fullmatch(r"auto (\w+) = make_rng\((\w+)\)", s)
            if m:
                if self.bind.get(m.group(2)) != "seed" or self.rng_var:
                    self.fail(f"generator: `{s}`")
                self.rng_var = m.group(1)
                continue
            if self.shuffle_stmt(s, "pre"):
                continue
            m = re.fullmatch(r"splits_t (\w+)", s)
            if m:
                self.splits = m.group(1)
                continue
            m = re.fullmatch(r"(\w+)\.reserve\(static_cast<size_t>\((\w+)\)\)", s)
            if m and m.group(1) == self.splits:
                continue
            m = re.fullmatch(r"const auto (\w+) = (.+)", s)
            if m:
                name = f"o{len(self.outer)}"
                self.outer.append((name, self.expr(m.group(2))))
                self.bind[m.group(1)] = name
                continue
            self.fail(f"statement not understood: `{s}`")
        if not (seen_loop and self.returned and self.pair and self.shuffle):
            self.fail("loop / return / emplace_back / shuffle missing")
        if "seed" not in self.params or "folds" not in self.params:
            self.fail("splitter::seed / splitter::folds not read")

    def loop(self, body):
        first = True
        for st in split_top(body):
            if st[0] != "stmt":
                self.fail(f"`{st[0]}` statement inside the fold loop")
            s = st[1]
            if self.pair:
                self.fail(f"statement after emplace_back: `{s}`")
            if self.shuffle_stmt(s, "loop"):
                if not first:
                    self.fail("shuffle is not the first statement of the loop body")
                continue
            first = False
            m = re.fullmatch(r"const auto (\w+) = (\w+)\.vector\(\)", s)
            if m:
                self.alias[m.group(1)] = self.vec_of(m.group(2))
                continue
            m = re.fullmatch(r"const auto (\w+) = (.+)", s)
            if m:
                name = f"t{len(self.inner)}"
                self.inner.append((name, self.expr(m.group(2))))
                self.bind[m.group(1)] = name
                continue
            m = re.fullmatch(r"indices_t (\w+)\((.+)\)", s)
            if m:
                if m.group(1) in self.vecs or m.group(1) == self.arg:
                    self.fail(f"vector declared twice: `{s}`")
                self.vecs[m.group(1)] = Vec(self.expr(m.group(2)))
                continue
            m = re.fullmatch(r"(\w+)\.vector\(\)(?:\.segment\((.+?)\))? = (\w+)(?:\.vector\(\))?\.segment\((.+)\)", s)
            if m:
                dst = m.group(1)
                if dst not in self.vecs:
                    self.fail(f"assignment to `{dst}`")
                src = self.vec_of(m.group(3))
                if src != self.arg:
                    self.fail(f"source of a piece is not the shuffled argument: `{s}`")
                sa = split_args(m.group(4))
                da = split_args(m.group(2)) if m.group(2) else ["0", f"{dst}.size()"]
                if len(sa) != 2 or len(da) != 2:
                    self.fail(f"segment arguments: `{s}`")
                piece = tuple(self.expr(x) for x in da + sa)
                v = self.vecs[dst]
                # the pieces are written in increasing destination order, each starting where the previous one ended
                # (textual check; `gen_*_pieces_tile` in Proofs/SplitGen.lean proves the arithmetic)
                if not v.pieces:
                    if piece[0] != "0":
                        self.fail(f"first piece of `{dst}` does not start at 0")
                else:
                    po, pl = v.pieces[-1][0], v.pieces[-1][1]
                    end = pl if po == "0" else f"({po} + {pl})"
                    if piece[0] != end:
                        self.fail(f"piece of `{dst}` starts at {piece[0]}, the previous one ends at {end}")
                v.pieces.append(piece); v.sorted = False
                continue
            m = re.fullmatch(r"std::sort\(std::begin\((\w+)\), std::end\((\w+)\)\)", s)
            if m and m.group(1) == m.group(2) and m.group(1) in self.vecs:
                self.vecs[m.group(1)].sorted = True
                continue
            m = re.fullmatch(r"(\w+)\.emplace_back\(std::move\((\w+)\), std::move\((\w+)\)\)", s)
            if m and m.group(1) == self.splits and m.group(2) in self.vecs and m.group(3) in self.vecs and m.group(2) != m.group(3):
                self.pair = (m.group(2), m.group(3))
                continue
            self.fail(f"statement not understood: `{s}`")
        if not self.pair:
            self.fail("no emplace_back in the loop")


SEGMENT = '''/-- `v.segment(off, len)` of an index vector (offsets and lengths are `tensor_size_t`) -/
def segment (v : List Int) (off len : Int) : List Int := (v.drop off.toNat).take len.toNat

/-- a vector written piece by piece `(destination offset, destination length, source offset, source length)`, the pieces in
    increasing destination order and adjacent (checked by the translator on the text, proved in Proofs/SplitGen.lean) -/
def assemble (v : List Int) (pieces : List (Int × Int × Int × Int)) : List Int :=
  pieces.flatMap (fun p => segment v p.2.2.1 p.2.2.2)
'''


def emit_splitter(f, ns, cpp):
    others = [p for p in f.params if p not in ("seed", "folds")]
    ipar = ["size", "folds"] + others + ["fold"] + [n for n, _ in f.outer]
    isig = "(" + " ".join(ipar) + " : Int)"
    iargs = lambda size: " ".join([size, "folds"] + others + ["fold"] + [n for n, _ in f.outer])
    lets = "".join(f"  let {n} : Int := {e}\n" for n, e in f.inner)
    out = [f"-- GENERATED by tools/props/c12_translate.py from {cpp} — do not edit",
           f"import NanoVerif.Gen.Numeric",
           f"/-! `{f.what}`: the body of `split(indices_t samples)`, statement by statement. Sizes, offsets and the registered\n"
           f"    parameters are `tensor_size_t` = `Int`; C++ `/` truncates toward zero (`Int.tdiv`); integer locals carry canonical\n"
           f"    names (`o<k>` before the loop, `t<k>` inside); `std::shuffle`, `make_rng` and `std::sort` are parameters. -/",
           "set_option linter.unusedVariables false",
           f"namespace NanoVerif.Gen.{ns}\n", SEGMENT]
    if f.outer:
        osig = "(" + " ".join(["size", "folds"] + others) + " : Int)"
        for k, (n, e) in enumerate(f.outer):
            pre = "".join(f"  let {m} : Int := {x}\n" for m, x in f.outer[:k])
            out.append(f"/-- integer local number {k} declared before the loop -/\ndef outer{k} {osig} : Int :=\n{pre}  {e}\n")
    for role, v in zip(("train", "valid"), f.pair):
        o = f.vecs[v]
        if not o.pieces:
            raise TranslateError(f"{f.what}: `{v}` is never written")
        out.append(f"/-- `indices_t {role}(…)`: the declared size of the {'first' if role == 'train' else 'second'} member of the pair -/\n"
                   f"def {role}Size {isig} : Int :=\n{lets}  {o.size}\n")
        ps = ", ".join("(" + ", ".join(p) + ")" for p in o.pieces)
        out.append(f"/-- the pieces of the {role} part: (destination offset, destination length, source offset, source length) -/\n"
                   f"def {role}Pieces {isig} : List (Int × Int × Int × Int) :=\n{lets}  [{ps}]\n")
    part = lambda role, v: (("sort " if f.vecs[v].sorted else "") +
                            f"(assemble samples ({role}Pieces {iargs('(samples.length : Int)')}))")
    a, b = f.pair
    psig = "(" + " ".join(["folds"] + others + ["fold"] + [n for n, _ in f.outer]) + " : Int)"
    out.append(f"/-- `emplace_back(std::move({'sorted ' if f.vecs[a].sorted else ''}train), std::move({'sorted ' if f.vecs[b].sorted else ''}valid))` -/\n"
               f"def foldPair (sort : List Int → List Int) (samples : List Int) {psig} : List Int × List Int :=\n"
               f"  ({part('train', a)}, {part('valid', b)})\n")
    ssig = ("{G : Type} (makeRng : Nat → G) (shuffle : G → List Int → List Int × G) (sort : List Int → List Int)\n"
            "    (seed : Nat) (" + " ".join(["folds"] + others) + " : Int) (samples : List Int)")
    olets = "".join(f"  let {n} : Int := outer{k} " + " ".join(["(samples.length : Int)", "folds"] + others) + "\n"
                    for k, (n, _) in enumerate(f.outer))
    if f.shuffle[0] == "pre":
        gen = "(makeRng seed)" if f.shuffle[1] == "temp" else "rng"
        pre = "" if f.shuffle[1] == "temp" else "  let rng := makeRng seed\n"
        # the statements before the loop in source order: locals that read `samples.size()` see the same length
        fargs = " ".join(["folds"] + others + ["(fold : Int)"] + [n for n, _ in f.outer])
        out.append("/-- one shuffle before the loop, then one pair per fold -/\n"
                   f"def split {ssig} :\n    List (List Int × List Int) :=\n{olets}{pre}"
                   f"  let samples := (shuffle {gen} samples).1\n"
                   f"  (List.range folds.toNat).map (fun (fold : Nat) => foldPair sort samples {fargs})\n")
    else:
        lsig = "(" + " ".join(["folds"] + others + [n for n, _ in f.outer]) + " : Int)"
        largs = " ".join(["folds"] + others + [n for n, _ in f.outer])
        fargs = " ".join(["folds"] + others + ["(fold : Int)"] + [n for n, _ in f.outer])
        out.append("/-- the loop: `samples` is shuffled in place at the start of every iteration with the one generator of the call;\n"
                   "    `fold` counts up, `k` iterations remain -/\n"
                   f"def loop {{G : Type}} (shuffle : G → List Int → List Int × G) (sort : List Int → List Int) {lsig} :\n"
                   f"    G → List Int → Nat → Nat → List (List Int × List Int)\n"
                   f"  | _, _, _, 0 => []\n"
                   f"  | rng, samples, fold, k + 1 =>\n"
                   f"    let r := shuffle rng samples\n"
                   f"    foldPair sort r.1 {fargs} :: loop shuffle sort {largs} r.2 r.1 (fold + 1) k\n")
        out.append("/-- integer locals and the generator before the loop, then the loop -/\n"
                   f"def split {ssig} :\n    List (List Int × List Int) :=\n{olets}"
                   f"  loop shuffle sort {largs} (makeRng seed) samples 0 folds.toNat\n")
    out.append(f"end NanoVerif.Gen.{ns}\n")
    return "\n".join(out)


def gen_splitter(repo, cpp, cls, ns):
    src = strip_comments(open(os.path.join(repo, cpp)).read())
    what = f"{cpp}: {cls}::split"
    head, body = function_body(src, f"{cls}::split", what)
    m = re.fullmatch(r"\s*indices_t\s+(\w+)\s*", head)
    if not m:
        raise TranslateError(f"{what}: parameter list `{head.strip()}` (expected one index vector by value)")
    f = SplitFn(what)
    f.top(body, m.group(1))
    return emit_splitter(f, ns, cpp)


# ---------------------------------------------------------------------------------------------------------------------
# sampling.cpp (the overloads with a generator), make_rng, make_udist

LAMBDA = re.compile(r"\[&\]\s*\(\)\s*\{\s*return\s+(\w+)\((\w+)\((\w+)\)\);\s*\}")


class SampFn:
    """a straight-line function over index vectors: asserts (contracts, compiled out under NDEBUG), distributions, a copy, a shuffle,
    a slice, std::generate with `[&]() { return samples(dist(rng)); }`, std::sort, return"""
    def __init__(self, what, params):
        self.what = what
        self.role = {}                 # C++ name -> samples | weights | count | rng
        for p in params:
            w = p.split()
            ty, name = " ".join(w[:-1]), w[-1]
            role = {"sample_indices_t": "samples", "sample_weights_t": "weights", "const tensor_size_t": "count",
                    "tensor_size_t": "count", "rng_t&": "rng"}.get(ty)
            if role is None or role in self.role.values():
                raise TranslateError(f"{what}: parameter `{p}`")
            self.role[name] = role
        self.guards = []; self.dists = {}; self.vars = {}; self.lines = []; self.ret = None
        self.nvec = 0

    def fail(self, msg):
        raise TranslateError(f"{self.what}: {msg}")

    def name_of(self, role):
        for k, v in self.role.items():
            if v == role:
                return k
        return None

    def ibind(self):
        b = {}
        for k, v in self.role.items():
            if v == "count":
                b[k] = "count"
            if v == "samples":
                b["SIZEOF_" + k] = "size"
            if v == "weights":
                b["SIZEOF_" + k] = "wsize"
        return b

    def walk(self, body):
        body = LAMBDA.sub(lambda m: f"LAMBDA_DRAW({m.group(1)}, {m.group(2)}, {m.group(3)})", body)
        rng = self.name_of("rng")
        for st in split_top(body):
            if st[0] != "stmt":
                self.fail(f"`{st[0]}` statement")
            s = st[1]
            if self.ret:
                self.fail(f"statement after return: `{s}`")
            m = re.fullmatch(r"assert\((.+)\)", s)
            if m:
                if self.lines:
                    self.fail("assert after the first effect")
                c = m.group(1)
                mw = re.fullmatch(r"(\w+)\.min\(\) >= 0\.0", c)
                if mw and self.role.get(mw.group(1)) == "weights":
                    self.guards.append("wmin0")
                else:
                    self.guards.append("decide (" + int_expr(c, self.ibind(), self.what) + ")")
                continue
            m = re.fullmatch(r"auto (\w+) = make_udist<tensor_size_t>\((.+)\)", s)
            if m:
                a = split_args(m.group(2))
                if len(a) != 2:
                    self.fail(f"make_udist arguments: `{s}`")
                lo, hi = (int_expr(x, self.ibind(), self.what) for x in a)
                self.dists[m.group(1)] = f".uniform {lo} {hi}"
                self.guards.append(f"udistGuard {lo} {hi}")
                continue
            m = re.fullmatch(r"auto (\w+) = std::discrete_distribution<tensor_size_t>\(std::begin\((\w+)\), std::end\((\w+)\)\)", s)
            if m:
                if m.group(2) != m.group(3) or self.role.get(m.group(2)) != "weights":
                    self.fail(f"discrete distribution not over the whole weights: `{s}`")
                self.dists[m.group(1)] = ".discrete"
                continue
            m = re.fullmatch(r"auto (\w+) = indices_t\{(\w+)\}", s)
            if m:
                v = f"v{self.nvec}"; self.nvec += 1
                r = self.role.get(m.group(2))
                if r == "samples":
                    self.vars[m.group(1)] = [v, "list"]
                    self.lines.append(f"let {v} : List Int := samples")
                elif r == "count":
                    self.vars[m.group(1)] = [v, "new:count"]
                else:
                    self.fail(f"`{s}`")
                continue
            m = re.fullmatch(r"std::shuffle\(std::begin\((\w+)\), std::end\((\w+)\), (\w+)\)", s)
            if m:
                x = self.vars.get(m.group(1))
                if m.group(1) != m.group(2) or m.group(3) != rng or not x or x[1] != "list":
                    self.fail(f"`{s}`")
                self.lines += [f"let r := shuffle rng {x[0]}", f"let {x[0]} := r.1", "let rng := r.2"]
                continue
            m = re.fullmatch(r"auto (\w+) = (\w+)\.slice\((.+)\)", s)
            if m:
                x = self.vars.get(m.group(2)); a = split_args(m.group(3))
                if not x or x[1] != "list" or len(a) != 2:
                    self.fail(f"`{s}`")
                lo, hi = (int_expr(t, self.ibind(), self.what) for t in a)
                v = f"v{self.nvec}"; self.nvec += 1
                self.vars[m.group(1)] = [v, "list"]
                self.lines.append(f"let {v} : List Int := slice {x[0]} {lo} {hi}")
                continue
            m = re.fullmatch(r"std::generate\(std::begin\((\w+)\), std::end\((\w+)\), LAMBDA_DRAW\((\w+), (\w+), (\w+)\)\)", s)
            if m:
                x = self.vars.get(m.group(1))
                if (m.group(1) != m.group(2) or not x or not x[1].startswith("new:") or self.role.get(m.group(3)) != "samples"
                        or m.group(4) not in self.dists or m.group(5) != rng):
                    self.fail(f"`{s}`")
                if len(self.dists) != 1:
                    self.fail("more than one distribution")
                self.lines += [f"let r := generate draw {x[1][4:]}.toNat rng", f"let {x[0]} : Option (List Int) := pickAll samples r.1",
                               "let rng := r.2"]
                x[1] = "opt"
                continue
            m = re.fullmatch(r"std::sort\(std::begin\((\w+)\), std::end\((\w+)\)\)", s)
            if m:
                x = self.vars.get(m.group(1))
                if m.group(1) != m.group(2) or not x or x[1] not in ("list", "opt"):
                    self.fail(f"`{s}`")
                self.lines.append(f"let {x[0]} := sort {x[0]}" if x[1] == "list" else f"let {x[0]} := {x[0]}.map sort")
                continue
            m = re.fullmatch(r"return (\w+)", s)
            if m:
                x = self.vars.get(m.group(1))
                if not x or x[1] not in ("list", "opt"):
                    self.fail(f"`{s}`")
                self.ret = x
                continue
            self.fail(f"statement not understood: `{s}`")
        if not self.ret:
            self.fail("no return")

    def emit(self, name, doc):
        weighted = "weights" in self.role.values()
        gsig = "(size wsize count : Int) (wmin0 : Bool)" if weighted else "(size count : Int)"
        out = [f"/-- the `assert`s of {doc} (contracts: compiled out under NDEBUG), incl. the one inside `make_udist` -/\n"
               f"def {name}Guards {gsig} : List Bool :=\n  [" + ", ".join(self.guards) + "]\n"]
        if self.dists:
            (d,) = self.dists.values()
            out.append(f"/-- the distribution asked by `std::generate` in {doc} -/\ndef {name}Dist (size count : Int) : Dist := {d}\n")
        opt = self.ret[1] == "opt"
        fn = ("(draw : G → Nat × G)" if self.dists else "(shuffle : G → List Int → List Int × G)")
        body = "".join(f"  {l}\n" for l in self.lines)
        out.append(f"/-- {doc}, statement by statement after the asserts (vector locals carry canonical names `v<k>`); the answer and\n"
                   f"    the generator afterwards{'; `none`: a drawn position is not one of `samples`' if opt else ''} -/\n"
                   f"def {name}Body {{G : Type}} {fn} (sort : List Int → List Int)\n"
                   f"    (samples : List Int) (count : Int) (rng : G) : {'Option (List Int)' if opt else 'List Int'} × G :=\n"
                   f"{body}  ({self.ret[0]}, rng)\n")
        return "\n".join(out)


SAMPLING_PRE = """/-- `make_udist<tensor_size_t>(lo, hi)` | `std::discrete_distribution` over the whole range of `weights` -/
inductive Dist
  | uniform (lo hi : Int)
  | discrete
deriving DecidableEq, Repr

/-- `v.slice(begin, end)` of an index vector -/
def slice (v : List Int) (b e : Int) : List Int := (v.drop b.toNat).take (e - b).toNat

/-- `std::generate(begin, end, f)` over `n` elements: `n` consecutive calls, the generator threaded -/
def generate {G : Type} (draw : G → Nat × G) : Nat → G → List Nat × G
  | 0, g => ([], g)
  | k + 1, g =>
    let d := draw g
    let r := generate draw k d.2
    (d.1 :: r.1, r.2)

/-- element `k` of the selection is `samples(draw_k)`; `none` when a draw is not a position of `samples` (the code reads outside) -/
def pickAll (samples : List Int) : List Nat → Option (List Int)
  | [] => some []
  | d :: ds =>
    match samples[d]?, pickAll samples ds with
    | some x, some xs => some (x :: xs)
    | _, _ => none
"""


def gen_make_rng(src):
    what = f"{RNG_CPP}: make_rng"
    head, body = function_body(src, "nano::make_rng", what)
    m = re.fullmatch(r"\s*seed_t\s+(\w+)\s*", head)
    if not m:
        raise TranslateError(f"{what}: parameter list `{head.strip()}`")
    seed = m.group(1)
    st = split_top(body)
    if len(st) != 1 or st[0][0] != "if" or st[0][3] is None:
        raise TranslateError(f"{what}: body is not one if / else")
    cond = st[0][1]
    c = re.sub(r"\*" + seed + r"\b|\b" + seed + r"\.value\(\)", "SEEDVAL", cond)
    c = re.sub(r"\b" + seed + r"\.has_value\(\)", "SEEDSOME", c)
    c = re.sub(r"\b" + seed + r"\b", "SEEDSOME", c)
    lean = int_expr(c, {"SEEDSOME": "seed.isSome = true", "SEEDVAL": "(seed.getD 0 : Int)"}, what)
    yes = [x for x in split_top(st[0][2])]; no = [x for x in split_top(st[0][3])]
    m1 = len(yes) == 1 and yes[0][0] == "stmt" and re.fullmatch(
        r"return rng_t\{static_cast<rng_t::result_type>\((.+)\)\}", yes[0][1])
    if not m1:
        raise TranslateError(f"{what}: seeded branch `{yes}`")
    val = int_expr(m1.group(1).replace("*" + seed, "SEEDVAL"), {"SEEDVAL": "s"}, what)
    ok = (len(no) == 2 and no[0][0] == "stmt" and re.fullmatch(r"auto (\w+) = std::random_device\{\}", no[0][1]) and
          re.fullmatch(r"return rng_t\{static_cast<rng_t::result_type>\(" + re.escape(no[0][1].split()[1]) + r"\(\)\)\}", no[1][1]))
    if not ok:
        raise TranslateError(f"{what}: unseeded branch `{no}`")
    return (f"/-- `make_rng(seed_t seed)` ({RNG_CPP}): the condition `if ({cond})` of the branch that seeds the engine from the argument\n"
            f"    (`seed_t` = `std::optional<uint64_t>`); the other branch reads `std::random_device` -/\n"
            f"def makeRngSeeded (seed : Option Nat) : Bool := decide ({lean})\n\n"
            f"/-- what the engine is seeded with in that branch, as a function of the value `s` held by the optional -/\n"
            f"def makeRngSeedValue (s : Int) : Int := {val}\n")


def gen_make_udist(hdr):
    what = f"{RNG_H}: make_udist"
    m = re.search(r"inline auto make_udist\(const tscalar (\w+), const tscalar (\w+)\)\s*\{", hdr)
    if not m:
        raise TranslateError(f"definition of {what} not found")
    body = block_after(hdr, m.end() - 1)[0]
    lo, hi = m.group(1), m.group(2)
    asserts = re.findall(r"assert\(([^;]*)\);", body)
    rets = re.findall(r"return udist_t<\w+>\(([^;]*)\);", body)
    if not asserts or body.strip().find("assert") != 0 or len(rets) != 3:
        raise TranslateError(f"{what}: expected asserts first, then three `return udist_t<…>(…)`")
    bind = {lo: "lo", hi: "hi"}
    g = " && ".join("decide (" + int_expr(a, bind, what) + ")" for a in asserts)
    bs = {tuple(int_expr(x, bind, what) for x in split_args(r)) for r in rets}
    if len(bs) != 1 or len(next(iter(bs))) != 2:
        raise TranslateError(f"{what}: the branches construct different ranges")
    a, b = next(iter(bs))
    return (f"/-- the `assert`s of `make_udist(min, max)` ({RNG_H}) -/\ndef udistGuard (lo hi : Int) : Bool := {g}\n\n"
            f"/-- the closed range handed to `std::uniform_int_distribution` (the same in every `if constexpr` branch) -/\n"
            f"def udistBounds (lo hi : Int) : Int × Int := ({a}, {b})\n")


def gen_sampling(repo):
    rd = lambda p: strip_comments(open(os.path.join(repo, p)).read())
    src = rd(SAMPLING_CPP)
    found = {}; wrappers = []
    for m in re.finditer(r"indices_t\s+nano::(sample_with_replacement|sample_without_replacement)\s*\(([^)]*)\)\s*\{", src):
        name, params = m.group(1), [" ".join(p.split()) for p in m.group(2).split(",")]
        body = block_after(src, m.end() - 1)[0]
        what = f"{SAMPLING_CPP}: {name}({', '.join(params)})"
        if not any(p.startswith("rng_t&") for p in params):
            # the overloads without a generator: `auto rng = make_rng(); return <same name>(<same arguments>, rng);`
            st = split_top(body)
            names = [p.split()[-1] for p in params]
            if (len(st) != 2 or st[0] != ("stmt", "auto rng = make_rng()") or
                    st[1] != ("stmt", f"return {name}({', '.join(names + ['rng'])})")):
                raise TranslateError(f"{what}: not a wrapper around the overload with a generator")
            wrappers.append((name, len(params)))
            continue
        f = SampFn(what, params)
        f.walk(body)
        key = ("weighted" if "weights" in f.role.values() else "with") if name == "sample_with_replacement" else "without"
        if key in found:
            raise TranslateError(f"{what}: second definition")
        found[key] = (f, what)
    if sorted(found) != ["weighted", "with", "without"]:
        raise TranslateError(f"{SAMPLING_CPP}: overloads with a generator found: {sorted(found)}")
    out = [f"-- GENERATED by tools/props/c12_translate.py from {SAMPLING_CPP}, {RNG_CPP}, {RNG_H} — do not edit",
           "/-! The sampling utilities statement by statement. Sizes and counts are `tensor_size_t` = `Int`; `std::shuffle`, `std::sort` and\n"
           "    `operator()` of the distribution are parameters. -/",
           "set_option linter.unusedVariables false", "namespace NanoVerif.Gen.SplitSampling\n", SAMPLING_PRE,
           gen_make_udist(rd(RNG_H)), gen_make_rng(rd(RNG_CPP))]
    for key in ("without", "with", "weighted"):
        f, what = found[key]
        out.append(f.emit(key, f"`{what.split(': ', 1)[1]}`"))
    ws = ", ".join(f'("{n}", {k})' for n, k in sorted(wrappers))
    out.append("/-- the overloads without a generator argument (name, number of parameters): each is `auto rng = make_rng();` (the\n"
               "    `std::random_device` branch) followed by the call of the overload above -/\n"
               f"def unseededWrappers : List (String × Nat) := [{ws}]\n")
    out.append("end NanoVerif.Gen.SplitSampling\n")
    return "\n".join(out)


# ---------------------------------------------------------------------------------------------------------------------
# gboost/sampler.cpp: which routine per mode, with which weights, the count formula, the constructor's weight buffer

SAMPLER_CPP = "src/gboost/sampler.cpp"
ENUMS_H = "include/nano/gboost/enums.h"
OUT_GBOOST = os.path.join(GEN, "SplitGboost.lean")


def camel(name):
    w = name.split("_")
    return w[0] + "".join(x.capitalize() for x in w[1:])


def gen_gboost(repo):
    rd = lambda p: strip_comments(open(os.path.join(repo, p)).read())
    src, enums = rd(SAMPLER_CPP), rd(ENUMS_H)
    m = re.search(r"enum class gboost_subsample[^{]*\{([^}]*)\}", enums)
    if not m:
        raise TranslateError(f"{ENUMS_H}: enum class gboost_subsample not found")
    modes = [x.strip() for x in m.group(1).split(",") if x.strip()]
    if not all(re.fullmatch(r"[a-z_]+", x) for x in modes):
        raise TranslateError(f"{ENUMS_H}: enumerators of gboost_subsample: {modes}")
    # constructor: the member initialisers
    what = f"{SAMPLER_CPP}: sampler_t::sampler_t"
    m = re.search(r"sampler_t::sampler_t\(const indices_t& (\w+), const gboost_subsample (\w+), const uint64_t (\w+), const scalar_t (\w+)\)\s*:(.*?)\{\s*\}", src, re.S)
    if not m:
        raise TranslateError(f"{what}: signature / empty body not found")
    a_samples, a_type, a_seed, a_ratio = m.group(1, 2, 3, 4)
    inits = " ".join(m.group(5).split())
    mi = re.fullmatch(r"m_samples\(" + a_samples + r"\) , m_type\(" + a_type + r"\) , m_rng\(make_rng\(" + a_seed + r"\)\) , m_ratio\(" + a_ratio +
                      r"\) , m_weights\(\((.+)\) \? tensor_size_t\{0\} : " + a_samples + r"\.size\(\)\)", inits)
    if not mi:
        raise TranslateError(f"{what}: member initialisers `{inits}`")
    empty = []
    for t in mi.group(1).split("||"):
        mt = re.fullmatch(r"\s*m_type == gboost_subsample::(\w+)\s*", t)
        if not mt or mt.group(1) not in modes:
            raise TranslateError(f"{what}: condition of the empty weight buffer `{mi.group(1)}`")
        empty.append(mt.group(1))
    # sample()
    what = f"{SAMPLER_CPP}: sampler_t::sample"
    head, body = function_body(src, "sampler_t::sample", what)
    tops = split_top(body)
    if len(tops) != 2 or tops[0][0] != "stmt" or tops[1][0] != "switch" or tops[1][1] != "m_type":
        raise TranslateError(f"{what}: expected `const auto count = …;` and one `switch (m_type)`")
    mc = re.fullmatch(r"const auto (\w+) = static_cast<tensor_size_t>\(m_ratio \* static_cast<scalar_t>\(m_samples\.size\(\)\)\)", tops[0][1])
    if not mc:
        raise TranslateError(f"{what}: count formula `{tops[0][1]}`")
    cnt = mc.group(1)
    parts = re.split(r"\b(case\s+gboost_subsample::\w+\s*:|default\s*:)", tops[1][2])
    if parts[0].strip():
        raise TranslateError(f"{what}: text before the first case label")
    routes = {}
    for lab, blk in zip(parts[1::2], parts[2::2]):
        blk = blk.strip()
        if not (blk.startswith("{") and blk.endswith("}")):
            raise TranslateError(f"{what}: `{lab}` is not followed by one braced block")
        inner = split_top(blk[1:-1])
        if lab.startswith("default"):
            if inner != [("stmt", "assert(false)"), ("stmt", "return indices_t{}")]:
                raise TranslateError(f"{what}: default branch `{inner}`")
            continue
        name = re.search(r"gboost_subsample::(\w+)", lab).group(1)
        if name not in modes or name in routes:
            raise TranslateError(f"{what}: case label `{lab}`")
        rule = ".keep"
        if len(inner) == 2 and inner[0][0] == "for":
            if not re.fullmatch(r"tensor_size_t (\w+) = 0, (\w+) = m_samples\.size\(\); \1 < \2; \+\+\1", inner[0][1]):
                raise TranslateError(f"{what}: case {name}: loop header `{inner[0][1]}`")
            i = inner[0][1].split()[1]
            st = split_top(inner[0][2])
            mw = len(st) == 1 and st[0][0] == "stmt" and re.fullmatch(r"m_weights\(" + i + r"\) = (.+)", st[0][1])
            if not mw:
                raise TranslateError(f"{what}: case {name}: loop body `{st}`")
            rhs = mw.group(1)
            idx = lambda t: ".sample" if t == f"m_samples({i})" else ".position" if t == i else None
            m1 = re.fullmatch(r"errors_losses\((\d+), (.+)\)", rhs)
            m2 = re.fullmatch(r"gradients\.vector\((.+)\)\.lpNorm<(\d+)>\(\)", rhs)
            if m1 and idx(m1.group(2)):
                rule = f".loss {m1.group(1)} {idx(m1.group(2))}"
            elif m2 and idx(m2.group(1)):
                rule = f".gradNorm {m2.group(2)} {idx(m2.group(1))}"
            else:
                raise TranslateError(f"{what}: case {name}: weight `{rhs}`")
            inner = inner[1:]
        if len(inner) != 1 or inner[0][0] != "stmt":
            raise TranslateError(f"{what}: case {name}: `{inner}`")
        r = inner[0][1]
        routine = {"return m_samples": ".identity",
                   f"return sample_without_replacement(m_samples, {cnt}, m_rng)": ".without",
                   f"return sample_with_replacement(m_samples, {cnt}, m_rng)": ".withUniform",
                   f"return sample_with_replacement(m_samples, m_weights, {cnt}, m_rng)": ".withWeights"}.get(r)
        if routine is None:
            raise TranslateError(f"{what}: case {name}: `{r}`")
        if (rule != ".keep") != (routine == ".withWeights"):
            raise TranslateError(f"{what}: case {name}: weights written but not used, or used but not written")
        routes[name] = (routine, rule)
    if sorted(routes) != sorted(modes):
        raise TranslateError(f"{what}: cases {sorted(routes)} vs enumerators {sorted(modes)}")
    out = [f"-- GENERATED by tools/props/c12_translate.py from {SAMPLER_CPP}, {ENUMS_H} — do not edit",
           "/-! `gboost::sampler_t`: the constructor's weight buffer, the count formula and, per `gboost_subsample` mode, the sampling routine\n"
           "    that is called and the rule that fills `m_weights` before. -/",
           "namespace NanoVerif.Gen.SplitGboost\n",
           f"/-- `enum class gboost_subsample` ({ENUMS_H}), in declaration order -/\ninductive Mode\n" +
           "\n".join(f"  | {camel(x)}" for x in modes) + "\nderiving DecidableEq, Repr\n",
           "/-- the argument of the weight: `m_samples(i)` (the sample index) or `i` (the position in the sample list) -/\n"
           "inductive Idx\n  | sample\n  | position\nderiving DecidableEq, Repr\n",
           "/-- `m_weights(i) = …` in the loop before the call: nothing written | `errors_losses(row, idx)` | `gradients.vector(idx).lpNorm<p>()` -/\n"
           "inductive WeightRule\n  | keep\n  | loss (row : Nat) (idx : Idx)\n  | gradNorm (p : Nat) (idx : Idx)\nderiving DecidableEq, Repr\n",
           "/-- `return m_samples` | `sample_without_replacement(m_samples, count, m_rng)` | `sample_with_replacement(m_samples, count, m_rng)` |\n"
           "    `sample_with_replacement(m_samples, m_weights, count, m_rng)` -/\n"
           "inductive Routine\n  | identity\n  | without\n  | withUniform\n  | withWeights\nderiving DecidableEq, Repr\n",
           "/-- the `switch (m_type)` of `sampler_t::sample` -/\ndef route : Mode → Routine × WeightRule\n" +
           "\n".join(f"  | .{camel(x)} => ({routes[x][0]}, {routes[x][1]})" for x in modes) + "\n",
           "/-- constructor: `m_weights` has no element for these modes, `samples.size()` elements otherwise -/\n"
           "def weightsEmpty (m : Mode) : Bool := " + " || ".join(f"m == .{camel(x)}" for x in empty) + "\n",
           "/-- `count = static_cast<tensor_size_t>(m_ratio * static_cast<scalar_t>(m_samples.size()))` with the two casts as parameters -/\n"
           "def count {α : Type} [Mul α] (toIndex : α → Nat) (toScalar : Nat → α) (ratio : α) (size : Nat) : Nat :=\n"
           "  toIndex (ratio * toScalar size)\n",
           "end NanoVerif.Gen.SplitGboost\n"]
    return "\n".join(out)


def generate(repo):
    return {OUT_KFOLD: gen_splitter(repo, KFOLD_CPP, "kfold_splitter_t", "SplitKFold"),
            OUT_RANDOM: gen_splitter(repo, RANDOM_CPP, "random_splitter_t", "SplitRandom"),
            OUT_SAMPLING: gen_sampling(repo),
            OUT_GBOOST: gen_gboost(repo)}


def translate():
    try:
        files = generate(vlib.REPO)
    except (TranslateError, OSError) as ex:
        raise vlib.Broken("translate", f"c12_translate: {ex}")
    for path, text in files.items():
        vlib.write_if_changed(path, text)
    return list(files)


if __name__ == "__main__":
    import sys
    for path, text in generate(sys.argv[1] if len(sys.argv) > 1 else vlib.REPO).items():
        sys.stdout.write(f"-- ==== {os.path.basename(path)}\n{text}\n")
