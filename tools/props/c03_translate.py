"""C03: C++ -> Lean translator for the scalar formulas and decision chains of the non-smooth solvers (DESIGN.md §2.3.a).

Extracts *by function name* from the source of the repository under check (vlib.REPO):
  solver_ellipsoid_t::do_minimize (src/solver/ellipsoid.cpp)        -> lean/NanoVerif/Gen/EllipsoidStep.lean
      the whole loop body is walked statement by statement (any statement it does not expect breaks the translation):
      start scale of H, early-exit test + the flags it hands to `done`, 1-D step, deep-cut alpha, centre step and H update
      (element-wise: the Eigen products `Hm * gv`, `Hm * gv * gv.transpose() * Hm` become the arguments hgi, hgi * ghj),
      iter_ok, the stopping test
  bundle_t::econverged / sconverged, the 4-argument bundle_t::append, delete_largest's count, the one- and two-row branches of
  bundle_t::solve (src/solver/bundle.cpp),
  bundle_t::delta / proximal (include/nano/solver/bundle.h),
  csearch_t::search: start values, the lambda new_trial, the decision chain of one pass by symbolic execution of the loop body
      (status assignments, break / continue, updates of t, tL, tR), enum csearch_status (src/solver/csearch.cpp, csearch.h),
  make_miu0, make_miu (decision), the nu combination, the alpha grid and the `!= max` guards of proximity_t::update
      (src/solver/proximity.cpp); the flags handed to solver_t::done and the dispatch on the curve-search status of the outer
      loops (src/solver/rqb.cpp, src/solver/fpba.cpp), whose branch bodies are pinned as text
                                                                      -> lean/NanoVerif/Gen/BundleStep.lean
The expression parser is the one of c07_translate (subclassed: literals through 0, 1, 2 only, `!`, `std::isfinite`).
Locals introduced by `const auto NAME = …` are bound by position, so renaming them does not change the generated text.
"""
import os, re
from fractions import Fraction
import vlib
from props import c07_translate as T7

TranslateError = T7.TranslateError
OUT_E = os.path.join(vlib.LEAN, "NanoVerif", "Gen", "EllipsoidStep.lean")
OUT_B = os.path.join(vlib.LEAN, "NanoVerif", "Gen", "BundleStep.lean")


# ---------------------------------------------------------------------------------------------------------------------
# expressions

def intlit(n):
    """a non-negative integer through the literals 0, 1, 2 only (the classes of the models): 5 -> (2 * 2 + 1)"""
    if n < 0 or n >= 2 ** 20:
        raise TranslateError(f"integer literal {n} out of range")
    if n <= 2:
        return f"({n} : α)"
    q, r = divmod(n, 2)
    return f"((2 : α) * {intlit(q)}" + (" + (1 : α))" if r else ")")


def num3(text):
    q = Fraction(text)
    if q.denominator == 1:
        return intlit(q.numerator)
    return f"({intlit(q.numerator)} / {intlit(q.denominator)})"


class P3(T7.Parser):
    def unary(self):
        if self.peek()[1] == "!":
            self.eat(); return f"(!{self.unary()})"
        return super().unary()

    def primary(self):
        k = self.peek()
        if k[0] == "num":
            self.eat(); return num3(k[1])
        if k == ("id", "std::isfinite") and "std::isfinite" in self.bind:
            self.eat(); self.eat("("); e = self.expr(); self.eat(")")
            return f"({self.bind['std::isfinite']} {e})"
        return super().primary()


def ws(s):
    return " ".join(s.split())


def nows(s):
    return "".join(s.split())


def expr(text, bind, what, subst=()):
    t = nows(text)
    for a, b in subst:
        t = t.replace(a, b)
    p = P3(T7.tokenize(t), bind)
    e = p.expr()
    if p.peek()[0] != "eof":
        raise TranslateError(f"{what}: trailing tokens after the expression `{ws(text)}`")
    return e


def is_bool(e):
    return e.startswith("decide") or "&&" in e or "||" in e or e.startswith("(!")


def as_cond(e):
    """a pure comparison is used as a proposition"""
    m = re.fullmatch(r"decide \((.*)\)", e)
    return m.group(1) if m and T7.balanced(m.group(1)) else e


# ---------------------------------------------------------------------------------------------------------------------
# blocks

def read_group(s, i, o, c, what):
    """s[i] == o; returns (text inside, index after the matching c)"""
    if i >= len(s) or s[i] != o:
        raise TranslateError(f"{what}: expected `{o}` at: {ws(s[i:i + 40])}")
    d, j = 1, i + 1
    while d:
        if j >= len(s):
            raise TranslateError(f"{what}: unbalanced `{o}`")
        d += (s[j] == o) - (s[j] == c)
        j += 1
    return s[i + 1:j - 1], j


def skip(s, i):
    while i < len(s) and s[i].isspace():
        i += 1
    return i


def split_items(s, what):
    """top-level items of a block: ('stmt', text) | ('if', [(cond, body) …], else body | None) | ('while' | 'for', head, body)"""
    out, i = [], 0
    while True:
        i = skip(s, i)
        if i >= len(s):
            return out
        m = re.match(r"(if|while|for)\s*(?=\()", s[i:])
        if m:
            kw = m.group(1)
            cond, j = read_group(s, i + m.end(), "(", ")", what)
            body, j = read_group(s, skip(s, j), "{", "}", what)
            if kw != "if":
                out.append((kw, ws(cond), body)); i = j; continue
            arms, els = [(ws(cond), body)], None
            while True:
                m2 = re.match(r"\s*else\s+if\s*(?=\()", s[j:])
                if m2:
                    c2, j2 = read_group(s, j + m2.end(), "(", ")", what)
                    b2, j = read_group(s, skip(s, j2), "{", "}", what)
                    arms.append((ws(c2), b2)); continue
                m3 = re.match(r"\s*else\b", s[j:])
                if m3:
                    els, j = read_group(s, skip(s, j + m3.end()), "{", "}", what)
                break
            out.append(("if", arms, els)); i = j; continue
        d, j = 0, i
        while True:
            if j >= len(s):
                raise TranslateError(f"{what}: statement without `;`: {ws(s[i:i + 60])}")
            d += (s[j] in "({[") - (s[j] in ")}]")
            if s[j] == ";" and d == 0:
                break
            j += 1
        out.append(("stmt", ws(s[i:j]))); i = j + 1


def definitions(src, name, path):
    """[(parameter text, body)] of every definition `name(…) [const] {…}`"""
    out = []
    for m in re.finditer(r"\b" + re.escape(name) + r"\s*(?=\()", src):
        try:
            params, j = read_group(src, m.end(), "(", ")", name)
        except TranslateError:
            continue
        m2 = re.match(r"\s*(?:const)?\s*(?:noexcept)?\s*(?=\{)", src[j:])
        if not m2:
            continue
        body, _ = read_group(src, j + m2.end(), "{", "}", name)
        out.append((ws(params), body))
    if not out:
        raise TranslateError(f"definition of {name} not found in {path}")
    return out


def clean(body):
    """comments, asserts, trace hooks and logger calls removed"""
    body = T7.strip_comments(body)
    for kw in ("assert", "NANO_VERIF_TRACE", r"logger\.info", r"logger\.error"):
        while True:
            m = re.search(r"\b" + kw + r"\s*(?=\()", body)
            if not m:
                break
            _, j = read_group(body, m.end(), "(", ")", kw)
            m2 = re.match(r"\s*;", body[j:])
            if not m2:
                raise TranslateError(f"{kw}(…) is not a statement")
            body = body[:m.start()] + body[j + m2.end():]
    return body


def stmt(items, k, what):
    if k >= len(items) or items[k][0] != "stmt":
        raise TranslateError(f"{what}: statement {k} expected, got {items[k][0] if k < len(items) else 'the end of the block'}")
    return items[k][1]


def expect(items, k, pattern, what):
    """statement k must match the regular expression (blanks removed); returns the match"""
    t = nows(stmt(items, k, what))
    m = re.fullmatch(pattern, t)
    if not m:
        raise TranslateError(f"{what}: unexpected statement `{stmt(items, k, what)}` (expected {pattern})")
    return m


def read(repo, path):
    try:
        return open(os.path.join(repo, path)).read()
    except OSError as ex:
        raise TranslateError(f"cannot read {path}: {ex}")


VARS = ("variable {α : Type} [Add α] [Sub α] [Mul α] [Div α] [Neg α] [LT α] [LE α] [DecidableLT α] [DecidableLE α]\n"
        "  [OfNat α 0] [OfNat α 1] [OfNat α 2]\n")
ID = r"[A-Za-z_]\w*"


# ---------------------------------------------------------------------------------------------------------------------
# ellipsoid

E_CPP = "src/solver/ellipsoid.cpp"
HEADER_E = f"""-- GENERATED by tools/props/c03.py (c03_translate.py) from {E_CPP} — do not edit
/-!
  The scalar formulas of one pass of `solver_ellipsoid_t::do_minimize`, re-translated from the C++ source text on every check
  (DESIGN.md §2.3.a). Core Lean only, no import; scalar-generic. `std::sqrt` / `std::isfinite` are the parameters `sqrt` / `fin`;
  `epsM` = `std::numeric_limits<scalar_t>::epsilon()`; `best` = `state.fx()`; `n` = `static_cast<scalar_t>(function.size())`.
  The Eigen statements are translated element-wise: `xi` = `xv(i)`, `hij` = `Hm(i,j)`, `hgi` = `(Hm * gv)(i)`,
  `hgi * ghj` = `(Hm * gv * gv.transpose() * Hm)(i,j)`. Tied to Model/Ellipsoid.lean by Proofs/EllipsoidGen.lean.
-/
set_option linter.unusedVariables false
namespace NanoVerif.Gen.EllipsoidStep
section
{VARS}"""


def generate_ellipsoid(repo):
    src = read(repo, E_CPP)
    W = "solver_ellipsoid_t::do_minimize"
    defs = definitions(src, W, E_CPP)
    if len(defs) != 1:
        raise TranslateError(f"{W}: {len(defs)} definitions")
    items = split_items(clean(defs[0][1]), W)
    out = [HEADER_E]

    def emit(doc, sig, body):
        out.append(f"/-- {doc} -/\ndef {sig} :=\n  {body}\n")

    # before the loop
    pre = [it for it in items if it[0] == "stmt"]
    texts = [nows(t[1]) for t in pre]
    if "constautoR=parameter(\"solver::ellipsoid::R\").value<scalar_t>()" not in texts:
        raise TranslateError(f"{W}: `R` is not read from solver::ellipsoid::R")
    if "constautoepsilon=parameter(\"solver::epsilon\").value<scalar_t>()" not in texts:
        raise TranslateError(f"{W}: `epsilon` is not read from solver::epsilon")
    if "constauton=static_cast<scalar_t>(function.size())" not in texts:
        raise TranslateError(f"{W}: `n` is not the dimension")
    for need in ("autostate=solver_state_t{function,x0}", "autox=state.x()", "autof=state.fx()", "autog=state.gx()",
                 "autoH=matrix_t{matrix_t::identity(function.size(),function.size())}", "autoxv=x.vector()", "autogv=g.vector()",
                 "autoHm=H.matrix()"):
        if need not in texts:
            raise TranslateError(f"{W}: start statement `{need}` not found")
    scale = [t for t in texts if t.startswith("H.array()*=")]
    if len(scale) != 1:
        raise TranslateError(f"{W}: the scaling of the start matrix was not found")
    m = re.fullmatch(r"H\.array\(\)\*=function\.size\(\)==1\?(.*?):(.*)", scale[0])
    if not m:
        raise TranslateError(f"{W}: start scale not translated: {scale[0]}")
    b = {"R": "R"}
    emit(f"`{ws(pre[texts.index(scale[0])][1])};`", "initScale (dim : Nat) (R : α) : α",
         f"if dim = 1 then {expr(m.group(1), b, W)} else {expr(m.group(2), b, W)}")

    loops = [it for it in items if it[0] == "while"]
    if len(loops) != 1 or [it for it in items if it[0] in ("if", "for")]:
        raise TranslateError(f"{W}: exactly one while loop and no other compound statement expected")
    if nows(loops[0][1]) != "function.fcalls()+function.gcalls()<max_evals":
        raise TranslateError(f"{W}: loop condition `{loops[0][1]}`")
    L = split_items(loops[0][2], W)
    if len(L) != 8:
        raise TranslateError(f"{W}: the loop body has {len(L)} statements, 8 expected")

    # 0: gHg
    m = expect(L, 0, rf"constauto({ID})=gv\.dot\(Hm\*gv\)", W)
    ghg = m.group(1)
    # 1: early exit
    if L[1][0] != "if" or len(L[1][1]) != 1 or L[1][2] is not None:
        raise TranslateError(f"{W}: early-exit `if` expected after gHg")
    cond, body = L[1][1][0]
    e = expr(cond, {ghg: "gHg", "MACHEPS": "epsM"}, W, [("std::numeric_limits<scalar_t>::epsilon()", "MACHEPS")])
    if not e.startswith("decide"):
        raise TranslateError(f"{W}: early-exit test is not a comparison")
    emit(f"`if ({cond})`", "earlyStop (epsM gHg : α) : Bool", e)
    B = split_items(body, W)
    if len(B) != 4:
        raise TranslateError(f"{W}: early-exit block has {len(B)} statements")
    m1 = expect(B, 0, rf"constauto({ID})=(true|false)", W)
    m2 = expect(B, 1, rf"constauto({ID})=(true|false)", W)
    expect(B, 2, rf"solver_t::done\(state,{m1.group(1)},{m2.group(1)},logger\)", W)
    expect(B, 3, "break", W)
    emit("`iter_ok` handed to `solver_t::done` by the early exit", "earlyIterOk : Bool", m1.group(2))
    emit("`converged` handed to `solver_t::done` by the early exit", "earlyConverged : Bool", m2.group(2))
    # 2: 1-D / n-D
    if L[2][0] != "if" or len(L[2][1]) != 1 or L[2][2] is None or nows(L[2][1][0][0]) != "function.size()==1":
        raise TranslateError(f"{W}: `if (function.size() == 1) … else …` expected")
    A = split_items(L[2][1][0][1], W)
    if len(A) != 2:
        raise TranslateError(f"{W}: 1-D block has {len(A)} statements")
    m = expect(A, 0, r"x\.array\(\)\+=(.*)", W)
    e = expr(m.group(1), {"H0": "h", "G0": "g"}, W, [("H(0)", "H0"), ("g(0)", "G0")])
    emit(f"`{A[0][1]};`", "step1dX (x h g : α) : α", f"x + {e}")
    m = expect(A, 1, r"Hm/=(.*)", W)
    emit(f"`{A[1][1]};`", "step1dH (h : α) : α", f"h / {expr(m.group(1), {}, W)}")
    N = split_items(L[2][2], W)
    if len(N) != 3:
        raise TranslateError(f"{W}: n-D block has {len(N)} statements")
    m = expect(N, 0, rf"constauto({ID})=(.*)", W)
    alpha = m.group(1)
    e = expr(m.group(2), {"f": "f", "state.fx()": "best", ghg: "gHg", "std::sqrt": "sqrt"}, W)
    emit(f"`{N[0][1]};`", "alphaCut (sqrt : α → α) (f best gHg : α) : α", e)
    m = expect(N, 1, r"xv\.noalias\(\)=(.*)", W)
    bn = {"n": "n", alpha: "alpha", ghg: "gHg", "std::sqrt": "sqrt", "xv": "xi", "HG": "hgi", "Hm": "hij", "HGGH": "(hgi * ghj)"}
    sub = [("(Hm*gv*gv.transpose()*Hm)", "HGGH"), ("(Hm*gv)", "HG")]
    e = expr(m.group(1), {k: v for k, v in bn.items() if k not in ("Hm", "HGGH")}, W, sub)
    emit(f"`{N[1][1]};` element i", "stepXElem (sqrt : α → α) (n alpha gHg xi hgi : α) : α", e)
    m = expect(N, 2, r"Hm\.noalias\(\)=(.*)", W)
    e = expr(m.group(1), {k: v for k, v in bn.items() if k not in ("xv", "HG", "std::sqrt")}, W, sub)
    emit(f"`{N[2][1]};` element (i, j)", "stepHElem (n alpha gHg hij hgi ghj : α) : α", e)
    # 3..7
    expect(L, 3, r"f=function\.vgrad\(x,g\)", W)
    expect(L, 4, r"state\.update_if_better\(x,g,f\)", W)
    m1 = expect(L, 5, rf"constauto({ID})=std::isfinite\(f\)", W)
    emit(f"`{L[5][1]};`", "iterOk (fin : α → Bool) (f : α) : Bool", "fin f")
    m2 = expect(L, 6, rf"constauto({ID})=(.*)", W)
    e = expr(m2.group(2), {ghg: "gHg", "epsilon": "eps", "std::sqrt": "sqrt"}, W)
    if not e.startswith("decide"):
        raise TranslateError(f"{W}: the stopping test is not a comparison")
    emit(f"`{L[6][1]};`", "converged (sqrt : α → α) (eps gHg : α) : Bool", e)
    if L[7][0] != "if" or len(L[7][1]) != 1 or L[7][2] is not None or \
            nows(L[7][1][0][0]) != f"solver_t::done(state,{m1.group(1)},{m2.group(1)},logger)" or nows(L[7][1][0][1]) != "break;":
        raise TranslateError(f"{W}: `if (solver_t::done(state, iter_ok, converged, logger)) break;` expected at the end of the loop")
    out.append("end\nend NanoVerif.Gen.EllipsoidStep\n")
    return "\n".join(out)


# ---------------------------------------------------------------------------------------------------------------------
# bundle, curve search, proximity

B_CPP, B_H = "src/solver/bundle.cpp", "include/nano/solver/bundle.h"
C_CPP, C_H = "src/solver/csearch.cpp", "include/nano/solver/csearch.h"
P_CPP = "src/solver/proximity.cpp"
HEADER_B = f"""-- GENERATED by tools/props/c03.py (c03_translate.py) from {B_CPP}, {B_H}, {C_CPP}, {C_H}, {P_CPP}, src/solver/rqb.cpp, src/solver/fpba.cpp — do not edit
import NanoVerif.Model.Bundle
/-!
  The scalar formulas and decision chains of the proximal bundle solvers, re-translated from the C++ source text on every check
  (DESIGN.md §2.3.a). Core Lean only; scalar-generic; only the TYPES `Status`, `CParams`, `CState`, `Outcome` are taken from
  Model/Bundle.lean. Reductions over vectors are arguments: `sme` = `smeared_e()`, `smsnorm` = `smeared_s().lpNorm<2>()`,
  `smssq` = `smeared_s().squaredNorm()`, `ndim` = `static_cast<scalar_t>(m_x.size())`, `sd` = `m_bundleS.vector(i).dot(y - m_x)`,
  `gd` = `gy.dot(m_x - y)`; in the curve search `dl` = `bundle.delta(miu / t)`, `gyd` = `gy.dot(y - x)`, `sd` = `s.dot(y - x)`,
  `finiteFy` = `std::isfinite(fy)`, and `tR = +infinity` is `none`. Tied to the models by Proofs/BundleGen.lean.
-/
set_option linter.unusedVariables false
namespace NanoVerif.Gen.BundleStep
open NanoVerif.Bundle
section
{VARS}
/-- `std::abs` -/
def absv (x : α) : α := if x < 0 then -x else x
"""

VSUB = [(r"static_cast<scalar_t>(m_x.size())", "NDIM"), ("smeared_s().templatelpNorm<2>()", "SMSNORM"),
        ("smeared_s().lpNorm<2>()", "SMSNORM"), ("smeared_s().squaredNorm()", "SMSSQ"), ("smeared_e()", "SME"),
        ("smeared_s()", "SMS"), ("epsilon0<scalar_t>()", "EPS0"), ("std::numeric_limits<scalar_t>::max()", "FMAX")]
VBIND = {"NDIM": "ndim", "SMSNORM": "smsnorm", "SMSSQ": "smssq", "SME": "sme", "EPS0": "eps0", "FMAX": "fmax",
         "epsilon": "eps", "std::sqrt": "sqrt", "miu": "miu"}


def lets_return(body, bind, what, subst):
    """`const auto x = e; … return e;` -> (lean lets, lean result, quoted source)"""
    items = split_items(clean(body), what)
    bind = dict(bind)
    lets, ret, k = [], None, 0
    for it in items:
        if it[0] != "stmt" or ret is not None:
            raise TranslateError(f"{what}: only `const auto x = e;` … `return e;` is translated")
        m = re.fullmatch(rf"const (?:auto|scalar_t) ({ID}) = (.*)", it[1])
        if m:
            k += 1
            lets.append((f"v{k}", expr(m.group(2), bind, what, subst)))
            bind[m.group(1)] = f"v{k}"
            continue
        m = re.fullmatch(r"return (.*)", it[1])
        if not m:
            raise TranslateError(f"{what}: statement not translated: {it[1]}")
        ret = expr(m.group(1), bind, what, subst)
    if ret is None:
        raise TranslateError(f"{what}: no return statement")
    return "".join(f"let {n} := {v}\n  " for n, v in lets) + ret, ws(T7.strip_comments(body))


def camel(name):
    p = name.split("_")
    return p[0] + "".join(w.capitalize() for w in p[1:])


def sym_exec(items, st, ctx, what):
    """symbolic execution of a loop body over (t, tL, tR, status): a Lean term of type `Outcome α`"""
    if not items:
        return f".again ⟨{st['t']}, {st['tL']}, {st['tR']}⟩"
    it, rest = items[0], items[1:]
    if it[0] == "stmt":
        t = nows(it[1])
        if t == "break":
            if st["status"] is None:
                raise TranslateError(f"{what}: `break` on a path that does not set the status")
            return f".stop .{st['status']}"
        if t == "continue":
            return sym_exec([], st, ctx, what)
        m = re.fullmatch(r"status=csearch_status::(\w+)", t)
        if m:
            if m.group(1) not in ctx["enum"]:
                raise TranslateError(f"{what}: unknown status {m.group(1)}")
            return sym_exec(rest, dict(st, status=camel(m.group(1))), ctx, what)
        m = re.fullmatch(r"(tL|tR)=t", t)
        if m:
            return sym_exec(rest, dict(st, **{m.group(1): st["t"] if m.group(1) == "tL" else f"(some {st['t']})"}), ctx, what)
        if t == "t=new_trial()":
            return sym_exec(rest, dict(st, t=f"(newTrial P.interpol P.extrapol {st['t']} {st['tL']} {st['tR']})"), ctx, what)
        raise TranslateError(f"{what}: statement not translated: {it[1]}")
    if it[0] != "if":
        raise TranslateError(f"{what}: nested loop")
    arms, els = it[1], it[2]
    if els is None:
        els = ""
    res = sym_exec(split_items(els, what) + rest, st, ctx, what)
    for cond, body in reversed(arms):
        m = re.fullmatch(rf"const auto ({ID}) = (.*); \1", cond)
        if m:
            cond = m.group(2)
        bind = dict(ctx["bind"], t=st["t"], tL=st["tL"], TRFIN=f"{st['tR']}.isSome")
        c = as_cond(expr(cond, bind, what, ctx["subst"]))
        then = sym_exec(split_items(body, what) + rest, st, ctx, what)
        res = f"if {c} then {then}\n  else {res}"
    return res


def generate_bundle(repo):
    out = [HEADER_B]

    def emit(doc, sig, body):
        out.append(f"/-- {doc} -/\ndef {sig} :=\n  {body}\n")

    # bundle.cpp: econverged / sconverged
    bsrc = read(repo, B_CPP)
    for f, arg in (("econverged", "sme"), ("sconverged", "smsnorm")):
        ds = definitions(bsrc, "bundle_t::" + f, B_CPP)
        if len(ds) != 1 or nows(ds[0][0]) != "constscalar_tepsilon":
            raise TranslateError(f"bundle_t::{f}: signature")
        e, q = lets_return(ds[0][1], VBIND, "bundle_t::" + f, VSUB)
        if "decide" not in e:
            raise TranslateError(f"bundle_t::{f}: not a comparison")
        emit(f"`bundle_t::{f}` ({B_CPP}): `{q}`", f"{f} (sqrt : α → α) (ndim eps {arg} : α) : Bool", e)
    # bundle.cpp: solve, one row and two rows (analytic)
    W = "bundle_t::solve"
    ds = definitions(bsrc, W, B_CPP)
    if len(ds) != 1:
        raise TranslateError(f"{W}: definition")
    ifs = [x for x in split_items(clean(ds[0][1]), W) if x[0] == "if"]
    if len(ifs) != 1 or len(ifs[0][1]) != 2 or ifs[0][2] is None or [nows(a[0]) for a in ifs[0][1]] != ["m_size==1", "m_size==2"]:
        raise TranslateError(f"{W}: `if (m_size == 1) … else if (m_size == 2) … else …` expected")
    S1 = split_items(ifs[0][1][0][1], W)
    if len(S1) != 1:
        raise TranslateError(f"{W}: one-row branch")
    m = expect(S1, 0, r"m_alphas\(0\)=(.*)", W)
    emit(f"`{W}`, one row: `{S1[0][1]};`", "solve1 : List α", f"[{expr(m.group(1), {}, W)}]")
    S2 = split_items(ifs[0][1][1][1], W)
    if len(S2) != 8:
        raise TranslateError(f"{W}: two-row branch has {len(S2)} statements, 8 expected")
    expect(S2, 0, r"constautoQ=S\(\)\*S\(\)\.transpose\(\)", W)
    expect(S2, 1, r"constautoc=miu\*e\(\)", W)
    sb = {"Q00": "q00", "Q01": "q01", "Q10": "q10", "Q11": "q11", "C0": "(miu * e0)", "C1": "(miu * e1)", "std::isfinite": "fin"}
    ss = [("Q(0,0)", "Q00"), ("Q(0,1)", "Q01"), ("Q(1,0)", "Q10"), ("Q(1,1)", "Q11"), ("c(0)", "C0"), ("c(1)", "C1")]
    lets = []
    for k in range(2, 6):
        m = expect(S2, k, rf"constauto({ID})=(.*)", W)
        lets.append(f"let v{k - 1} := {expr(m.group(2), sb, W, ss)}\n  ")
        sb[m.group(1)] = f"v{k - 1}"
    m0 = expect(S2, 6, r"m_alphas\(0\)=(.*)", W)
    m1 = expect(S2, 7, r"m_alphas\(1\)=(.*)", W)
    emit(f"`{W}`, two rows (`qij` = `Q(i,j)` = row i · row j, `ei` = `e()(i)`): `" + " ".join(x[1] + ";" for x in S2[2:]) + "`",
         "solve2 (fin : α → Bool) (miu q00 q01 q10 q11 e0 e1 : α) : List α",
         "".join(lets) + f"[{expr(m0.group(1), sb, W, ss)}, {expr(m1.group(1), sb, W, ss)}]")
    # bundle.h: delta, proximal
    hsrc = T7.strip_comments(read(repo, B_H))
    ds = definitions(hsrc, "delta", B_H)
    if len(ds) != 1:
        raise TranslateError("bundle_t::delta: definition")
    e, q = lets_return(ds[0][1], VBIND, "bundle_t::delta", VSUB)
    emit(f"`bundle_t::delta` ({B_H}): `{q}`", "delta (miu sme smssq : α) : α", e)
    ds = definitions(hsrc, "proximal", B_H)
    if len(ds) != 1:
        raise TranslateError("bundle_t::proximal: definition")
    e, q = lets_return(ds[0][1], dict(VBIND, m_x="xi", SMS="si"), "bundle_t::proximal", VSUB)
    emit(f"`bundle_t::proximal` ({B_H}), element i: `{q}`", "proximalElem (miu xi si : α) : α", e)
    # the two reductions stay hand-written (`smearedE`, `smearedS`); their text is pinned
    for f, want in (("smeared_e", "returne().dot(alpha());"), ("smeared_s", "returnS().transpose()*alpha();")):
        ds = definitions(hsrc, f, B_H)
        if len(ds) != 1 or nows(ds[0][1]) != want:
            raise TranslateError(f"bundle_t::{f}: body changed: {ws(ds[0][1])}")
    # bundle.cpp: append (the one with the serious_step flag)
    W = "bundle_t::append"
    ds = [d for d in definitions(bsrc, W, B_CPP) if "serious_step" in d[0]]
    if len(ds) != 1:
        raise TranslateError(f"{W}(y, gy, fy, serious_step): definition")
    A = split_items(clean(ds[0][1]), W)
    if len(A) != 4:
        raise TranslateError(f"{W}: {len(A)} statements, 4 expected")
    expect(A, 0, r"delete_inactive\(epsilon0<scalar_t>\(\)\)", W)
    m = expect(A, 1, r"delete_largest\((\d+)\)", W)
    emit(f"`{A[1][1]};`", "delCount : Nat", m.group(1))
    if A[2][0] != "if" or len(A[2][1]) != 1 or A[2][2] is None or nows(A[2][1][0][0]) != "serious_step":
        raise TranslateError(f"{W}: `if (serious_step) … else …` expected")
    S = split_items(A[2][1][0][1], W)
    if len(S) != 3 or S[0][0] != "for" or nows(S[0][1]) != "tensor_size_ti=0;i<m_size;++i":
        raise TranslateError(f"{W}: serious branch: the loop over the rows + two statements expected")
    F = split_items(S[0][2], W)
    if len(F) != 1:
        raise TranslateError(f"{W}: re-basing loop body")
    m = expect(F, 0, r"m_bundleE\(i\)\+=(.*)", W)
    be = {"fy": "fy", "m_fx": "fx", "SD": "sd", "GD": "gd"}
    e = expr(m.group(1), be, W, [("m_bundleS.vector(i).dot(y-m_x)", "SD")])
    emit(f"serious step, row i: `{F[0][1]};`", "shiftError (e fx fy sd : α) : α", f"e + {e}")
    m = expect(S, 1, r"m_bundleE\(m_size\)=(.*)", W)
    emit(f"serious step, new row: `{S[1][1]};`", "seriousError : α", expr(m.group(1), {}, W))
    expect(S, 2, r"m_bundleS\.tensor\(m_size\)=gy", W)
    Nn = split_items(A[2][2], W)
    if len(Nn) != 2:
        raise TranslateError(f"{W}: null branch has {len(Nn)} statements")
    m = expect(Nn, 0, r"m_bundleE\(m_size\)=(.*)", W)
    emit(f"null step, new row: `{Nn[0][1]};`", "nullError (fx fy gd : α) : α", expr(m.group(1), be, W, [("gy.dot(m_x-y)", "GD")]))
    expect(Nn, 1, r"m_bundleS\.tensor\(m_size\)=gy", W)
    expect(A, 3, r"\+\+m_size", W)
    # moveto: serious append, then the centre becomes (y, fy)
    ds = definitions(bsrc, "bundle_t::moveto", B_CPP)
    M = split_items(clean(ds[0][1]), "bundle_t::moveto")
    if [nows(x[1]) for x in M if x[0] == "stmt"] != ["constautoserious_step=true", "append(y,gy,fy,serious_step)", "m_x=y", "m_gx=gy",
                                                     "m_fx=fy"] or len(M) != 5:
        raise TranslateError("bundle_t::moveto: body changed")

    # csearch
    hs = T7.strip_comments(read(repo, C_H))
    m = re.search(r"enum\s+class\s+csearch_status\s*(?::\s*\w+\s*)?\{([^}]*)\}", hs)
    if not m:
        raise TranslateError(f"enum class csearch_status not found in {C_H}")
    enum = [n.strip() for n in m.group(1).split(",") if n.strip()]
    for n in enum:
        if not re.fullmatch(r"[a-z_]+", n):
            raise TranslateError(f"csearch_status: enumerator `{n}` not translated")
    emit(f"`enum class csearch_status` ({C_H}) in declaration order", "statusOrder : List Status",
         "[" + ", ".join("." + camel(n) for n in enum) + "]")
    W = "csearch_t::search"
    csrc = read(repo, C_CPP)
    ds = definitions(csrc, W, C_CPP)
    if len(ds) != 1:
        raise TranslateError(f"{W}: definition")
    I = split_items(clean(ds[0][1]), W)
    if len(I) != 8 or I[6][0] != "while":
        raise TranslateError(f"{W}: body has {len(I)} items; 6 start statements, the loop and the return expected")
    m = expect(I, 0, r"m_point\.m_status=csearch_status::(\w+)", W)
    emit(f"`{I[0][1]};`", "startStatus : Status", "." + camel(m.group(1)))
    expect(I, 1, r"auto&t=m_point\.m_t", W)
    m = expect(I, 2, r"t=(.*)", W)
    emit(f"`{I[2][1]};`", "startT : α", expr(m.group(1), {}, W))
    m = expect(I, 3, r"autotL=(.*)", W)
    emit(f"`{I[3][1]};`", "startTL : α", expr(m.group(1), {}, W))
    expect(I, 4, r"autotR=std::numeric_limits<scalar_t>::infinity\(\)", W)
    emit(f"`{I[4][1]};`", "startTR : Option α", "none")
    m = re.fullmatch(r"const auto new_trial = \[&\]\(\) ?\{(.*)\}", I[5][1])
    if not m:
        raise TranslateError(f"{W}: the lambda new_trial was not found")
    NT = split_items(m.group(1), W)
    if len(NT) != 1 or NT[0][0] != "if" or len(NT[0][1]) != 1 or NT[0][2] is None or nows(NT[0][1][0][0]) != "std::isfinite(tR)":
        raise TranslateError(f"{W}: new_trial is not `if (std::isfinite(tR)) … else …`")
    nb = {"m_interpol": "interpol", "m_extrapol": "extrapol", "t": "t", "tL": "tL", "tR": "r"}
    ra = re.fullmatch(r"\s*return (.*);\s*", NT[0][1][0][1], re.S)
    rb = re.fullmatch(r"\s*return (.*);\s*", NT[0][2], re.S)
    if not ra or not rb:
        raise TranslateError(f"{W}: new_trial: a single return per branch expected")
    emit(f"the lambda `new_trial` ({C_CPP}): `{ws(m.group(1))}`", "newTrial (interpol extrapol t tL : α) (tR : Option α) : α",
         f"match tR with\n  | some r => {expr(ra.group(1), nb, W)}\n  | none => {expr(rb.group(1), {k: v for k, v in nb.items() if k != 'tR'}, W)}")
    if nows(I[6][1]) != "m_function.fcalls()+m_function.gcalls()<max_evals":
        raise TranslateError(f"{W}: loop condition `{I[6][1]}`")
    expect(I, 7, r"returnm_point", W)
    L = split_items(I[6][2], W)
    head = ["auto&status=m_point.m_status", "auto&y=m_point.m_y", "auto&gy=m_point.m_gy", "auto&fy=m_point.m_fy",
            "bundle.solve(miu/t,logger)", "y=bundle.proximal(miu/t)", "fy=m_function.vgrad(y,gy)", "constauto&x=bundle.x()",
            "constautofx=bundle.fx()", "constautoe=bundle.smeared_e()", "constautos=bundle.smeared_s()",
            "constautodelta=bundle.delta(miu/t)", "constautoeconv=bundle.econverged(epsilon)",
            "constautosconv=bundle.sconverged(epsilon)"]
    got = [nows(x[1]) if x[0] == "stmt" else x[0] for x in L[:len(head)]]
    if got != head:
        bad = [g for g, h in zip(got, head) if g != h]
        raise TranslateError(f"{W}: the statements that define y, fy, fx, e, s, delta, econv, sconv changed: {bad[:2]}")
    ctx = {"enum": enum,
           "bind": {"fx": "fx", "fy": "fy", "e": "e", "delta": "dl", "econv": "econv", "sconv": "sconv", "m_m1": "P.m1",
                    "m_m2": "P.m2", "m_m3": "P.m3", "m_m4": "P.m4", "EPS0": "P.eps0", "GYD": "gyd", "SDX": "sd", "FINFY": "finiteFy"},
           "subst": [("std::isfinite(fy)", "FINFY"), ("std::isfinite(tR)", "TRFIN"), ("gy.dot(y-x)", "GYD"), ("s.dot(y-x)", "SDX"),
                     ("epsilon0<scalar_t>()", "EPS0")]}
    body = sym_exec(L[len(head):], {"t": "c.t", "tL": "c.tL", "tR": "c.tR", "status": None}, ctx, W)
    emit(f"one pass of the loop of `csearch_t::search` ({C_CPP}) after the bundle and the objective answered: symbolic execution "
         "of the `if` chains (status assignments, `break`, `continue`, updates of t, tL, tR)",
         "csearchStep (P : CParams α) (c : CState α) (finiteFy econv sconv : Bool) (fx fy e dl gyd sd : α) : Outcome α", body)

    # proximity
    psrc = read(repo, P_CPP)
    ds = definitions(psrc, "make_miu0", P_CPP)
    e, q = lets_return(ds[0][1], dict(VBIND, GXSQ="gxsq", **{"state.fx()": "fx"}), "make_miu0",
                       [("state.gx().squaredNorm()", "GXSQ")] + VSUB)
    emit(f"`make_miu0` ({P_CPP}): `{q}`", "makeMiu0 (gxsq fx eps0 : α) : α", e)
    ds = definitions(psrc, "make_miu", P_CPP)
    if len(ds) != 1:
        raise TranslateError("make_miu: definition")
    MM = split_items(clean(ds[0][1]), "make_miu")
    if len(MM) != 2 or MM[1][0] != "if" or len(MM[1][1]) != 1 or MM[1][2] is None:
        raise TranslateError("make_miu: `const auto u = …; if (…) return …; else return …;` expected")
    m = expect(MM, 0, r"constautou=(.*)", "make_miu")
    emit(f"`make_miu`, element i of `{MM[0][1]};`", "makeMiuU (miu t nui xii : α) : α",
         expr(m.group(1), {"xi": "xii", "nu": "nui", "t": "t", "miu": "miu"}, "make_miu"))
    pb = {"NUU": "nuu", "NUNU": "nunu", "min_dot_nuv": "minDot", "FMAX": "fmax"}
    ps = [("nu.dot(u)", "NUU"), ("nu.dot(nu)", "NUNU")] + VSUB
    ra = re.fullmatch(r"\s*return (.*);\s*", MM[1][1][0][1], re.S)
    rb = re.fullmatch(r"\s*return (.*);\s*", MM[1][2], re.S)
    if not ra or not rb:
        raise TranslateError("make_miu: a single return per branch expected")
    emit(f"`make_miu`: `if ({MM[1][1][0][0]}) return {ws(ra.group(1))}; else return {ws(rb.group(1))};`",
         "makeMiu (fmax nunu nuu minDot : α) : α",
         f"if {as_cond(expr(MM[1][1][0][0], pb, 'make_miu', ps))} then {expr(ra.group(1), pb, 'make_miu', ps)} "
         f"else {expr(rb.group(1), pb, 'make_miu', ps)}")
    ds = [d for d in definitions(psrc, "proximity_t::update", P_CPP) if "Gn1" in d[0]]
    if len(ds) != 1:
        raise TranslateError("proximity_t::update (7 arguments): definition")
    body = clean(ds[0][1])
    grids = re.findall(rf"for\s*\(\s*const auto ({ID})\s*:\s*\{{([^}}]*)\}}\s*\)", body)
    if len(grids) != 2 or nows(grids[0][1]) != nows(grids[1][1]):
        raise TranslateError("proximity_t::update: the two loops over the same grid of alphas were not found")
    emit(f"`for (const auto alpha : {{{ws(grids[0][1])}}})` (both loops)", "alphaGrid : List α",
         "[" + ", ".join(expr(x, {}, "alpha grid") for x in grids[0][1].split(",")) + "]")
    m = re.search(r"const auto nu\s*=([^;]*);", body[body.index(grids[1][1]):])
    if not m:
        raise TranslateError("proximity_t::update: `const auto nu = …` not found inside the loops")
    emit(f"`proximity_t::update`, element i of `const auto nu = {ws(m.group(1))};`", "nuCombElem (a1 a2 p q r s : α) : α",
         expr(m.group(1), {grids[0][0]: "a1", grids[1][0]: "a2", "gn1": "p", "Gn1": "q", "gn": "r", "Gn": "s"}, "proximity_t::update"))
    # proximity_t::update: the guards `miu != max` and the pinned plumbing; the constructor's clamp
    def neq_guard(cond, var, what):
        m = re.fullmatch(rf"({ID})!=std::numeric_limits<scalar_t>::max\(\)", nows(cond))
        if not m or m.group(1) != var:
            raise TranslateError(f"{what}: guard `{cond}` is not `{var} != max`")
        return "(decide (m < fmax) || decide (fmax < m))"

    call = "::make_miu(m_miu,t,nu,xi,m_min_dot_nuv)"
    ds5 = [d for d in definitions(psrc, "proximity_t::update", P_CPP) if "Gn1" not in d[0]]
    if len(ds5) != 1:
        raise TranslateError("proximity_t::update (5 arguments): definition")
    U = split_items(clean(ds5[0][1]), "proximity_t::update/5")
    if len(U) != 3 or U[2][0] != "if" or len(U[2][1]) != 1 or U[2][2] is not None:
        raise TranslateError("proximity_t::update (5 arguments): two definitions and one guarded assignment expected")
    expect(U, 0, r"constautoxi=xn1-xn", "proximity_t::update/5")
    expect(U, 1, r"constautonu=gn1-gn", "proximity_t::update/5")
    mc = re.fullmatch(rf"const auto ({ID}) = (.*); (.*)", U[2][1][0][0])
    if not mc or nows(mc.group(2)) != call or nows(U[2][1][0][1]) != f"m_miu={mc.group(1)};":
        raise TranslateError(f"proximity_t::update (5 arguments): guarded assignment changed: {U[2][1][0][0]}")
    emit(f"`proximity_t::update` (5 arguments): `if ({U[2][1][0][0]}) {{ {ws(U[2][1][0][1])} }}` (`m` = the value of `make_miu`, "
         "`a != b` on scalars that are not NaN is `a < b || b < a`)", "proxKeep1 (fmax m miu : α) : α",
         f"if {neq_guard(mc.group(3), mc.group(1), 'proximity_t::update/5')} then m else miu")
    U = split_items(body, "proximity_t::update/7")
    if len(U) != 3 or U[1][0] != "for" or U[2][0] != "if" or len(U[2][1]) != 1 or U[2][2] is not None:
        raise TranslateError("proximity_t::update (7 arguments): start value, the loops and one guarded assignment expected")
    mv = expect(U, 0, rf"auto({ID})=std::numeric_limits<scalar_t>::max\(\)", "proximity_t::update/7")
    v = mv.group(1)
    inner = split_items(U[1][2], "proximity_t::update/7")
    if len(inner) != 1 or inner[0][0] != "for":
        raise TranslateError("proximity_t::update (7 arguments): nested loop expected")
    K = split_items(inner[0][2], "proximity_t::update/7")
    if [nows(x[1]) for x in K if x[0] == "stmt"][0:1] != ["constautoxi=xn1-xn"] or len(K) != 3 or \
            nows(K[2][1]) != f"{v}=std::min({v},{call})":
        raise TranslateError("proximity_t::update (7 arguments): loop body changed")
    if nows(U[2][1][0][1]) != f"m_miu={v};":
        raise TranslateError("proximity_t::update (7 arguments): guarded assignment changed")
    emit(f"`proximity_t::update` (7 arguments): `if ({U[2][1][0][0]}) {{ {ws(U[2][1][0][1])} }}` (`m` = the minimum over the grid)",
         "proxKeep2 (fmax m miu : α) : α", f"if {neq_guard(U[2][1][0][0], v, 'proximity_t::update/7')} then m else miu")
    if not re.search(r":\s*m_miu\(std::clamp\(make_miu0\(state\),\s*miu0_min,\s*miu0_max\)\)\s*,\s*m_min_dot_nuv\(min_dot_nuv\)", psrc):
        raise TranslateError("proximity_t::proximity_t: the initialisers changed")

    # the outer loops of rqb.cpp / fpba.cpp: flags handed to solver_t::done, dispatch on the status, pinned branch bodies
    def outer(path, fname, tag, want, lam=None):
        src = read(repo, path)
        ds = definitions(src, fname, path)
        if len(ds) != 1:
            raise TranslateError(f"{fname}: definition")
        I = split_items(clean(ds[0][1]), fname)
        loops = [x for x in I if x[0] == "while"]
        if len(loops) != 1 or nows(loops[0][1]) != "function.fcalls()+function.gcalls()<max_evals":
            raise TranslateError(f"{fname}: the loop was not found")
        pre = [nows(x[1]) for x in I if x[0] == "stmt"]
        for need in ("constautoepsilon=parameter(\"solver::epsilon\").VALUE<scalar_t>()", "autostate=solver_state_t{function,x0}",
                     "autobundle=bundle_t::make(state,*this,prefix)", "autocsearch=csearch_t::make(function,*this,prefix)",
                     "autoproximity=proximity_t::make(state,*this,prefix)", "state.update_calls()", "returnstate"):
            if need.replace("VALUE", "value") not in pre and need.replace("VALUE", "templatevalue") not in pre:
                raise TranslateError(f"{fname}: statement `{need}` not found")
        if lam is not None:
            got = [x for x in pre if x.startswith("constautoapply_nesterov_sequence=")]
            if got != [lam]:
                raise TranslateError(f"{fname}: the lambda apply_nesterov_sequence changed")
        L = split_items(loops[0][2], fname)
        if len(L) != 5 or L[3][0] != "if" or L[4][0] != "if":
            raise TranslateError(f"{fname}: loop body has {len(L)} items")
        expect(L, 0, r"constauto&\[t,status,y,gy,fy\]=csearch\.search\(bundle,proximity\.miu\(\),max_evals,epsilon,logger\)", fname)

        def status_test(text):
            m = re.fullmatch(r"status(==|!=)csearch_status::(\w+)", nows(text))
            if not m or m.group(2) not in enum:
                raise TranslateError(f"{fname}: test on the status not translated: {text}")
            return f"(status {m.group(1)} .{camel(m.group(2))})"

        m1 = expect(L, 1, rf"constauto({ID})=(.*)", fname)
        m2 = expect(L, 2, rf"constauto({ID})=(.*)", fname)
        emit(f"`{L[1][1]};` ({path})", f"{tag}IterOk (status : Status) : Bool", status_test(m1.group(2)))
        emit(f"`{L[2][1]};` ({path})", f"{tag}Converged (status : Status) : Bool", status_test(m2.group(2)))
        if len(L[3][1]) != 1 or L[3][2] is not None or nows(L[3][1][0][1]) != "break;" or \
                nows(L[3][1][0][0]) != f"solver_t::done(state,{m1.group(1)},{m2.group(1)},logger)":
            raise TranslateError(f"{fname}: `if (solver_t::done(state, iter_ok, converged, logger)) break;` expected")
        arms = L[4][1]
        if L[4][2] is not None or len(arms) != len(want):
            raise TranslateError(f"{fname}: the dispatch on the status has {len(arms)} branches (+ else)")
        chain = str(len(arms))
        for k in range(len(arms) - 1, -1, -1):
            got = [nows(x[1]) if x[0] == "stmt" else x[0] for x in split_items(arms[k][1], fname)]
            if got != want[k]:
                raise TranslateError(f"{fname}: branch {k} of the dispatch changed: {got}")
            chain = f"if {status_test(arms[k][0])} then {k} else {chain}"
        emit(f"the dispatch of the outer loop ({path}): branch taken for a status (0 = descent step: proximity update + serious step, "
             f"1 = cutting-plane step: serious step, 2 = null step: append, {len(arms)} = nothing)", f"{tag}Branch (status : Status) : Nat", chain)

    outer("src/solver/rqb.cpp", "solver_rqb_t::do_minimize", "rqb",
          [["Gn1=bundle.smeared_s()", "proximity.update(t,bundle.x(),y,bundle.gx(),gy,Gn,Gn1)", "Gn=Gn1", "bundle.moveto(y,gy,fy)",
            "state.update(y,gy,fy)"],
           ["Gn=bundle.smeared_s()", "bundle.moveto(y,gy,fy)", "state.update(y,gy,fy)"],
           ["bundle.append(y,gy,fy)"]])
    outer("src/solver/fpba.cpp", "base_solver_fpba_t<tsequence>::do_minimize", "fpba",
          [["proximity.update(t,bundle.x(),y,bundle.gx(),gy)", "apply_nesterov_sequence(y,gy,fy)"],
           ["apply_nesterov_sequence(y,gy,fy)"],
           ["bundle.append(y,gy,fy)"]],
          "constautoapply_nesterov_sequence=[&](constvector_t&z,constvector_t&gz,constscalar_tfz){state.update_if_better(z,gz,fz);"
          "constauto&x=sequence.update(z);constautofx=function.vgrad(x,gx);bundle.moveto(x,gx,fx);"
          "if(!state.update_if_better(x,gx,fx)){sequence.reset();}}")
    out.append("end\nend NanoVerif.Gen.BundleStep\n")
    return "\n".join(out)


def translate():
    try:
        text = generate_ellipsoid(vlib.REPO)
    except TranslateError as ex:
        raise vlib.Broken("translate", f"Gen/EllipsoidStep.lean: {ex}")
    vlib.write_if_changed(OUT_E, text)
    try:
        text2 = generate_bundle(vlib.REPO)
    except TranslateError as ex:
        raise vlib.Broken("translate", f"Gen/BundleStep.lean: {ex}")
    vlib.write_if_changed(OUT_B, text2)
    return text + text2
