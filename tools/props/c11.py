"""C11 — fitted models reproduce reported statistics; early stopping keeps the right round (DESIGN.md §4 C11)."""
import itertools, math, os, re
import vlib
from vlib import Toks, f2h, h2f, Broken

ID = "C11"
LEVEL = "proof"
HARNESS = "c11"
LEAN_MODULES = ["NanoVerif.Props.C11", "NanoVerif.Proofs.BoostFitC10"]
NS = "NanoVerif.EarlyStopping."
OBLIGATIONS = [NS + t for t in [
    "es_stop_iff", "es_snapshot_is_accepted", "es_no_missed_improvement", "es_strict_improvement",
    "es_value_decreases", "es_round_le_learners", "es_patience_rounds", "es_patience_rounds_conv",
    "es_first_call_accepted", "no_valid_never_patience_stops", "es_train_stops",
]] + ["NanoVerif.Boost." + t for t in [
    "fold_keeps_round_learners", "fold_round_le_learners", "fold_model_is_snapshot_model",
    "fit_monitor_history", "fit_keeps_last_accepted", "fit_patience_stop", "fitObs_keeps_round_learners",
    "loopTrace_is_loop", "pickBest_none_iff", "pickBest_first_min", "roundEv_spec",
    "predict_append", "averaged_model_predicts_mean",
]] + ["NanoVerif.BoostFit." + t for t in [
    "tracked_outputs_eq_model_prediction", "stats_row_is_means_of_outputs", "kept_model_reproduces_optimum_row",
    "fold_fit_refines_loop", "tuneShrinkage_spec", "round_update_gboost", "refit_starts_cleared", "finalize_predicts_mean",
    "final_values_are_of_final_model", "gboost_reported_stats_are_stats_of_recomputed",
    "gboost_fit_end_to_end", "linear_fit_end_to_end",
    # Proofs/BoostFitC10.lean: the two weak-learner contracts proved for C10's model of the code, and the theorems without them
    "c10_learners_satisfy_scale_law", "c10_learners_satisfy_merge_law", "tracked_outputs_eq_model_prediction_c10",
    "kept_model_reproduces_optimum_row_c10",
]] + ["NanoVerif.MLResult." + t for t in [
    "reported_stats_are_stats_of_recomputed", "stats_out_of_range", "final_stats_are_stats_of_values", "tune_shape",
    "first_batch_reads_nothing",
]] + ["NanoVerif.LinearFit." + t for t in [
    "linear_fold_stats_are_of_returned_model", "linear_final_stats_are_of_refit_model",
    "linear_refit_ignores_previous_object", "linear_warm_start_reads_only_earlier",
]]
TRUSTED = [
    "Lean 4.33.0 kernel + the Mathlib modules imported by Props/C11 (Order.Field.Basic, Data.List.Induction, Tactic.Linarith, "
    "Tactic.Ring, Tactic.FieldSimp, Tactic.NormNum)",
    "axioms: at most propext, Classical.choice, Quot.sound (audited per theorem on every run)",
    "tools/props/c11.py translate(): C++ if-chain of early_stopping_t::done -> NanoVerif/Gen/EarlyStopping.lean (regenerated "
    "on every run; the theorems are stated over the generated definition)",
    "hand-written round-loop skeleton NanoVerif/Model/Boost.lean of gboost ::fit (model.cpp, result.cpp). TIED BY A DIFFERENTIAL "
    "RUN (family gbloop, needs hook H3 = macro NANO_VERIF_GBOOST_TRACE of include/nano/verif.h; without it the ops report "
    "`skipped` and only the anchors below remain): real gboost_model_t::fit calls with the trace sink installed; the model is "
    "driven by the logged oracle answers (per-prototype fit scores, gstate.x().min(), mean train/validation errors, statistics "
    "rows, fold biases) and must reproduce bit-exactly, for every fold fit of every trial: the answer and the monitor's "
    "round()/value() after the call on the bias-only model and after every round, the chosen prototype and best_score, the "
    "no-learner / scaling-failure / done / max_rounds exit (and that no further round was executed), the number of learners "
    "after every append, optimum.round() = the argument of result.done, which appended learners result_t::done keeps (by "
    "object identity, before wlearner::merge) and which statistics rows, which call's per-sample tensor optimum.values() is, "
    "and the averaged bias, 1/folds and the number of concatenated learners of gboost_model_t::fit",
    "STILL ANCHORS ONLY (static_checks: the mirrored statements are pinned textually): the prediction loop of do_predict "
    "(bias + every learner adds), the scaling of the concatenated learners by 1/folds (both covered numerically by the `fit` "
    "family: predictions of the final model against the mean of the fold models), gboost::mean_error's denominator, and the "
    "statements of the loop between the trace points (a statement added between two trace points that does not change a "
    "logged value is invisible to the differential run)",
    "hook H3 itself (hooks/H3-gboost-trace.patch: add-only NANO_VERIF_TRACE lines + forwarding of the thread-local sink to "
    "the worker threads that fit the folds): the trace is taken to report the values the surrounding statements use; the "
    "harness rejects (`bad-trace`) any record sequence that does not follow the statement order of the loop",
    "hand-written data-flow model NanoVerif/Model/BoostFit.lean (fold fit with tracked predictions, shrinkage modes, statistics "
    "rows, tune_shrinkage, result.done, last stage of gboost_model_t::fit), Model/MLResult.lean (ml::result_t storage on top of "
    "C13's Tune.Result and C20's storeStats) and Model/LinearFit.lean (bookkeeping of linear_t::fit). TIED BY: family `mlres` "
    "(histories of add / store / store-final on a real ml::result_t: every stats(trial, fold, split, kind), extra, value(trial), "
    "optimum_trial, final statistics; tolerance 1e-12 for means, the cancellation bound of tensor::stdev for stdev, percentiles and "
    "counts exact), family `gbres` (gboost::result_t::update / done on given tensors and arbitrary sample lists: rows bit-exact), "
    "and the extension `X` of every traced fold fit (gbloop): the model recomputes every statistics row from the logged per-sample "
    "tensors and the fold's sample lists (BoostFit.statsRow, bit-exact), the ratio column from startRatio / the scan of the logged "
    "grid values of tune_shrinkage (shrinkScan; grid values need hook H3b = hooks/H3b-gboost-fit-trace.patch, macro "
    "NANO_VERIF_GBOOST_FIT_TRACE; without it the logged ratio is taken as an oracle answer)",
    "run-time monitors on every traced fold fit (python oracle; those marked H3b are skipped without that hook): tracked predictions "
    "at the optimum round = bias + sum of the stored fold model's learners on every sample (H3b, 1e-9), tune_shrinkage's answer = "
    "first grid point with the smallest logged mean (H3b), the ratio used at the update = the one logged = the one in the row, "
    "fitted samples within the training split / of the requested size / distinct for `subsample` (H3b), one scaling factor in "
    "gboost mode; the weak-learner contracts ScaleLaw / MergeLaw are not monitored but PROVED for C10's model "
    "(Proofs/BoostFitC10.lean)",
    "harness/c11.cpp (incl. the mapping of learner addresses to (round, prototype) ids and the matching of traces to "
    "(trial, fold) by hyper-parameters + validation samples), the python history / loop oracles and the statistics "
    "recomputation in tools/props/c11.py; g++/libstdc++/Eigen",
]
ASSUMPTIONS = [
    "exact arithmetic (ordered field) in the theorems; the driver runs the same generated definition at IEEE double",
    "the initial m_value = DBL_MAX enters the theorems as the hypothesis that an observed validation error is below v0 - epsilon",
    "mean_error over the samples is an input of the monitor model (train/valid value); the `es` harness builds tensors whose "
    "mean is exactly the intended value (1, 2 or 4 equal entries); in the traced fits the logged mean errors are oracle answers",
    "everything numeric of a boosting round (gradients, sub-sampling, the weak-learner fits, the scaling solver, shrinkage, the "
    "loss evaluation) is an oracle answer of the loop model: the theorems hold for every such answer, the differential run "
    "feeds the logged ones",
    "wlearner::merge after result_t::done and after the fold concatenation (re-association of weak learners with equal "
    "features) is not modelled: the trace observes the learners before it; its effect is covered by the recomputation of the "
    "statistics from the stored fold models and by the prediction comparison only",
    "the numeric quality of the fits (solver convergence) is not claimed",
    "data-flow theorems: an output cell is an abstract index, loss.error / loss.value are arbitrary functions of the predictions "
    "and the sample, the sampler / weak-learner fits / bias and scaling solvers are arbitrary oracle answers per round; ScaleLaw is "
    "assumed in `local` shrinkage mode only (necessary there: kernel-checked witness), MergeLaw for done / finalize; Scheduled "
    "(the pool runs every index of a batch once, C13/C17) and `sort` (nth_element, C20) enter the ml::result_t theorems",
    "tune_shrinkage adds and subtracts `shrinkage * woutputs` in place: the identity in the model's exact arithmetic, a residue of "
    "a few ulp at double (outside the model; the monitor compares the logged grid values, not recomputed ones)",
]
RULE = ("early stopping: exhaustive call histories over the alphabet {0, eps/2, eps, 2eps, 1} for the validation error x one "
        "training-error crossing position (or none; the non-crossing training error sits exactly on eps) x patience 1..4 with "
        "validation samples, all 2^L training patterns without (quick: L<=6, thorough: L<=7 and a seeded twentieth of L=8), eps in "
        "{1e-6, 2^-10}; random longer histories with arbitrary values, arbitrary learner counts and non-finite errors; "
        "full fits of gboost and linear models on random small datasets with every reported statistic recomputed from the stored "
        "models; traced gboost fits (gbloop, hook H3; quick 60, thorough 200 full fits, each trials x folds fold fits) whose "
        "parameters are biased towards every exit of the round loop (first call stops, training error below eps, patience, "
        "max_rounds, no learner, scaling failure — counted per fold fit in distribution as gbloop-fold-fits/exit-*): the loop "
        "model replays the logged oracle answers and must reproduce every logged decision exactly; the python oracle re-derives "
        "them from the property statement. A history is non-trivial when it contains an accepted and a rejected call (judged by "
        "the python oracle's replay); every fit has >= 2 folds and is counted; distinct by op text")
FLAVOUR = {"quick": "plain", "thorough": "asan"}
EXHAUSTIVE = {"quick": True, "thorough": True}
RTOL = 0.0
HARNESS_TIMEOUT = 1500
# ml::tune writes per-fold solver logs into the temporary directory; keep them out of /tmp (the harness removes them)
HARNESS_ENV = {"TMPDIR": os.path.join(vlib.CACHE, "c11-tmp")}

SRC_CPP = "src/gboost/early_stopping.cpp"
SRC_H = "include/nano/gboost/early_stopping.h"
GEN_PATH = os.path.join(vlib.LEAN, "NanoVerif", "Gen", "EarlyStopping.lean")

# ---------------------------------------------------------------------------------------------------------
# translator: the four-way decision of early_stopping_t::done -> Lean

BIND = {
    "train_value": "c.train", "valid_value": "c.valid", "epsilon": "epsilon", "patience": "patience",
    "m_value": "s.value", "m_round": "s.round",
    "wlearners.size()": "c.n", "valid_samples.size()": "c.nvalid", "train_samples.size()": "c.ntrain",
}
FIELD = {"m_value": "value", "m_round": "round"}

TOK = re.compile(r"\s*(?:(\d+)[uUlL]*|([A-Za-z_][A-Za-z_0-9]*(?:(?:\.|->)[A-Za-z_][A-Za-z_0-9]*)*(?:\(\))?)|(<=|>=|==|!=|&&|\|\||[-+*()<>!]))")


def _tokenize(s):
    out, i = [], 0
    while i < len(s):
        if not s[i:].strip():
            break
        m = TOK.match(s, i)
        if not m:
            raise Broken("translate", f"{SRC_CPP}: cannot tokenize condition at: {s[i:i + 40]!r}")
        if m.group(1) is not None:
            out.append(("num", m.group(1)))
        elif m.group(2) is not None:
            out.append(("id", m.group(2)))
        else:
            out.append(("op", m.group(3)))
        i = m.end()
    return out


class _P:
    """C++ boolean/arithmetic expression -> Lean Prop / term (precedence: || < && < comparison < +- < * < unary)"""
    def __init__(self, text):
        self.t = _tokenize(text); self.i = 0; self.text = text
    def peek(self):
        return self.t[self.i] if self.i < len(self.t) else ("eof", "")
    def eat(self, v=None):
        k = self.peek()
        if v is not None and k[1] != v:
            raise Broken("translate", f"{SRC_CPP}: expected {v!r}, got {k[1]!r} in {self.text!r}")
        self.i += 1
        return k
    def top(self):
        e = self.orx()
        if self.peek()[0] != "eof":
            raise Broken("translate", f"{SRC_CPP}: trailing tokens in {self.text!r}")
        return e
    def orx(self):
        a = self.andx()
        while self.peek()[1] == "||":
            self.eat(); a = f"({a} ∨ {self.andx()})"
        return a
    def andx(self):
        a = self.cmp()
        while self.peek()[1] == "&&":
            self.eat(); a = f"({a} ∧ {self.cmp()})"
        return a
    def cmp(self):
        a = self.add()
        if self.peek()[1] in ("<", "<=", ">", ">=", "==", "!="):
            op = self.eat()[1]; b = self.add()
            return f"({a} {({'<': '<', '<=': '≤', '>': '>', '>=': '≥', '==': '=', '!=': '≠'})[op]} {b})"
        return a
    def add(self):
        a = self.mul()
        while self.peek()[1] in ("+", "-"):
            op = self.eat()[1]; a = f"({a} {op} {self.mul()})"
        return a
    def mul(self):
        a = self.unary()
        while self.peek()[1] == "*":
            self.eat(); a = f"({a} * {self.unary()})"
        return a
    def unary(self):
        if self.peek()[1] == "!":
            self.eat(); return f"(¬ {self.unary()})"
        return self.primary()
    def primary(self):
        k = self.eat()
        if k[0] == "num":
            return k[1]
        if k[1] == "(":
            e = self.orx(); self.eat(")"); return e
        if k[0] == "id":
            if k[1] in BIND:
                return BIND[k[1]]
            raise Broken("translate", f"{SRC_CPP}: unbound symbol {k[1]!r} in {self.text!r}")
        raise Broken("translate", f"{SRC_CPP}: unexpected token {k[1]!r} in {self.text!r}")


def _strip_comments(s):
    s = re.sub(r"/\*.*?\*/", " ", s, flags=re.S)
    return re.sub(r"//[^\n]*", " ", s)


def _match(s, i, open_c, close_c):
    """s[i] == open_c; returns index just after the matching close"""
    assert s[i] == open_c
    depth = 0
    while i < len(s):
        if s[i] == open_c:
            depth += 1
        elif s[i] == close_c:
            depth -= 1
            if depth == 0:
                return i + 1
        i += 1
    raise Broken("translate", f"{SRC_CPP}: unbalanced {open_c}")


def _body(stmts):
    """`m_x = e; ...; return b;` -> (list of (field, lean expr), bool)"""
    parts = [p.strip() for p in stmts.split(";") if p.strip()]
    if not parts:
        raise Broken("translate", f"{SRC_CPP}: empty branch")
    m = re.fullmatch(r"return\s+(true|false)", parts[-1])
    if not m:
        raise Broken("translate", f"{SRC_CPP}: branch does not end with `return true|false`: {parts[-1]!r}")
    sets = []
    for p in parts[:-1]:
        a = re.fullmatch(r"(m_[a-z_]+)\s*=\s*(.+)", p, re.S)
        if not a:
            raise Broken("translate", f"{SRC_CPP}: unsupported statement {p!r}")
        lhs, rhs = a.group(1), a.group(2).strip()
        if lhs == "m_values":
            if rhs != "errors_losses":
                raise Broken("translate", f"{SRC_CPP}: m_values assigned from {rhs!r}")
            sets.append(("snap", "c.idx"))
        elif lhs in FIELD:
            sets.append((FIELD[lhs], _P(rhs).top()))
        else:
            raise Broken("translate", f"{SRC_CPP}: assignment to unknown member {lhs}")
    return sets, m.group(1)


def parse_done(src):
    """returns [(condition-or-None, [(field, expr)], 'true'|'false')] for the if / else-if / else chain"""
    src = _strip_comments(src)
    m = re.search(r"bool\s+early_stopping_t::done\s*\(([^)]*)\)\s*\{", src)
    if not m:
        raise Broken("translate", f"{SRC_CPP}: early_stopping_t::done not found")
    params = re.sub(r"\s+", " ", m.group(1))
    for need in ("errors_losses", "train_samples", "valid_samples", "wlearners", "epsilon", "patience"):
        if not re.search(r"\b" + need + r"\b", params):
            raise Broken("translate", f"{SRC_CPP}: parameter {need} missing from done(...)")
    end = _match(src, m.end() - 1, "{", "}")
    body = src[m.end():end - 1]
    # the two leading definitions: the monitor's inputs are the mean errors over the train / validation samples
    pre = re.match(r"\s*const\s+auto\s+train_value\s*=\s*mean_error\s*\(\s*errors_losses\s*,\s*train_samples\s*\)\s*;"
                   r"\s*const\s+auto\s+valid_value\s*=\s*mean_error\s*\(\s*errors_losses\s*,\s*valid_samples\s*\)\s*;", body)
    if not pre:
        raise Broken("translate", f"{SRC_CPP}: done() no longer starts with train_value/valid_value = mean_error(errors_losses, ...)")
    i = pre.end()
    chain = []
    first = True
    while True:
        rest = body[i:]
        if first:
            k = re.match(r"\s*if\s*\(", rest)
            if not k:
                raise Broken("translate", f"{SRC_CPP}: expected `if (` after the mean errors, found {rest.strip()[:40]!r}")
        else:
            k = re.match(r"\s*else\s+if\s*\(", rest)
        if k:
            p0 = i + k.end() - 1
            p1 = _match(body, p0, "(", ")")
            cond = body[p0 + 1:p1 - 1]
            b = re.match(r"\s*\{", body[p1:])
            if not b:
                raise Broken("translate", f"{SRC_CPP}: branch without braces")
            b0 = p1 + b.end() - 1
            b1 = _match(body, b0, "{", "}")
            sets, ret = _body(body[b0 + 1:b1 - 1])
            chain.append((_P(cond).top(), sets, ret))
            i = b1
            first = False
            continue
        k = re.match(r"\s*else\s*\{", rest)
        if k and not first:
            b0 = i + k.end() - 1
            b1 = _match(body, b0, "{", "}")
            sets, ret = _body(body[b0 + 1:b1 - 1])
            chain.append((None, sets, ret))
            i = b1
        break
    if body[i:].strip():
        raise Broken("translate", f"{SRC_CPP}: statements after the if-chain: {body[i:].strip()[:60]!r}")
    if not chain or chain[-1][0] is not None:
        raise Broken("translate", f"{SRC_CPP}: the if-chain has no final else")
    return chain


def parse_init(cpp, hdr):
    cpp, hdr = _strip_comments(cpp), _strip_comments(hdr)
    m = re.search(r"early_stopping_t::early_stopping_t\s*\(\s*tensor2d_t\s+values\s*\)\s*:(.*?)\{\s*\}", cpp, re.S)
    if not m:
        raise Broken("translate", f"{SRC_CPP}: constructor early_stopping_t(tensor2d_t values) not found")
    inits = re.sub(r"\s+", "", m.group(1))
    if "m_value(std::numeric_limits<scalar_t>::max())" not in inits:
        raise Broken("translate", f"{SRC_CPP}: m_value is no longer initialised with numeric_limits<scalar_t>::max()")
    if "m_values(std::move(values))" not in inits:
        raise Broken("translate", f"{SRC_CPP}: m_values is no longer initialised with the constructor argument")
    if "m_round(" in inits:
        raise Broken("translate", f"{SRC_CPP}: m_round initialised in the constructor")
    r = re.search(r"size_t\s+m_round\s*\{\s*(\d+)[uU]?\s*\}", hdr)
    if not r:
        raise Broken("translate", f"{SRC_H}: default member initialiser of m_round not found")
    return int(r.group(1))


def emit(chain, round0):
    L = []
    L.append(f"-- GENERATED by tools/props/c11.py from {SRC_CPP} (+ {SRC_H}) — do not edit")
    L.append("/-! The decision of `early_stopping_t::done` as a step function, generic over the scalar (core classes only):")
    L.append("    run at `Float` by `driver_c11`, proved over an ordered field in `Props/C11.lean`. -/")
    L.append("namespace NanoVerif.Gen.EarlyStopping")
    L.append("")
    L.append("/-- `m_round`, `m_value`, and — in place of the copied tensor `m_values` — which `errors_losses` it is a copy of")
    L.append("    (`0` = the constructor argument, otherwise the `idx` of the call) -/")
    L.append("structure State (α : Type) where")
    L.append("  round : Nat")
    L.append("  value : α")
    L.append("  snap : Nat")
    L.append("")
    L.append("/-- one call: `train = mean_error(errors_losses, train_samples)`, `valid = mean_error(errors_losses, valid_samples)`,")
    L.append("    `n = wlearners.size()`, the sample counts, and `idx` naming the `errors_losses` tensor of this call -/")
    L.append("structure Call (α : Type) where")
    L.append("  train : α")
    L.append("  valid : α")
    L.append("  n : Nat")
    L.append("  ntrain : Nat")
    L.append("  nvalid : Nat")
    L.append("  idx : Nat")
    L.append("")
    L.append("variable {α : Type} [Add α] [Sub α] [Mul α] [LT α] [LE α] [DecidableLT α] [DecidableLE α]")
    L.append("")
    L.append("/-- constructor: `m_value(numeric_limits<scalar_t>::max())`, `m_round{" + str(round0) + "U}`, `m_values(values)` -/")
    L.append(f"def init (vmax : α) : State α := {{ round := {round0}, value := vmax, snap := 0 }}")
    L.append("")
    L.append("def done (epsilon : α) (patience : Nat) (s : State α) (c : Call α) : State α × Bool :=")
    for k, (cond, sets, ret) in enumerate(chain):
        if cond is None:
            L.append("  else")
        elif k == 0:
            L.append(f"  if {cond} then")
        else:
            L.append(f"  else if {cond} then")
        for fld, e in sets:
            L.append(f"    let s := {{ s with {fld} := {e} }}")
        L.append(f"    (s, {ret})")
    L.append("")
    L.append("end NanoVerif.Gen.EarlyStopping")
    return "\n".join(L) + "\n"


def translate():
    try:
        cpp = open(os.path.join(vlib.REPO, SRC_CPP)).read()
        hdr = open(os.path.join(vlib.REPO, SRC_H)).read()
    except OSError as ex:
        raise Broken("translate", f"cannot read the early-stopping sources: {ex}")
    text = emit(parse_done(cpp), parse_init(cpp, hdr))
    vlib.write_if_changed(GEN_PATH, text)
    return text


# ---------------------------------------------------------------------------------------------------------
# generator

DBL_MAX = 1.7976931348623157e308
EPS_LIST = [1e-6, 2.0 ** -10]


def _corpus():
    cp = os.path.join(vlib.VERIF, "corpus", "C11", "ops.txt")
    if os.path.exists(cp):
        return [l.strip() for l in open(cp) if l.strip() and not l.startswith("#")]
    return []


def _words_valid(L):
    """validation symbols 0..4 at every position x the training error crossing eps at one position (or nowhere)"""
    for vs in itertools.product("01234", repeat=L):
        yield "".join(vs)
        for p in range(L):
            yield "".join(vs[:p]) + str(int(vs[p]) + 5) + "".join(vs[p + 1:])


def _words_novalid(L):
    """no validation samples: the validation symbol is irrelevant (mean over no samples = 0); all 2^L training patterns"""
    for bs in itertools.product("27", repeat=L):
        yield "".join(bs)


def gen_es(rng, tier):
    ops = []
    maxL = 6 if tier == "quick" else 7
    k = 0
    for L in range(0, maxL + 1):
        for w in (_words_valid(L) if L > 0 else ["-"]):
            for pat in (1, 2, 3, 4):
                k += 1
                eps = f2h(EPS_LIST[k % 2])
                ops.append(f"es a {eps} {pat} {1 + k % 2} {1 + (k // 2) % 2} {w}")
        for w in (_words_novalid(L) if L > 0 else ["-"]):
            for pat in (1, 2, 3, 4):
                k += 1
                ops.append(f"es a {f2h(EPS_LIST[k % 2])} {pat} {1 + k % 2} 0 {w}")
    if tier == "thorough":
        # a seeded twentieth of the length-8 layer
        syms = "01234"
        for vs in itertools.product(syms, repeat=8):
            if rng.below(20) != 0:
                continue
            base = "".join(vs)
            for p in range(-1, 8):
                w = base if p < 0 else base[:p] + str(int(base[p]) + 5) + base[p + 1:]
                for pat in (1, 2, 3, 4):
                    k += 1
                    ops.append(f"es a {f2h(EPS_LIST[k % 2])} {pat} 1 1 {w}")
    # random longer histories: arbitrary values around the stored optimum, arbitrary learner counts
    for _ in range(3000 if tier == "quick" else 30000):
        eps = rng.choice([1e-12, 1e-6, 1e-3, 0.25, 1.0, 2.0 ** -10, rng.uniform(1e-9, 0.5)])
        pat = rng.choice([0, 1, 1, 2, 3, 4, 5, 10, rng.range(1, 30)])
        ntrain = rng.choice([1, 2, 4])
        nvalid = rng.choice([0, 1, 1, 2, 4])
        L = rng.range(1, 40)
        mode = rng.below(4)
        calls = []
        best = rng.uniform(0.5, 2.0)
        n = 0
        for j in range(L):
            r = rng.below(10)
            if r < 3:
                v = best - eps * rng.choice([0.5, 1.0, 1.0, 2.0, 1.0 + 1e-9, 1.0 - 1e-9, 1.5])
            elif r < 5:
                v = best + eps * rng.choice([0.0, 0.5, 1.0, 3.0])
            elif r < 6:
                v = best
            else:
                v = rng.uniform(0.0, 2.0)
            if rng.below(200) == 0:
                v = rng.choice([float("inf"), DBL_MAX, float("nan"), -1.0])
            if v == v and v < best:
                best = v if rng.below(2) else best
            t = rng.choice([eps, eps * 0.5, eps * (1 + 1e-12), eps * 2, 1.0, rng.uniform(0, 3 * eps)]) if rng.below(12) == 0 else rng.uniform(eps, 1.0) + eps
            if mode == 0:
                n = j
            elif mode == 1:
                n = n + rng.below(3)
            elif mode == 2:
                n = rng.below(12)
            else:
                n = j + 1
            calls.append(f"{f2h(t)} {f2h(v)} {n}")
        ops.append(f"es h {f2h(eps)} {pat} {ntrain} {nvalid} {L} " + " ".join(calls))
    return ops


REG_LOSSES = ["mse", "mae", "cauchy"]
CLS_LOSSES = ["s-classnll", "s-logistic", "s-exponential", "s-hinge", "s-squared-hinge", "s-savage", "s-tangent"]
PROTOS = ["affine", "dense-table", "stump", "hinge", "dstep-table", "kbest-table", "ksplit-table", "dtree"]


def _task_loss(rng):
    if rng.below(3) == 0:
        return rng.choice(["cls2", "cls3"]), rng.choice(CLS_LOSSES)
    return "reg", rng.choice(REG_LOSSES)


def gen_fit(rng, tier):
    ops = []
    for _ in range(30 if tier == "quick" else 40):
        task, loss = _task_loss(rng)
        samples = rng.range(24, 90)
        d, ncat = rng.range(1, 4), rng.range(0, 2)
        folds = rng.range(2, 5)
        protos = rng.shuffle(PROTOS)[:rng.range(1, 3)]
        if ncat == 0:
            protos = [p for p in protos if "table" not in p] or ["affine"]
        shrink = rng.choice(["off", "off", "local", "global"])
        ops.append("fit gboost {} {} {} {} {} {} {} {} {} {} {} {} {} {} {} {} {}".format(
            rng.below(1 << 30), samples, d, ncat, task, loss, folds, rng.below(1025),
            rng.choice([10, 12, 20, 40]), rng.range(1, 5), f2h(rng.choice([1e-6, 1e-3, 1e-2, 0.05])),
            rng.choice(["gboost", "gboost", "tboost"]), shrink,
            rng.choice(["off", "off", "subsample", "bootstrap", "wei_loss_bootstrap", "wei_grad_bootstrap"]),
            ",".join(protos), f2h(rng.choice([0.0, 0.05, 0.3, 1.0])), rng.choice([10, 16, 100])))
    for _ in range(20 if tier == "quick" else 24):
        task, loss = _task_loss(rng)
        smooth = loss in ("mse", "cauchy", "s-classnll", "s-logistic", "s-exponential", "s-squared-hinge")
        model = rng.choice(["ordinary", "ordinary", "lasso", "ridge", "elastic_net"])
        solver = "lbfgs" if (smooth and model in ("ordinary", "ridge")) else rng.choice(["rqb", "osga"])
        ops.append("fit linear {} {} {} {} {} {} {} {} {} {} {} {} {}".format(
            rng.below(1 << 30), rng.range(24, 90), rng.range(1, 4), rng.range(0, 2), task, loss, rng.range(2, 5),
            rng.below(1025), model, rng.choice(["none", "mean", "minmax", "standard"]), solver,
            f2h(rng.choice([0.0, 0.05, 0.3, 1.0])), rng.choice([10, 16, 100])))
    # local shrinkage on noisy data (the tuned ratio is then < 1 in most rounds: a ratio applied to the stored learner but not to
    # the tracked predictions, or the reverse, shows in the recomputed statistics), half of them as re-fits
    for k in range(6 if tier == "quick" else 10):
        task, loss = ("reg", rng.choice(["mse", "mae"])) if k % 2 == 0 else _task_loss(rng)
        ops.append("fit gboost {} {} {} {} {} {} {} {} {} {} {} {} {} {} {} {} {}".format(
            rng.below(1 << 30), rng.range(40, 90), rng.range(1, 3), 0, task, loss, rng.range(2, 3), rng.below(1025),
            rng.choice([10, 12, 20]), rng.range(2, 5), f2h(1e-6), rng.choice(["gboost", "tboost"]), "local", "off",
            rng.choice(["affine", "stump", "stump,affine", "hinge"]), f2h(rng.choice([0.3, 1.0, 1.0])), rng.choice([10, 16, 100])))
    # every third fit is a RE-fit: the same model object was fitted on another sample set before (seeded change C11-c3: state of
    # the first fit leaking into the second); the statement's clauses are about the model the last fit() leaves
    return [op + " refit" if k % 3 == 1 else op for k, op in enumerate(ops)]


def gen_gbloop(rng, tier):
    """full gboost fits observed through the trace hook H3: the arguments are those of `fit gboost`; the parameters are
    biased towards every way of leaving the round loop (first call stops: large epsilon; training error below epsilon;
    patience; max_rounds; no learner: only table learners without categorical features; scaling failure: sub-sampled fits)"""
    ops = []
    for k in range(60 if tier == "quick" else 200):
        task, loss = _task_loss(rng)
        samples = rng.range(24, 70)
        d, ncat = rng.range(1, 3), rng.range(0, 2)
        folds = rng.range(2, 4)
        protos = rng.shuffle(PROTOS)[:rng.range(1, 3)]
        if ncat == 0 and rng.below(8) != 0:
            protos = [p for p in protos if "table" not in p] or ["stump"]
        shrink = rng.choice(["off", "off", "off", "local", "global"])
        ops.append("gbloop {} {} {} {} {} {} {} {} {} {} {} {} {} {} {} {} {}".format(
            rng.below(1 << 30), samples, d, ncat, task, loss, folds, rng.below(1025),
            rng.choice([10, 10, 12, 20, 40]), rng.choice([1, 2, 3, 4, 5, 12, 50]),
            f2h(rng.choice([1e-6, 1e-3, 1e-2, 0.05, 0.3, 1.0])),
            rng.choice(["gboost", "gboost", "tboost"]), shrink,
            rng.choice(["off", "off", "subsample", "bootstrap", "wei_loss_bootstrap", "wei_grad_bootstrap"]),
            ",".join(protos), f2h(rng.choice([0.0, 0.05, 0.3, 1.0])), rng.choice([10, 16, 100])))
    return ops


def _values(rng, n):
    """n per-sample values: ties, constant lists, tiny and large magnitudes"""
    mode = rng.below(6)
    if mode == 0:
        c = rng.uniform(0.0, 2.0)
        return [c] * n
    if mode == 1:
        return [rng.below(4) / 4.0 for _ in range(n)]
    if mode == 2:
        return [rng.uniform(0.0, 1.0) * 10.0 ** rng.range(-6, 3) for _ in range(n)]
    return [rng.uniform(0.0, 1.5) for _ in range(n)]


def _vlist(xs):
    return f"{len(xs)} " + " ".join(f2h(x) for x in xs)


def gen_mlres(rng, tier):
    """histories of ml::result_t::add / store(trial, fold, ...) / store(final): batches of trials as ml::tune adds them, the
    (trial, fold) slots of a batch stored in a random order (as the pool would), some slots left unset (NaN), some stored twice"""
    ops = []
    for _ in range(250 if tier == "quick" else 1500):
        folds = rng.range(1, 4)
        trials, toks, nops, next_id = 0, [], 0, 1
        for _b in range(rng.range(0, 4)):
            k = rng.range(1, 3)
            toks.append(f"A {k}"); nops += 1
            slots = [(trials + t, f) for t in range(k) for f in range(folds)]
            trials += k
            slots = rng.shuffle(slots)
            if rng.below(4) == 0 and slots:
                slots = slots[:-1]                       # one slot stays NaN
            if rng.below(5) == 0 and slots:
                slots.append(rng.choice(slots))          # one slot stored twice: the last store wins
            if rng.below(6) == 0 and trials > k:
                slots.append((rng.below(trials - k), rng.below(folds)))   # an older trial overwritten
            for (t, f) in slots:
                ntr, nvd = rng.range(1, 24), rng.range(1, 12)
                toks.append("S {} {} {} {} {} {} {}".format(t, f, _vlist(_values(rng, ntr)), _vlist(_values(rng, ntr)),
                                                            _vlist(_values(rng, nvd)), _vlist(_values(rng, nvd)), next_id))
                nops += 1; next_id += 1
            if rng.below(8) == 0:
                n = rng.range(1, 30)
                toks.append("F {} {} {}".format(_vlist(_values(rng, n)), _vlist(_values(rng, n)), next_id)); nops += 1; next_id += 1
        if rng.below(4) != 0:
            n = rng.range(1, 40)
            toks.append("F {} {} {}".format(_vlist(_values(rng, n)), _vlist(_values(rng, n)), next_id)); nops += 1
        ops.append(f"mlres {folds} {nops} " + " ".join(toks))
    return ops


def gen_gbres(rng, tier):
    """gboost::result_t::update / done on given per-sample tensors and arbitrary (non-contiguous, repeating, empty) sample lists"""
    ops = []
    for _ in range(150 if tier == "quick" else 1000):
        n = rng.range(1, 16)
        ntrain = rng.range(0, 12)
        nvalid = rng.choice([0, 0, 1, 2, 5, rng.range(0, 9)])
        train = [rng.below(n) for _ in range(ntrain)]
        valid = [rng.below(n) for _ in range(nvalid)]
        max_rounds = rng.range(0, 6)
        calls = rng.range(1, max_rounds + 1)
        body = []
        for _k in range(calls):
            body.append(f2h(rng.choice([1.0, 0.1, 0.5, rng.uniform(0.0, 1.0)])) + " " + _vlist(_values(rng, 2 * n)))
        ops.append("gbres {} {} {} {} {} {} {}".format(
            f"{ntrain} " + " ".join(map(str, train)) if ntrain else "0",
            f"{nvalid} " + " ".join(map(str, valid)) if nvalid else "0", n, max_rounds, calls, " ".join(body), rng.below(calls)))
    return ops


def gen(rng, tier):
    os.makedirs(HARNESS_ENV["TMPDIR"], exist_ok=True)
    return _corpus() + gen_fit(rng, tier) + gen_gbloop(rng, tier) + gen_mlres(rng, tier) + gen_gbres(rng, tier) + gen_es(rng, tier)


# ---------------------------------------------------------------------------------------------------------
# the property oracle for histories, coded from the statement: the monitor stops exactly when the training error is
# below epsilon or no validation improvement larger than epsilon was accepted in the last `patience` rounds, and reports
# the round of the last accepted improvement with that round's values

def decode_history(op):
    """-> (eps, patience, ntrain, nvalid, [(train, valid, learners)])"""
    t = op.split()
    eps = h2f(t[2]); pat = int(t[3]); ntrain = int(t[4]); nvalid = int(t[5])
    calls = []
    if t[1] == "a":
        word = "" if t[6] == "-" else t[6]
        alphabet = [0.0, eps / 2.0, eps, eps * 2.0, 1.0]
        for k, ch in enumerate(word):
            d = ord(ch) - 48
            calls.append((eps / 2.0 if d >= 5 else eps, alphabet[d % 5], k))
    else:
        L = int(t[6])
        for k in range(L):
            calls.append((h2f(t[7 + 3 * k]), h2f(t[8 + 3 * k]), int(t[9 + 3 * k])))
    return eps, pat, ntrain, nvalid, calls


def mean_of(x, count):
    acc = 0.0
    for _ in range(count):
        acc += x
    return acc / max(count, 1)


def expected_history(eps, pat, nvalid, calls, ntrain=1, states=None):
    """answers, reported round / value / index of the reported call (0 = none yet), and whether an accepted and a
    rejected validation improvement occurred; `states` (a list) receives what is reported after every call"""
    rep_round, rep_value, rep_call = 0, DBL_MAX, 0      # nothing accepted yet: round 0, value DBL_MAX
    answers = []
    seen_acc = seen_rej = False
    for k, (train, valid, learners) in enumerate(calls):
        # the monitor's inputs are the MEAN errors over the samples (every sample carries the same error here; the mean of
        # 1, 2 or 4 equal finite values is that value, but e.g. 4 x DBL_MAX overflows); the mean over no samples is 0
        train = mean_of(train, ntrain)
        valid = mean_of(valid, nvalid)
        small_train = train < eps
        improvement = valid < rep_value - eps             # larger than epsilon w.r.t. the last accepted one
        accepted = small_train or improvement or nvalid == 0
        if nvalid > 0 and not small_train and k > 0:
            if improvement:
                seen_acc = True
            elif valid < rep_value:
                seen_rej = True
        if accepted:
            rep_round, rep_value, rep_call = learners, valid, k + 1
        rounds_since = learners - rep_round
        answers.append(small_train or (not accepted and rounds_since >= pat))
        if states is not None:
            states.append((rep_round, rep_value, rep_call))
    return answers, rep_round, rep_value, rep_call, (seen_acc and seen_rej)


def oracle_es(op, res):
    eps, pat, ntrain, nvalid, calls = decode_history(op)
    answers, rnd, val, call, _ = expected_history(eps, pat, nvalid, calls, ntrain)
    r = res.split()
    if r[0] != "ok":
        return f"implementation did not answer ok: {res[:80]}"
    bits = "" if r[1] == "-" else r[1]
    want = "".join("1" if a else "0" for a in answers)
    if bits != want:
        k = next((i for i in range(min(len(bits), len(want))) if bits[i] != want[i]), min(len(bits), len(want)))
        return f"done() answers {bits} but the statement requires {want} (first difference at call {k})"
    if int(r[2]) != rnd:
        return f"round() = {r[2]}, the last accepted improvement was made with {rnd} learners"
    got_val = h2f(r[3])
    if not (got_val == val or (got_val != got_val and val != val)):
        return f"value() = {got_val!r}, the last accepted validation error is {val!r}"
    if int(r[4]) != call:
        return f"values() is the tensor of call {r[4]}, the last accepted call is {call}"
    n = int(r[5])
    row = [h2f(x) for x in r[6:6 + n]]
    if call == 0:
        exp = [0.0] * (ntrain + nvalid)
    else:
        exp = [calls[call - 1][0]] * ntrain + [calls[call - 1][1]] * nvalid
    same = len(row) == len(exp) and all(a == b or (a != a and b != b) for a, b in zip(row, exp))
    if not same:
        return f"values() holds the errors {row}, those of the last accepted call are {exp}"
    return None


def oracle(op, res):
    fam = op.split(None, 1)[0]
    if fam == "es":
        return oracle_es(op, res)
    if fam == "fit":
        return oracle_fit(op, res)
    if fam == "gbloop":
        return oracle_gbloop(op, res)
    if fam == "mlres":
        return oracle_mlres(op, res)
    if fam == "gbres":
        return oracle_gbres(op, res)
    return f"unknown family {fam}"


# ---------------------------------------------------------------------------------------------------------
# the property oracle for the traced round loop (hook H3), coded from the statement: the fold stops exactly when the
# training error drops below epsilon or no validation improvement larger than epsilon was accepted in the last `patience`
# rounds (or no learner fits / the scaling fails / max_rounds is reached), reports the round of the last accepted
# improvement with that round's values, and that round is the number of weak learners (and statistics rows - 1) it keeps:
# the first ones, in the order they were appended. Inputs: the oracle answers the implementation logged (augmented op);
# judged: the decisions it logged (result).

GB_NARGS = 17
EPS_MACH = 2.0 ** -52
GB_SEEN = {}     # how the traced fold fits left the round loop (filled by the oracle, reported by distribution())


def same(a, b):
    return a == b or (a != a and b != b)


class GbFit:
    pass


def parse_gbloop(aug, res):
    """-> (header, [GbFit], averaging) with the oracle answers (aug) and the logged decisions (res) of every fold fit"""
    a = _R(aug); a.i = 1 + GB_NARGS
    a.expect("H3")
    trials, folds, optimum = a.int(), a.int(), a.int()
    r = _R(res)
    r.expect("ok")
    fits = []
    for _ in range(trials * folds):
        f = GbFit()
        a.expect("F"); r.expect("F")
        f.trial, f.fold = a.int(), a.int()
        if (r.int(), r.int()) != (f.trial, f.fold):
            raise ValueError("fold order")
        f.ntrain, f.nvalid, f.max_rounds, f.eps, f.pat, f.protos, f.nofit = a.int(), a.int(), a.int(), a.f(), a.int(), a.int(), a.f()
        f.train0, f.valid0 = a.f(), a.f()
        f.stop0, f.learners0, f.round0, f.value0 = r.int(), r.int(), r.int(), r.f()
        f.rounds = []
        for _k in range(a.int()):
            q = GbFit()
            q.kind = a.s()
            q.scores = a.fs(a.int())
            r.expect("R")
            q.chosen, q.best, q.rkind = r.int(), r.f(), r.s()
            if q.kind != q.rkind:
                raise ValueError("round kinds of the two lines differ")
            if q.kind in "sf":
                q.xmin, q.epsmach = a.f(), a.f()
                q.x = a.fs(a.int())
                q.learners = r.int()
            if q.kind == "f":
                q.train, q.valid, q.st_train, q.st_valid = a.f(), a.f(), a.f(), a.f()
                q.stop, q.es_round, q.es_value = r.int(), r.int(), r.f()
            f.rounds.append(q)
        f.st0_train, f.st0_valid, f.fin_learners, f.pub_rows, f.pub_learners = a.f(), a.f(), a.int(), a.int(), a.int()
        r.expect("E")
        f.exit, f.fin_round, f.fin_value, f.snap, f.done_round = r.s(), r.int(), r.f(), r.int(), r.int()
        f.kept = [r.int() for _k in range(r.int())]
        f.rows = [(r.f(), r.f()) for _k in range(r.int())]
        parse_ext(a, r, f)
        fits.append(f)
    a.expect("M"); r.expect("M")
    fold_bias = []
    for _ in range(folds):
        b = a.fs(a.int())
        fold_bias.append((b, a.int()))
    merged = a.int()
    denom = r.f()
    bias = r.fs(r.int())
    concat = r.int()
    if a.i != len(a.t) or r.i != len(r.t):
        raise ValueError("trailing tokens")
    return (trials, folds, optimum), fits, (fold_bias, merged, denom, bias, concat)


def parse_ext(a, r, f):
    """the data flow of the fold fit: aug `X ... Y ...` (oracle answers), res `X <rows>` (the statistics rows written)"""
    a.expect("X")
    f.shrinkage = a.s()
    f.params = a.fs(a.int())
    f.has_values = a.int() == 1
    f.ext_rounds = []
    if f.has_values:
        f.train = [a.int() for _k in range(a.int())]
        f.valid = [a.int() for _k in range(a.int())]
        f.values0 = a.fs(a.int())
        for _k in range(a.int()):
            q = GbFit()
            q.kind = a.s()
            if q.kind == "f":
                a.expect("T")
                q.tune = [(a.f(), a.f()) for _j in range(a.int())]
                q.logged_ratio = a.f()
                q.values = a.fs(a.int())
            f.ext_rounds.append(q)
    a.expect("Y")
    end = a.int() + a.i
    f.mon = []
    for _k in range(a.int()):
        m = GbFit()
        m.kind = a.s()
        m.samples = [a.int() for _j in range(a.int())] if a.int() == 1 else None
        m.tune = None
        if a.int() == 1:
            m.tune = [(a.f(), a.f()) for _j in range(a.int())]
            m.tune_best, m.tune_best_value = a.f(), a.f()
        m.out_ratio = a.f() if a.int() == 1 else None
        if m.kind == "f":
            m.err_ratio, m.row_ratio = a.f(), a.f()
        f.mon.append(m)
    a.expect("I")
    f.inv_diff, f.inv_scale = a.f(), a.f()
    if a.i != end:
        raise ValueError("length of the Y group")
    r.expect("X")
    f.ext_rows = [r.fs(5) for _k in range(r.int())]


GRID = [0.1, 0.2, 0.3, 0.4, 0.5, 0.6, 0.7, 0.8, 0.9, 1.0]


def mean_in_order(vals, samples):
    """gboost::mean_error / mean_loss as the statement reads them: the mean of the listed samples' values (0 for none)"""
    acc = 0.0
    for smp in samples:
        acc += vals[smp]
    return acc / max(len(samples), 1)


def first_argmin(pairs):
    best, best_value = 0.0, DBL_MAX
    for ratio, value in pairs:
        if value < best_value:
            best, best_value = ratio, value
    return best, best_value


def oracle_ext(f, subsample):
    """the per-round statistics are (mean train error, mean train loss, mean valid error, mean valid loss) of the per-sample
    values of the tracked predictions, with the shrinkage ratio of the round; the local ratio is the first grid point with the
    smallest mean validation loss and is the one applied; the weak learner is fitted on training samples only; the tracked
    predictions at the optimum round are those of the stored fold model"""
    where = f"trial {f.trial} fold {f.fold}"
    # the run-time monitors (hook H3b; absent records are skipped)
    nfit = 0
    for k, m in enumerate(f.mon):
        if m.samples is not None and f.has_values:
            tr = set(f.train)
            if any(x not in tr for x in m.samples):
                return f"{where} round {k}: the weak learner is fitted on samples outside the training split of the fold"
            if subsample == "off":
                if m.samples != f.train:
                    return f"{where} round {k}: sub-sampling is off but the fitted samples are not the training samples"
            else:
                want = int(0.8 * len(f.train))
                if len(m.samples) != want:
                    return f"{where} round {k}: {len(m.samples)} fitted samples, subsample_ratio * |train| = {want}"
                if subsample == "subsample" and len(set(m.samples)) != len(m.samples):
                    return f"{where} round {k}: sampling without replacement returned a sample twice"
        if m.tune is not None:
            if f.shrinkage != "local":
                return f"{where} round {k}: tune_shrinkage called although shrinkage is {f.shrinkage}"
            if [t[0] for t in m.tune] != GRID:
                return f"{where} round {k}: shrinkage grid {[t[0] for t in m.tune]}"
            best, best_value = first_argmin(m.tune)
            if not (same(best, m.tune_best) and same(best_value, m.tune_best_value)):
                return (f"{where} round {k}: tune_shrinkage answered {m.tune_best!r} (mean validation loss {m.tune_best_value!r}), "
                        f"the first grid point with the smallest mean validation loss is {best!r} ({best_value!r})")
            if m.kind == "f" and not same(m.row_ratio, m.tune_best):
                return f"{where} round {k}: tuned ratio {m.tune_best!r} but the round records {m.row_ratio!r}"
        elif m.kind == "f" and f.shrinkage == "local" and m.out_ratio is not None:
            return f"{where} round {k}: local shrinkage without a call of tune_shrinkage"
        if m.kind == "f":
            nfit += 1
            if not same(m.err_ratio, m.row_ratio) or (m.out_ratio is not None and not same(m.out_ratio, m.row_ratio)):
                return f"{where} round {k}: ratio at the update {m.out_ratio!r}, logged {m.err_ratio!r}, in the statistics {m.row_ratio!r}"
            if f.shrinkage == "off" and m.row_ratio != 1.0:
                return f"{where} round {k}: shrinkage is off but the ratio is {m.row_ratio!r}"
            if f.shrinkage == "global" and not (len(f.params) == 1 and same(m.row_ratio, f.params[0])):
                return f"{where} round {k}: global shrinkage {f.params} but the ratio is {m.row_ratio!r}"
    if f.inv_diff >= 0.0 or f.inv_diff != f.inv_diff:
        if not (f.inv_diff <= 1e-9 * max(1.0, f.inv_scale)):
            return (f"{where}: the tracked predictions at the optimum round {f.fin_round} differ by {f.inv_diff!r} from bias + sum of "
                    f"the stored fold model's weak learners (magnitude {f.inv_scale!r})")
        GB_SEEN["gbloop-fold-fits/invariant-at-optimum-checked"] = GB_SEEN.get("gbloop-fold-fits/invariant-at-optimum-checked", 0) + 1
    if not f.has_values:
        return None
    # the statistics rows from the per-sample values
    cur, k = f.values0, 0
    n = len(cur) // 2
    calls = [("b", f.values0)] + [(q.kind, getattr(q, "values", None)) for q in f.ext_rounds]
    if len(f.ext_rows) != len(calls):
        return f"{where}: {len(f.ext_rows)} statistics rows written for {len(calls)} calls of result.update"
    for k, ((kind, vals), row) in enumerate(zip(calls, f.ext_rows)):
        if kind != "s":
            cur = vals                      # a failed scaling repeats the current values
        if len(cur) != 2 * n or any(x >= n for x in f.train + f.valid):
            return f"{where}: shape of the per-sample values"
        want = [mean_in_order(cur[:n], f.train), mean_in_order(cur[n:], f.train),
                mean_in_order(cur[:n], f.valid), mean_in_order(cur[n:], f.valid)]
        for name, g, w in zip(("mean train error", "mean train loss", "mean valid error", "mean valid loss"), row, want):
            if not vlib.close(g, w, 1e-12, 0.0):
                return f"{where}: statistics row {k}: {name} {g!r}, the per-sample values of the round average to {w!r}"
    GB_SEEN["gbloop-fold-fits/rows-recomputed"] = GB_SEEN.get("gbloop-fold-fits/rows-recomputed", 0) + 1
    if f.shrinkage == "local" and any(m.tune is not None and m.tune_best < 1.0 for m in f.mon):
        GB_SEEN["gbloop-fold-fits/local-ratio-below-1"] = GB_SEEN.get("gbloop-fold-fits/local-ratio-below-1", 0) + 1
    return None


def oracle_gbfit(f):
    where = f"trial {f.trial} fold {f.fold}"
    has_valid = min(f.nvalid, 1)
    if not (same(f.st0_train, f.train0) and same(f.st0_valid, f.valid0)):
        return f"{where}: statistics row 0 differs from the mean errors the monitor saw on the bias-only model"
    calls = [(f.train0, f.valid0, 0)]
    appended = []                                   # ids of the appended learners, in order
    expect_exit = None
    for k, q in enumerate(f.rounds):
        if expect_exit is not None:
            return f"{where}: round {k} was executed after the loop had to be left ({expect_exit})"
        if len(q.scores) != f.protos:
            return f"{where} round {k}: {len(q.scores)} scores for {f.protos} prototypes"
        # the weak learner that aligns best: the smallest score, the first one on ties, none when no score is below no-fit
        best, chosen = f.nofit, -1
        for i, sc in enumerate(q.scores):
            if sc < best:
                best, chosen = sc, i
        if chosen != q.chosen or not same(best, q.best):
            return (f"{where} round {k}: prototype {q.chosen} (score {q.best!r}) was chosen, the best of the scores "
                    f"{q.scores} is prototype {chosen} ({best!r})")
        if chosen < 0:
            if q.kind != "n":
                return f"{where} round {k}: no prototype could be fitted but the round went on"
            expect_exit = "nolearner"
            continue
        if q.kind == "n":
            return f"{where} round {k}: a weak learner was fitted but the loop was left as if none was"
        appended.append(k * f.protos + chosen)
        if q.learners != len(appended):
            return f"{where} round {k}: {q.learners} learners after the append, {len(appended)} were appended"
        if q.epsmach != EPS_MACH:
            return f"{where} round {k}: scaling threshold {q.epsmach!r}"
        if all(v == v for v in q.x) and q.x and min(q.x) != q.xmin:
            return f"{where} round {k}: minimum scaling factor {q.xmin!r} logged, the factors are {q.x}"
        failed = q.xmin < EPS_MACH
        if failed != (q.kind == "s"):
            return f"{where} round {k}: minimum scaling factor {q.xmin!r} but the scaling-failure branch was {'not ' if failed else ''}taken"
        if failed:
            expect_exit = "scalefail"
            continue
        if not (same(q.st_train, q.train) and same(q.st_valid, q.valid)):
            return f"{where} round {k}: statistics row {k + 1} differs from the mean errors the monitor saw"
        calls.append((q.train, q.valid, len(appended)))
        if len(appended) != k + 1:
            return f"{where} round {k}: {len(appended)} learners at the call of round {k}"
    states = []
    answers, rnd, val, call, _ = expected_history(f.eps, f.pat, has_valid, calls, states=states)
    # every call: the answer and what the monitor reports afterwards
    logged = [(f.stop0, f.round0, f.value0)] + [(q.stop, q.es_round, q.es_value) for q in f.rounds if q.kind == "f"]
    for j, ((stop, es_round, es_value), want, st) in enumerate(zip(logged, answers, states)):
        if bool(stop) != want:
            return (f"{where}: done() answered {bool(stop)} at the call with {calls[j][2]} learners (train {calls[j][0]!r}, "
                    f"valid {calls[j][1]!r}), the statement requires {want}")
        if es_round != st[0] or not same(es_value, st[1]):
            return (f"{where}: after the call with {calls[j][2]} learners the monitor reports round {es_round} / value "
                    f"{es_value!r}, the last accepted improvement is round {st[0]} / value {st[1]!r}")
    if any(answers[:-1]):
        return f"{where}: the loop went on after done() had to answer true at call {answers.index(True)}"
    if f.learners0 != 0:
        return f"{where}: {f.learners0} learners at the first call"
    # why the loop was left
    if answers[0]:
        expect_exit = "start"
        if f.rounds:
            return f"{where}: rounds were executed although the call on the bias-only model stopped"
    elif expect_exit is None:
        if len(calls) > 1 and answers[-1]:
            expect_exit = "stopped"
        elif len(f.rounds) == f.max_rounds:
            expect_exit = "maxrounds"
        else:
            return (f"{where}: the loop was left after {len(f.rounds)} of {f.max_rounds} rounds although done() answered false, "
                    f"a learner was found and the scaling succeeded")
    if len(f.rounds) > f.max_rounds:
        return f"{where}: {len(f.rounds)} rounds executed, max_rounds is {f.max_rounds}"
    if f.exit != expect_exit:
        return f"{where}: the loop was left by `{f.exit}`, the logged answers require `{expect_exit}`"
    # what the fold reports and keeps
    if f.fin_round != rnd or f.done_round != rnd:
        return (f"{where}: round() = {f.fin_round} / result.done({f.done_round}), the last accepted improvement was made with "
                f"{rnd} learners")
    if not same(f.fin_value, val):
        return f"{where}: value() = {f.fin_value!r}, the last accepted validation error is {val!r}"
    if f.snap != call:
        return f"{where}: values() is the per-sample tensor of call {f.snap}, the last accepted call is {call}"
    if f.kept != appended[:rnd] or len(f.kept) != rnd:
        return (f"{where}: the fold keeps the learners {f.kept} (appended in this order: {appended}), the optimum round {rnd} "
                f"requires the first {rnd}")
    if len(f.rows) != rnd + 1:
        return f"{where}: {len(f.rows)} statistics rows kept, the optimum round is {rnd}"
    for j, (t, v) in enumerate(f.rows):
        if not (same(t, calls[j][0]) and same(v, calls[j][1])):
            return f"{where}: kept statistics row {j} is ({t!r}, {v!r}), the errors at {j} learners were {calls[j][:2]}"
    if f.pub_rows != rnd + 1 or f.pub_learners > rnd or f.fin_learners != f.pub_learners:
        return (f"{where}: the returned fold result holds {f.pub_rows} statistics rows and {f.pub_learners} (merged) learners, "
                f"the optimum round is {rnd}")
    return None


def oracle_gbloop(aug, res):
    t = aug.split()
    if len(t) == 2 + GB_NARGS and t[-1] == "nohook":
        return None if res == "skipped" else f"no trace hook, result {res[:60]}"
    if res.startswith("bad-trace"):
        return f"the trace of the round loop does not follow its statement order: {res}"
    try:
        (trials, folds, optimum), fits, (fold_bias, merged, denom, bias, concat) = parse_gbloop(aug, res)
    except (ValueError, IndexError) as ex:
        return f"cannot parse the traced fit: {ex!r} :: {res[:80]}"
    for f in fits:
        if t[12] == "gboost":
            for k, q in enumerate(f.rounds):
                if q.kind in "sf" and len(q.x) != 1:
                    return f"trial {f.trial} fold {f.fold} round {k}: {len(q.x)} scaling factors in gboost mode (one group)"
        why = oracle_gbfit(f) or oracle_ext(f, t[14])
        if why:
            return why
        GB_SEEN["gbloop-fold-fits/exit-" + f.exit] = GB_SEEN.get("gbloop-fold-fits/exit-" + f.exit, 0) + 1
    # the final model: the biases of the optimum trial's folds summed and divided by the number of folds; all their learners
    if denom != 1.0 / folds:
        return f"averaging factor {denom!r} for {folds} folds"
    dims = len(fold_bias[0][0])
    for j in range(dims):
        acc = 0.0
        for b, _ in fold_bias:
            acc += b[j]
        if not same(acc * denom, bias[j]):
            return f"averaged bias[{j}] = {bias[j]!r}, the fold biases {[b[j] for b, _ in fold_bias]} average to {acc * denom!r}"
    if concat != sum(n for _, n in fold_bias) or merged > concat:
        return f"{concat} learners concatenated ({merged} after merging), the folds hold {[n for _, n in fold_bias]}"
    kept = {(f.trial, f.fold): f.pub_learners for f in fits}
    for fold, (_, n) in enumerate(fold_bias):
        if n != kept[(optimum, fold)]:
            return f"fold {fold} of the optimum trial {optimum} contributes {n} learners, its result holds {kept[(optimum, fold)]}"
    return None


# ---------------------------------------------------------------------------------------------------------
# the property oracle for full fits: every reported statistic is recomputed from the per-sample errors / loss values
# the harness obtained by predicting with the stored per-fold / final models (store_stats' twelve numbers)

FIT_RTOL = 1e-9
# errors / losses are differences of O(1) predictions and targets: a value recomputed in another association order differs
# by ~1e-16 absolutely, which is not small relative to an error that is itself at rounding level
FIT_ATOL = 1e-11
PERCENTILES = [1.0, 5.0, 10.0, 20.0, 50.0, 80.0, 90.0, 95.0, 99.0]
STAT_NAMES = ["mean", "stdev", "count"] + [f"per{int(p):02d}" for p in PERCENTILES]


def stats12(xs):
    """mean, stdev (= sqrt((E[x^2] - mean^2) / (n - 1)), the library's definition), count, nine percentiles"""
    n = len(xs)
    if n == 0:
        return None
    mean = math.fsum(xs) / n
    ex2 = math.fsum(x * x for x in xs) / n
    var = ex2 - mean * mean
    stdev = 0.0 if n < 2 else (math.sqrt(var / (n - 1)) if var >= 0 else float("nan"))
    srt = sorted(xs)
    out = [mean, stdev, float(n)]
    for p in PERCENTILES:
        pos = p * (n - 1) / 100.0
        lo, hi = int(math.floor(pos)), int(math.ceil(pos))
        out.append(srt[lo] if lo == hi else (srt[lo] + srt[hi]) / 2)
    return out, ex2


def cmp_stats(what, reported, xs):
    exp = stats12(xs)
    if exp is None:
        return None
    want, ex2 = exp
    scale = math.sqrt(ex2)
    for name, g, w in zip(STAT_NAMES, reported, want):
        if name == "stdev":
            # E[x^2] - mean^2 cancels: absolute slack proportional to the magnitude of the values; a NaN from a tiny negative
            # variance (constant values) is accepted on either side only when the recomputed spread is at rounding level
            tiny = 1e-6 * scale
            if (g != g or w != w):
                if not ((g != g or abs(g) <= tiny) and (w != w or abs(w) <= tiny)):
                    return f"{what}: reported stdev {g!r} vs recomputed {w!r}"
                continue
            if abs(g - w) > FIT_RTOL * max(abs(g), abs(w)) + 1e-7 * scale + FIT_ATOL:
                return f"{what}: reported stdev {g!r} vs recomputed {w!r}"
        elif not vlib.close(g, w, FIT_RTOL, 0.0 if name == "count" else FIT_ATOL):
            return f"{what}: reported {name} {g!r} != {w!r} recomputed from the stored model's predictions ({len(xs)} samples)"
    return None


class _R:
    def __init__(self, res):
        self.t = res.split(); self.i = 0
    def s(self):
        v = self.t[self.i]; self.i += 1; return v
    def int(self):
        return int(self.s())
    def f(self):
        return h2f(self.s())
    def fs(self, n):
        v = [h2f(x) for x in self.t[self.i:self.i + n]]; self.i += n
        if len(v) != n:
            raise ValueError("short result")
        return v
    def expect(self, tag):
        got = self.s()
        if got != tag:
            raise ValueError(f"expected {tag}, got {got}")
    def errors_losses(self):
        n = self.int()
        return self.fs(n), self.fs(n)


def fit_args(op):
    t = op.split()
    d = dict(kind=t[1], seed=int(t[2]), samples=int(t[3]), loss=t[7], folds=int(t[8]))
    if t[1] == "gboost":
        d.update(max_rounds=int(t[10]), patience=int(t[11]), eps=h2f(t[12]), shrinkage=t[14])
    return d


def oracle_fit(op, res):
    a = fit_args(op)
    r = _R(res)
    if r.s() != "ok":
        return f"fit did not answer ok: {res[:100]}"
    r.expect(a["kind"])
    trials, folds, optimum = r.int(), r.int(), r.int()
    if folds != a["folds"]:
        return f"{folds} folds reported, {a['folds']} requested"
    trial_value = []
    for trial in range(trials):
        fold_means = []
        for fold in range(folds):
            r.expect("T")
            if (r.int(), r.int()) != (trial, fold):
                return "result layout"
            where = f"trial {trial} fold {fold}"
            if a["kind"] == "gboost":
                rows, nlearners = r.int(), r.int()
                stat = [r.fs(4) for _ in range(rows)]
            rep = [r.fs(12) for _ in range(4)]
            tr_e, tr_l = r.errors_losses()
            vd_e, vd_l = r.errors_losses()
            for what, g, xs in (("train errors", rep[0], tr_e), ("train losses", rep[1], tr_l),
                                ("valid errors", rep[2], vd_e), ("valid losses", rep[3], vd_l)):
                why = cmp_stats(f"{where} {what}", g, xs)
                if why:
                    return why
            fold_means.append(rep[2][0])
            if a["kind"] == "gboost":
                if rows < 1 or nlearners > rows - 1:
                    return f"{where}: {nlearners} weak learners kept but the optimum round is {rows - 1}"
                # the last kept round is the reported optimum: its mean errors / losses are those of the kept model ...
                last = stat[-1]
                for name, g, xs in (("train error", last[0], tr_e), ("train loss", last[1], tr_l),
                                    ("valid error", last[2], vd_e), ("valid loss", last[3], vd_l)):
                    w = math.fsum(xs) / max(len(xs), 1)
                    if not vlib.close(g, w, FIT_RTOL, FIT_ATOL):
                        return (f"{where}: mean {name} of the optimum round {rows - 1} is reported as {g!r}, the kept model "
                                f"({nlearners} weak learners) gives {w!r}")
                # ... and it is the round of the last accepted improvement of the error history, not stopped before
                calls = [(st[0], st[2], k) for k, st in enumerate(stat)]
                answers, rnd, _, _, _ = expected_history(a["eps"], a["patience"], min(len(vd_e), 1), calls)
                if rnd != rows - 1:
                    return (f"{where}: the fold keeps round {rows - 1} but the last accepted improvement of its error history "
                            f"is round {rnd}")
                if any(answers[:-1]):
                    return f"{where}: the error history required a stop at round {answers.index(True)} < {rows - 1}"
        trial_value.append(sum(fold_means) / folds)
    # the optimum trial: the first with the smallest mean validation error over the folds
    best, best_value = 0, DBL_MAX
    for trial, v in enumerate(trial_value):
        if v < best_value:
            best, best_value = trial, v
    if best != optimum:
        return f"optimum trial {optimum} reported, the smallest mean validation error is at trial {best}"
    r.expect("F")
    rep_e, rep_l = r.fs(12), r.fs(12)
    fe, fl = r.errors_losses()
    for what, g, xs in (("final errors", rep_e, fe), ("final losses", rep_l, fl)):
        why = cmp_stats(what, g, xs)
        if why:
            return why
    r.expect("P")
    n = r.int(); p_model = r.fs(n)
    n2 = r.int(); p_sum = r.fs(n2)
    n3 = r.int(); p_mean = r.fs(n3)
    if not (n == n2 == n3):
        return "prediction sizes differ"
    names = (("bias + sum of the weak learners' predictions", "the average of the optimum trial's fold models")
             if a["kind"] == "gboost" else ("weights * x + bias", "the stored refit result"))
    for k in range(n):
        if not vlib.close(p_model[k], p_sum[k], FIT_RTOL, 1e-12):
            return f"final model predicts {p_model[k]!r} for sample/output {k}, {names[0]} is {p_sum[k]!r}"
        if not vlib.close(p_model[k], p_mean[k], FIT_RTOL, 1e-12):
            return f"final model predicts {p_model[k]!r} for sample/output {k}, {names[1]} gives {p_mean[k]!r}"
    if r.i != len(r.t):
        return "trailing tokens in the fit result"
    return None


# ---------------------------------------------------------------------------------------------------------
# ml::result_t driven directly: what stats(trial, fold, split, kind) returns is the statistics of the per-sample values stored
# for exactly that trial, fold, split and kind; extra(trial, fold) is the data stored with them; value(trial) the mean over the
# folds of the mean validation errors; optimum_trial the first trial with the smallest value

def parse_mlres_op(op):
    r = _R(op)
    r.expect("mlres")
    folds, nops = r.int(), r.int()
    acts = []
    for _ in range(nops):
        k = r.s()
        if k == "A":
            acts.append(("A", r.int()))
        elif k == "S":
            trial, fold = r.int(), r.int()
            blocks = [r.fs(r.int()) for _j in range(4)]
            acts.append(("S", trial, fold, blocks, r.int()))
        elif k == "F":
            blocks = [r.fs(r.int()) for _j in range(2)]
            acts.append(("F", blocks, r.int()))
        else:
            raise ValueError("mlres op")
    return folds, acts


def parse_mlres_res(res):
    r = _R(res)
    r.expect("ok")
    trials, folds = r.int(), r.int()
    cells = {}
    for t in range(trials):
        for f in range(folds):
            r.expect("C")
            cells[(t, f)] = (r.int(), [r.fs(12) for _j in range(4)])
    r.expect("V")
    values = r.fs(r.int())
    r.expect("O")
    opt = r.int()
    r.expect("G")
    fin = [r.fs(12), r.fs(12)]
    fin_id = r.int()
    if r.i != len(r.t):
        raise ValueError("trailing tokens")
    return trials, folds, cells, values, opt, fin, fin_id


def oracle_mlres(op, res):
    try:
        folds, acts = parse_mlres_op(op)
        trials, rfolds, cells, values, opt, fin, fin_id = parse_mlres_res(res)
    except (ValueError, IndexError) as ex:
        return f"cannot parse: {ex!r} :: {res[:80]}"
    want_trials, stored, final = 0, {}, None
    for act in acts:
        if act[0] == "A":
            want_trials += act[1]
        elif act[0] == "S":
            stored[(act[1], act[2])] = (act[3], act[4])
        else:
            final = (act[1], act[2])
    if (trials, rfolds) != (want_trials, folds):
        return f"{trials} trials x {rfolds} folds reported, {want_trials} x {folds} were added"
    names = ("train errors", "train losses", "valid errors", "valid losses")
    for (t, f), (ident, blocks) in cells.items():
        if (t, f) not in stored:
            if ident != -1 or any(x == x for b in blocks for x in b):
                return f"trial {t} fold {f} was never stored but reports statistics / model data"
            continue
        xs, want_id = stored[(t, f)]
        if ident != want_id:
            return f"trial {t} fold {f}: extra() is the data stored as #{ident}, the last store for this slot was #{want_id}"
        for name, g, x in zip(names, blocks, xs):
            why = cmp_stats(f"trial {t} fold {f} {name}", g, x)
            if why:
                return why
    want_values = []
    for t in range(trials):
        if all((t, f) in stored for f in range(folds)):
            want_values.append(sum(math.fsum(stored[(t, f)][0][2]) / len(stored[(t, f)][0][2]) for f in range(folds)) / folds)
        else:
            want_values.append(float("nan"))
    for t, (g, w) in enumerate(zip(values, want_values)):
        if not vlib.close(g, w, FIT_RTOL, FIT_ATOL):
            return f"value({t}) = {g!r}, the mean validation error over the folds is {w!r}"
    fin_vals = [v for v in want_values if v == v]
    if fin_vals:
        lo = min(fin_vals)
        first = next(t for t, v in enumerate(want_values) if v == v and v <= lo + FIT_RTOL * abs(lo) + FIT_ATOL)
        ok = (0 <= opt < trials and want_values[opt] == want_values[opt]
              and want_values[opt] <= lo + FIT_RTOL * abs(lo) + FIT_ATOL
              and not any(v == v and v < want_values[opt] - FIT_RTOL * abs(lo) - FIT_ATOL for v in want_values[:opt]))
        if not ok:
            return f"optimum_trial() = {opt}, the first trial with the smallest value ({lo!r}) is {first}; values {want_values}"
    elif opt != 0:
        return f"optimum_trial() = {opt} although no trial has a value"
    if final is None:
        if fin_id != -1 or any(x == x for b in fin for x in b):
            return "final statistics reported although none were stored"
    else:
        if fin_id != final[1]:
            return f"extra() is #{fin_id}, the last final store was #{final[1]}"
        for name, g, x in zip(("final errors", "final losses"), fin, final[0]):
            why = cmp_stats(name, g, x)
            if why:
                return why
    return None


def oracle_gbres(op, res):
    r = _R(op)
    r.expect("gbres")
    train = [r.int() for _k in range(r.int())]
    valid = [r.int() for _k in range(r.int())]
    n, _max_rounds = r.int(), r.int()
    calls = [(r.f(), r.fs(r.int())) for _k in range(r.int())]
    rnd = r.int()
    g = _R(res)
    if g.s() != "ok":
        return f"did not answer ok: {res[:60]}"
    rows = [g.fs(5) for _k in range(g.int())]
    if len(rows) != rnd + 1:
        return f"done({rnd}) keeps {len(rows)} statistics rows"
    for k, row in enumerate(rows):
        ratio, vals = calls[k]
        want = [mean_in_order(vals[:n], train), mean_in_order(vals[n:], train), mean_in_order(vals[:n], valid),
                mean_in_order(vals[n:], valid), ratio]
        for name, a, b in zip(("mean train error", "mean train loss", "mean valid error", "mean valid loss", "ratio"), row, want):
            if not vlib.close(a, b, 1e-12, 0.0):
                return f"row {k}: {name} {a!r}, the values given at update({k}) give {b!r}"
    return None


def compare(aug, impl, model):
    """exact for every family; `mlres` compares the statistics blocks with the tolerance of the Eigen reductions (mean, stdev)
    and accepts another optimum trial only when the two trials' values agree within that tolerance"""
    if impl == model:
        return True
    if not aug.startswith("mlres "):
        return False
    try:
        a = parse_mlres_res(impl)
        b = parse_mlres_res(model)
    except (ValueError, IndexError):
        return False
    if a[0] != b[0] or a[1] != b[1] or a[6] != b[6]:
        return False

    def block_ok(x, y):
        scale = max([abs(v) for v in x if v == v] + [0.0])
        for j, (g, w) in enumerate(zip(x, y)):
            if j == 1:
                tiny = 1e-6 * scale
                if g != g or w != w:
                    if not ((g != g or abs(g) <= tiny) and (w != w or abs(w) <= tiny)):
                        return False
                elif abs(g - w) > 1e-9 * max(abs(g), abs(w)) + 1e-7 * scale + 1e-300:
                    return False
            elif not vlib.close(g, w, 1e-12, 0.0):
                return False
        return True

    for key, (ident, blocks) in a[2].items():
        ident2, blocks2 = b[2][key]
        if ident != ident2 or not all(block_ok(x, y) for x, y in zip(blocks, blocks2)):
            return False
    if not all(vlib.close(x, y, 1e-12, 0.0) for x, y in zip(a[3], b[3])):
        return False
    if a[4] != b[4]:
        va, vb = a[3][a[4]], a[3][b[4]]
        if not vlib.close(va, vb, 1e-12, 0.0):
            return False
    return all(block_ok(x, y) for x, y in zip(a[5], b[5]))


def model_skip(op):
    return op.startswith("fit ")


def nontrivial(op):
    if op.startswith("es "):
        eps, pat, ntrain, nvalid, calls = decode_history(op)
        return expected_history(eps, pat, nvalid, calls, ntrain)[4]
    if op.startswith("gbloop "):
        return bool(GB_SEEN)        # without hook H3 the traced fits are skipped
    return True


def distribution(ops):
    d = {}
    for op in ops:
        t = op.split()
        if t[0] == "es":
            L = (0 if t[6] == "-" else len(t[6])) if t[1] == "a" else int(t[6])
            key = f"es/{t[1]}/{'valid' if t[5] != '0' else 'novalid'}/len{L if L <= 8 else '9+'}"
        elif t[0] == "gbloop":
            key = f"gbloop/{t[12]}/{t[13]}/{t[14]}"
        elif t[0] in ("mlres", "gbres"):
            key = t[0]
        else:
            key = f"fit/{t[1]}"
        d[key] = d.get(key, 0) + 1
    d.update(GB_SEEN)
    return d


def classify(op, kind, detail):
    t = op.split()
    if not t:
        return None
    if t[0] == "es":
        return "early_stopping_t::done"
    if t[0] == "gbloop":
        return "gboost::fit:round-loop"
    if t[0] == "mlres":
        return "ml::result_t"
    if t[0] == "gbres":
        return "gboost::result_t"
    if kind == "crash" and len(t) > 16 and t[1] == "gboost" and "dtree" in t[16].split(","):
        return "crash:gboost-fit:dtree:dataset_t::check(empty)"
    return f"fit/{t[1]}" if len(t) > 1 else "fit"


def shrink_candidates(op):
    t = op.split()
    if t[0] != "es":
        return
    if t[1] == "a":
        w = "" if t[6] == "-" else t[6]
        for i in range(len(w)):                       # drop one call
            nw = w[:i] + w[i + 1:]
            yield " ".join(t[:6] + [nw or "-"])
    else:
        L = int(t[6]); calls = [t[7 + 3 * k:10 + 3 * k] for k in range(L)]
        for i in range(L):
            rest = calls[:i] + calls[i + 1:]
            yield " ".join(t[:6] + [str(L - 1)] + [x for c in rest for x in c])


# ---------------------------------------------------------------------------------------------------------
# the statements of the source that the hand-written round-loop skeleton (Model/Boost.lean) mirrors are pinned textually
# (whitespace-insensitive); an edit of one of them is reported as `static` and triggers the widened search. With hook H3 the
# loop statements are additionally tied by the differential run `gbloop` (see TRUSTED); the prediction loop, the scaling of
# the concatenated learners and mean_error's denominator are tied by these anchors (and numerically by `fit`) only

ANCHORS = {
    "src/gboost/model.cpp": [
        ("monitor constructed on the bias-only values", "auto optimum = early_stopping_t{values};", 1),
        ("done() on the bias-only model and after every appended learner",
         "if (optimum.done(values, train_samples, valid_samples, result.m_wlearners, epsilon, patience))", 2),
        ("no rounds when the first call stops", "max_rounds = 0;", 1),
        ("round loop", "for (tensor_size_t round = 0; round < max_rounds; ++round)", 1),
        ("no-learner exit", "if (!best_wlearner) { break; }", 1),
        ("learner appended (scaling failure: without a done() call; regular round: before done())",
         "result.update(round + 1, shrinkage_ratio, gstate, std::move(best_wlearner));", 2),
        ("the fold keeps optimum.round() learners", "result.done(static_cast<tensor_size_t>(optimum.round()));", 1),
        ("reported per-sample values are the monitor's snapshot",
         "return std::make_tuple(std::move(result), selected(optimum.values(), train_samples), selected(optimum.values(), valid_samples));", 1),
        ("fold averaging: biases summed", "m_bias.vector() += pgboost->m_bias.vector();", 1),
        ("fold averaging: 1 / folds", "const auto denom = 1.0 / static_cast<scalar_t>(folds);", 1),
        ("fold averaging: bias scaled", "m_bias.vector() *= denom;", 1),
        ("fold averaging: learners scaled", "wlearner->scale(vdenom);", 1),
        ("prediction starts from the bias", "outputs.reshape(samples.size(), -1).matrix().rowwise() = m_bias.vector().transpose();", 1),
        # Model/BoostFit.lean
        ("global ratio = the tuned hyper-parameter", "shrinkage_ratio = params(index);", 1),
        ("sampler over the training samples", "auto sampler = sampler_t{train_samples, subsample, seed, subsample_ratio};", 1),
        ("statistics row 0", "result.update(0, shrinkage_ratio, bstate);", 1),
        ("learner scaled by the solver's factors times the ratio", "best_wlearner->scale(gstate.x() * shrinkage_ratio);", 1),
        ("predictions of the scaled learner on a zeroed buffer", "woutputs.zero(); best_wlearner->predict(dataset, samples, woutputs.tensor());", 2),
        ("local mode: ratio tuned on the validation samples", "shrinkage_ratio = tune_shrinkage(valid_targets_iterator, loss, outputs, woutputs);", 1),
        ("local mode: stored learner re-scaled", "best_wlearner->scale(make_full_vector<scalar_t>(1, shrinkage_ratio));", 1),
        ("local mode: added predictions re-scaled", "woutputs.array() *= shrinkage_ratio;", 1),
        ("tracked predictions updated", "outputs.vector() += woutputs.vector();", 1),
        ("per-sample values of the tracked predictions", "::nano::gboost::evaluate(targets_iterator, loss, outputs, values);", 3),
        ("re-fit: bias cleared", "m_bias = make_full_tensor<scalar_t>(make_dims(::nano::size(dataset.target_dims())), 0.0);", 1),
        ("re-fit: learners cleared", "m_wlearners.clear();", 1),
        ("final statistics of the final model on the fitted samples", "fit_result.store(::selected(values, samples));", 1),
    ],
    "src/machine/result.cpp": [
        ("train errors block", "store_stats(train_errors_losses.tensor(0), m_values.tensor(trial, fold, 0, 0));", 1),
        ("train losses block", "store_stats(train_errors_losses.tensor(1), m_values.tensor(trial, fold, 0, 1));", 1),
        ("valid errors block", "store_stats(valid_errors_losses.tensor(0), m_values.tensor(trial, fold, 1, 0));", 1),
        ("valid losses block", "store_stats(valid_errors_losses.tensor(1), m_values.tensor(trial, fold, 1, 1));", 1),
        ("model data slot", "m_extras[static_cast<size_t>(trial * folds() + fold)] = std::move(extra);", 1),
    ],
    "src/linear.cpp": [
        ("fold fit on the training samples, warm-started", "auto result = ::fit(*this, dataset, train_samples, loss, fit_params.solver(), params, logger, extra);", 1),
        ("refit on all samples, cold", "auto result = ::fit(*this, dataset, samples, loss, fit_params.solver(), params, logger);", 1),
        ("the object keeps the refit model", "m_bias = result.m_bias; m_weights = result.m_weights;", 1),
    ],
    "src/gboost/result.cpp": [
        ("result_t::done erases [round, end)", "m_wlearners.erase(m_wlearners.begin() + optimum_round, m_wlearners.end());", 1),
        ("result_t::done keeps rounds 0..round of the statistics", "m_statistics = m_statistics.slice(0, optimum_round + 1);", 1),
        ("learner appended by update", "m_wlearners.emplace_back(std::move(wlearner));", 1),
    ],
    "src/gboost/util.cpp": [
        ("mean over max(size, 1)", "const auto denom = static_cast<scalar_t>(std::max(samples.size(), tensor_size_t{1}));", 2),
    ],
}


def static_checks():
    bad = []
    for rel, anchors in ANCHORS.items():
        try:
            text = re.sub(r"\s+", "", _strip_comments(open(os.path.join(vlib.REPO, rel)).read()))
        except OSError as ex:
            bad.append(f"{rel}: {ex}")
            continue
        for what, stmt, count in anchors:
            got = text.count(re.sub(r"\s+", "", stmt))
            if got != count:
                bad.append(f"{rel}: `{stmt}` ({what}) occurs {got} time(s), the models Model/Boost*.lean, MLResult.lean, LinearFit.lean mirror {count}")
    return bad
