"""C11 — fitted models reproduce reported statistics; early stopping keeps the right round (DESIGN.md §4 C11)."""
import itertools, math, os, re
import vlib
from vlib import Toks, f2h, h2f, Broken

ID = "C11"
LEVEL = "proof"
HARNESS = "c11"
LEAN_MODULES = ["NanoVerif.Props.C11"]
NS = "NanoVerif.EarlyStopping."
OBLIGATIONS = [NS + t for t in [
    "es_stop_iff", "es_snapshot_is_accepted", "es_no_missed_improvement", "es_strict_improvement",
    "es_value_decreases", "es_round_le_learners", "es_patience_rounds", "es_patience_rounds_conv",
    "es_first_call_accepted", "no_valid_never_patience_stops", "es_train_stops",
]] + ["NanoVerif.Boost." + t for t in [
    "fold_keeps_round_learners", "fold_round_le_learners", "fold_model_is_snapshot_model",
    "predict_append", "averaged_model_predicts_mean",
]]
TRUSTED = [
    "Lean 4.33.0 kernel + the Mathlib modules imported by Props/C11 (Order.Field.Basic, Tactic.Linarith, Tactic.Ring)",
    "axioms: at most propext, Classical.choice, Quot.sound (audited per theorem on every run)",
    "tools/props/c11.py translate(): C++ if-chain of early_stopping_t::done -> NanoVerif/Gen/EarlyStopping.lean (regenerated "
    "on every run; the theorems are stated over the generated definition)",
    "hand-written round-loop skeleton NanoVerif/Model/Boost.lean of gboost fit (model.cpp) — tied to the code only by the "
    "fit-level statistics recomputation (oracle), not by a differential run",
    "harness/c11.cpp, the python history oracle and statistics recomputation in tools/props/c11.py; g++/libstdc++/Eigen",
]
ASSUMPTIONS = [
    "exact arithmetic (ordered field) in the theorems; the driver runs the same generated definition at IEEE double",
    "the initial m_value = DBL_MAX enters the theorems as the hypothesis that an observed validation error is below v0 - epsilon",
    "mean_error over the samples is an input of the monitor model (train/valid value); the harness builds tensors whose mean is "
    "exactly the intended value (1, 2 or 4 equal entries)",
    "wlearner::merge after result_t::done (re-association of weak learners with equal features) is not modelled; it is covered "
    "by the recomputation of the statistics from the stored fold models only",
    "the numeric quality of the fits (solver convergence) is not claimed",
]
RULE = ("early stopping: exhaustive call histories over the alphabet {0, eps/2, eps, 2eps, 1} for the validation error x one "
        "training-error crossing position (or none; the non-crossing training error sits exactly on eps) x patience 1..4 with "
        "validation samples, all 2^L training patterns without (quick: L<=6, thorough: L<=7 and a seeded fifth of L=8), eps in "
        "{1e-6, 2^-10}; random longer histories with arbitrary values, arbitrary learner counts and non-finite errors; "
        "full fits of gboost and linear models on random small datasets with every reported statistic recomputed from the stored "
        "models. A history is non-trivial when it contains an accepted and a rejected call (judged by the python oracle's replay); "
        "a fit when it has >= 2 folds and >= 1 weak learner / non-zero weight; distinct by op text")
FLAVOUR = {"quick": "plain", "thorough": "asan"}
EXHAUSTIVE = {"quick": True, "thorough": True}
RTOL = 0.0
HARNESS_TIMEOUT = 1500

SRC_CPP = "src/gboost/early_stopping.cpp"
SRC_H = "include/nano/gboost/early_stopping.h"
GEN_PATH = os.path.join(vlib.LEAN, "NanoVerif", "Gen", "EarlyStopping.lean")

# ---------------------------------------------------------------------------------------------------------
# translator: the four-way decision of early_stopping_t::done -> Lean

BIND = {
    "train_value": "c.train", "valid_value": "c.valid", "epsilon": "epsilon", "patience": "patience",
    "m_value": "s.value", "m_round": "s.round",
    "wlearners.size()": "c.n", "valid_samples.size()": "c.nvalid", "train_samples.size()": "c.ntrain",
}
FIELD = {"m_value": "value", "m_round": "round"}

TOK = re.compile(r"\s*(?:(\d+)[uUlL]*|([A-Za-z_][A-Za-z_0-9]*(?:(?:\.|->)[A-Za-z_][A-Za-z_0-9]*)*(?:\(\))?)|(<=|>=|==|!=|&&|\|\||[-+*()<>!]))")


def _tokenize(s):
    out, i = [], 0
    while i < len(s):
        if not s[i:].strip():
            break
        m = TOK.match(s, i)
        if not m:
            raise Broken("translate", f"{SRC_CPP}: cannot tokenize condition at: {s[i:i + 40]!r}")
        if m.group(1) is not None:
            out.append(("num", m.group(1)))
        elif m.group(2) is not None:
            out.append(("id", m.group(2)))
        else:
            out.append(("op", m.group(3)))
        i = m.end()
    return out


class _P:
    """C++ boolean/arithmetic expression -> Lean Prop / term (precedence: || < && < comparison < +- < * < unary)"""
    def __init__(self, text):
        self.t = _tokenize(text); self.i = 0; self.text = text
    def peek(self):
        return self.t[self.i] if self.i < len(self.t) else ("eof", "")
    def eat(self, v=None):
        k = self.peek()
        if v is not None and k[1] != v:
            raise Broken("translate", f"{SRC_CPP}: expected {v!r}, got {k[1]!r} in {self.text!r}")
        self.i += 1
        return k
    def top(self):
        e = self.orx()
        if self.peek()[0] != "eof":
            raise Broken("translate", f"{SRC_CPP}: trailing tokens in {self.text!r}")
        return e
    def orx(self):
        a = self.andx()
        while self.peek()[1] == "||":
            self.eat(); a = f"({a} ∨ {self.andx()})"
        return a
    def andx(self):
        a = self.cmp()
        while self.peek()[1] == "&&":
            self.eat(); a = f"({a} ∧ {self.cmp()})"
        return a
    def cmp(self):
        a = self.add()
        if self.peek()[1] in ("<", "<=", ">", ">=", "==", "!="):
            op = self.eat()[1]; b = self.add()
            return f"({a} {({'<': '<', '<=': '≤', '>': '>', '>=': '≥', '==': '=', '!=': '≠'})[op]} {b})"
        return a
    def add(self):
        a = self.mul()
        while self.peek()[1] in ("+", "-"):
            op = self.eat()[1]; a = f"({a} {op} {self.mul()})"
        return a
    def mul(self):
        a = self.unary()
        while self.peek()[1] == "*":
            self.eat(); a = f"({a} * {self.unary()})"
        return a
    def unary(self):
        if self.peek()[1] == "!":
            self.eat(); return f"(¬ {self.unary()})"
        return self.primary()
    def primary(self):
        k = self.eat()
        if k[0] == "num":
            return k[1]
        if k[1] == "(":
            e = self.orx(); self.eat(")"); return e
        if k[0] == "id":
            if k[1] in BIND:
                return BIND[k[1]]
            raise Broken("translate", f"{SRC_CPP}: unbound symbol {k[1]!r} in {self.text!r}")
        raise Broken("translate", f"{SRC_CPP}: unexpected token {k[1]!r} in {self.text!r}")


def _strip_comments(s):
    s = re.sub(r"/\*.*?\*/", " ", s, flags=re.S)
    return re.sub(r"//[^\n]*", " ", s)


def _match(s, i, open_c, close_c):
    """s[i] == open_c; returns index just after the matching close"""
    assert s[i] == open_c
    depth = 0
    while i < len(s):
        if s[i] == open_c:
            depth += 1
        elif s[i] == close_c:
            depth -= 1
            if depth == 0:
                return i + 1
        i += 1
    raise Broken("translate", f"{SRC_CPP}: unbalanced {open_c}")


def _body(stmts):
    """`m_x = e; ...; return b;` -> (list of (field, lean expr), bool)"""
    parts = [p.strip() for p in stmts.split(";") if p.strip()]
    if not parts:
        raise Broken("translate", f"{SRC_CPP}: empty branch")
    m = re.fullmatch(r"return\s+(true|false)", parts[-1])
    if not m:
        raise Broken("translate", f"{SRC_CPP}: branch does not end with `return true|false`: {parts[-1]!r}")
    sets = []
    for p in parts[:-1]:
        a = re.fullmatch(r"(m_[a-z_]+)\s*=\s*(.+)", p, re.S)
        if not a:
            raise Broken("translate", f"{SRC_CPP}: unsupported statement {p!r}")
        lhs, rhs = a.group(1), a.group(2).strip()
        if lhs == "m_values":
            if rhs != "errors_losses":
                raise Broken("translate", f"{SRC_CPP}: m_values assigned from {rhs!r}")
            sets.append(("snap", "c.idx"))
        elif lhs in FIELD:
            sets.append((FIELD[lhs], _P(rhs).top()))
        else:
            raise Broken("translate", f"{SRC_CPP}: assignment to unknown member {lhs}")
    return sets, m.group(1)


def parse_done(src):
    """returns [(condition-or-None, [(field, expr)], 'true'|'false')] for the if / else-if / else chain"""
    src = _strip_comments(src)
    m = re.search(r"bool\s+early_stopping_t::done\s*\(([^)]*)\)\s*\{", src)
    if not m:
        raise Broken("translate", f"{SRC_CPP}: early_stopping_t::done not found")
    params = re.sub(r"\s+", " ", m.group(1))
    for need in ("errors_losses", "train_samples", "valid_samples", "wlearners", "epsilon", "patience"):
        if not re.search(r"\b" + need + r"\b", params):
            raise Broken("translate", f"{SRC_CPP}: parameter {need} missing from done(...)")
    end = _match(src, m.end() - 1, "{", "}")
    body = src[m.end():end - 1]
    # the two leading definitions: the monitor's inputs are the mean errors over the train / validation samples
    pre = re.match(r"\s*const\s+auto\s+train_value\s*=\s*mean_error\s*\(\s*errors_losses\s*,\s*train_samples\s*\)\s*;"
                   r"\s*const\s+auto\s+valid_value\s*=\s*mean_error\s*\(\s*errors_losses\s*,\s*valid_samples\s*\)\s*;", body)
    if not pre:
        raise Broken("translate", f"{SRC_CPP}: done() no longer starts with train_value/valid_value = mean_error(errors_losses, ...)")
    i = pre.end()
    chain = []
    first = True
    while True:
        rest = body[i:]
        if first:
            k = re.match(r"\s*if\s*\(", rest)
            if not k:
                raise Broken("translate", f"{SRC_CPP}: expected `if (` after the mean errors, found {rest.strip()[:40]!r}")
        else:
            k = re.match(r"\s*else\s+if\s*\(", rest)
        if k:
            p0 = i + k.end() - 1
            p1 = _match(body, p0, "(", ")")
            cond = body[p0 + 1:p1 - 1]
            b = re.match(r"\s*\{", body[p1:])
            if not b:
                raise Broken("translate", f"{SRC_CPP}: branch without braces")
            b0 = p1 + b.end() - 1
            b1 = _match(body, b0, "{", "}")
            sets, ret = _body(body[b0 + 1:b1 - 1])
            chain.append((_P(cond).top(), sets, ret))
            i = b1
            first = False
            continue
        k = re.match(r"\s*else\s*\{", rest)
        if k and not first:
            b0 = i + k.end() - 1
            b1 = _match(body, b0, "{", "}")
            sets, ret = _body(body[b0 + 1:b1 - 1])
            chain.append((None, sets, ret))
            i = b1
        break
    if body[i:].strip():
        raise Broken("translate", f"{SRC_CPP}: statements after the if-chain: {body[i:].strip()[:60]!r}")
    if not chain or chain[-1][0] is not None:
        raise Broken("translate", f"{SRC_CPP}: the if-chain has no final else")
    return chain


def parse_init(cpp, hdr):
    cpp, hdr = _strip_comments(cpp), _strip_comments(hdr)
    m = re.search(r"early_stopping_t::early_stopping_t\s*\(\s*tensor2d_t\s+values\s*\)\s*:(.*?)\{\s*\}", cpp, re.S)
    if not m:
        raise Broken("translate", f"{SRC_CPP}: constructor early_stopping_t(tensor2d_t values) not found")
    inits = re.sub(r"\s+", "", m.group(1))
    if "m_value(std::numeric_limits<scalar_t>::max())" not in inits:
        raise Broken("translate", f"{SRC_CPP}: m_value is no longer initialised with numeric_limits<scalar_t>::max()")
    if "m_values(std::move(values))" not in inits:
        raise Broken("translate", f"{SRC_CPP}: m_values is no longer initialised with the constructor argument")
    if "m_round(" in inits:
        raise Broken("translate", f"{SRC_CPP}: m_round initialised in the constructor")
    r = re.search(r"size_t\s+m_round\s*\{\s*(\d+)[uU]?\s*\}", hdr)
    if not r:
        raise Broken("translate", f"{SRC_H}: default member initialiser of m_round not found")
    return int(r.group(1))


def emit(chain, round0):
    L = []
    L.append(f"-- GENERATED by tools/props/c11.py from {SRC_CPP} (+ {SRC_H}) — do not edit")
    L.append("/-! The decision of `early_stopping_t::done` as a step function, generic over the scalar (core classes only):")
    L.append("    run at `Float` by `driver_c11`, proved over an ordered field in `Props/C11.lean`. -/")
    L.append("namespace NanoVerif.Gen.EarlyStopping")
    L.append("")
    L.append("/-- `m_round`, `m_value`, and — in place of the copied tensor `m_values` — which `errors_losses` it is a copy of")
    L.append("    (`0` = the constructor argument, otherwise the `idx` of the call) -/")
    L.append("structure State (α : Type) where")
    L.append("  round : Nat")
    L.append("  value : α")
    L.append("  snap : Nat")
    L.append("")
    L.append("/-- one call: `train = mean_error(errors_losses, train_samples)`, `valid = mean_error(errors_losses, valid_samples)`,")
    L.append("    `n = wlearners.size()`, the sample counts, and `idx` naming the `errors_losses` tensor of this call -/")
    L.append("structure Call (α : Type) where")
    L.append("  train : α")
    L.append("  valid : α")
    L.append("  n : Nat")
    L.append("  ntrain : Nat")
    L.append("  nvalid : Nat")
    L.append("  idx : Nat")
    L.append("")
    L.append("variable {α : Type} [Add α] [Sub α] [Mul α] [LT α] [LE α] [DecidableLT α] [DecidableLE α]")
    L.append("")
    L.append("/-- constructor: `m_value(numeric_limits<scalar_t>::max())`, `m_round{" + str(round0) + "U}`, `m_values(values)` -/")
    L.append(f"def init (vmax : α) : State α := {{ round := {round0}, value := vmax, snap := 0 }}")
    L.append("")
    L.append("def done (epsilon : α) (patience : Nat) (s : State α) (c : Call α) : State α × Bool :=")
    for k, (cond, sets, ret) in enumerate(chain):
        if cond is None:
            L.append("  else")
        elif k == 0:
            L.append(f"  if {cond} then")
        else:
            L.append(f"  else if {cond} then")
        for fld, e in sets:
            L.append(f"    let s := {{ s with {fld} := {e} }}")
        L.append(f"    (s, {ret})")
    L.append("")
    L.append("end NanoVerif.Gen.EarlyStopping")
    return "\n".join(L) + "\n"


def translate():
    try:
        cpp = open(os.path.join(vlib.REPO, SRC_CPP)).read()
        hdr = open(os.path.join(vlib.REPO, SRC_H)).read()
    except OSError as ex:
        raise Broken("translate", f"cannot read the early-stopping sources: {ex}")
    text = emit(parse_done(cpp), parse_init(cpp, hdr))
    vlib.write_if_changed(GEN_PATH, text)
    return text
