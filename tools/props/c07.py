"""C07 — line-search steps honour the acceptance conditions they advertise (DESIGN.md §4 C07).

Three independent mechanisms (CONVENTIONS.md):
  G  `translate()` re-generates lean/NanoVerif/Gen/LsPredicates.lean (has_armijo, has_wolfe, … , stpmin, stpmax) and
     lean/NanoVerif/Gen/LsStep.lean (lsearch_step_t::cubic / quadratic / secant / bisection / interpolate, enum interpolation_type) from the
     current C++ text; the theorems of Props/C07.lean are stated over these generated definitions and re-checked; the formulas written
     inside the model are proved to BE the generated ones (model_lstep_is_generated, rfl), the driver's Cfg uses the generated ones.
  C  oracle-replay correspondence: harness/c07.cpp logs every evaluation one call of `lsearchk_t::get` makes (no hook in
     /repo); the compiled Lean model replays the logged answers by position and must request the same trial steps,
     reach the same verdict and return the same step (`compare`).
  S  `oracle`: the property statement evaluated in python on the implementation's answer, from the evaluations of the
     user function only.
"""
import math, os
import vlib
from vlib import Toks, f2h, h2f, lst
from props import c07_translate

ID = "C07"
LEVEL = "proof"
HARNESS = "c07"
LEAN_MODULES = ["NanoVerif.Props.C07"]
NS = "NanoVerif.LSearch."
OBLIGATIONS = [NS + t for t in [
    "nondescent_refused",
    "success_state_is_last_answer", "success_state_is_eval", "backtrack_success_state_is_eval",
    "backtrack_success_armijo", "lemarechal_success_armijo_wolfe", "fletcher_success_armijo_strong_wolfe",
    "generated_predicates_meaning",
    "success_step_positive",
    "evals_per_get_le", "evalsBound_default",
    # More-Thuente: success => Armijo + strong Wolfe (since 3b214f8); CG_DESCENT: the exact disjunction a success implies, with a
    # kernel-checked model run of the exit on which no acceptance condition holds
    "morethuente_success_conditions", "morethuente_success_step_nonneg", "morethuente_success_step_positive",
    "morethuente_zero_step_accepted_if_inconsistent",
    # More-Thuente before the repair 3b214f8 (old exit rule as a def) next to the present rule on the same runs
    "morethuente_at_stpmax_pre3b214f8_and_now", "morethuente_at_stpmin_pre3b214f8_and_now", "morethuente_step_zero_pre3b214f8",
    "cgdescent_success_cases", "cgdescent_success_within_budget", "cgdescent_success_step_nonneg",
    "cgdescent_success_step_positive", "cgdescent_bracket_failed_reachable", "cgdescent_zero_step_tried",
    "cgdescent_zero_step_accepted_if_inconsistent",
    # convex quadratics along the line, exact arithmetic
    "quadratic_acceptance_intervals", "quadratic_minimizer_accepted_iff", "interpolation_exact_on_quadratics",
    "backtrack_succeeds_on_quadratic", "lemarechal_succeeds_on_quadratic", "lemarechal_quadratic_overshoot_exact_step",
    "fletcher_succeeds_on_quadratic", "fletcher_quadratic_overshoot_exact_step",
    "morethuente_quadratic_overshoot_exact_step", "morethuente_quadratic_no_undershoot_two_evaluations",
    "cgdescent_succeeds_on_quadratic", "cgdescent_quadratic_overshoot_exact_step",
    # gap-closing round: More-Thuente on convex quadratics for EVERY t0 (extrapolation phase, dcstep cases 1-3, the tripling loop) and
    # its building blocks; a kernel-checked undershooting run (replayed: corpus section 10)
    "morethuente_succeeds_on_quadratic", "morethuente_undershoot_run", "morethuente_fails_beyond_stpmax",
    "dcstep_case1", "dcstep_case2", "dcstep_case3_unbracketed", "mtBounds_unbracketed", "mtBounds_bracketed_stp",
    "mtConverged_quad_iff", "mt_extrapolate", "mt_bracket", "mt_quad_run",
    # the interpolation formulas re-translated from lstep.cpp (Gen/LsStep.lean)
    "model_lstep_is_generated", "model_lstep_is_generated_sqrt", "generated_interpolation_contracts", "generated_cubic_exact",
    "cubic_is_stationary_point_of_hermite_cubic", "quadratic_is_parabola_minimiser", "secant_is_root_of_linear_slope",
    "bisection_is_midpoint",
    # stpmin / stpmax / the clamp of the initial step
    "stpmin_stpmax_values", "get_initial_step_clamped",
]]
TRUSTED = [
    "Lean 4.33.0 kernel; Mathlib modules imported by Proofs/LSearch*.lean (Mathlib.Algebra.Order.Field.Basic, Tactic.Linarith, Tactic.Ring, "
    "Tactic.FieldSimp)",
    "axioms: at most propext, Classical.choice, Quot.sound (audited per theorem on every run); `decide +kernel` only for the closed "
    "non-vacuity examples / the model witnesses over Q (in these the square root of lsearch_step_t::cubic is `ratSqrt`, exact on squares "
    "of rationals: the witnesses that reach `cubic` do so on quadratic data only, where the radicand is such a square)",
    "tools/props/c07_translate.py (C++ scalar expression -> Lean) for the generated predicates; the generated file "
    "Gen/LsPredicates.lean is the only copy of has_armijo/has_wolfe/has_strong_wolfe/has_approx_*/has_descent/stpmin/stpmax; "
    "Gen/LsStep.lean (same translator: lets, conditional operator, the switch with [[fallthrough]] of interpolate) holds the interpolation "
    "formulas of lstep.cpp; Model/LSearch.lean keeps a second text of them (used inside dcstep / CG_DESCENT) which is kernel-checked to be "
    "definitionally the generated one for every scalar type (model_lstep_is_generated, model_lstep_is_generated_sqrt)",
    "hand-written model NanoVerif/Model/LSearch.lean of lsearchk.cpp, lsearchk/*.cpp, solver/lstep.cpp; tied to the code by the "
    "oracle-replay correspondence (harness/c07.cpp on the real library vs the compiled Lean driver at Float)",
    "harness/c07.cpp (evaluation-logging function_t wrapper; trial steps read from the library's own log line through a hexfloat "
    "stream and cross-checked with (x-x0).d/(d.d); independent re-evaluation of the objective at x0+t*d), tools/props/c07.py "
    "generator + python oracle; g++/libstdc++/Eigen; Lean Float = IEEE binary64 (bit-identical trial steps are expected, RTOL 1e-12 allowed)",
]
ASSUMPTIONS = [
    "theorems are about exact arithmetic over an arbitrary linearly ordered field; rounding is covered only by the correspondence run "
    "(RTOL 1e-12 on the trial steps) and by the python oracle's slack 1e-12*(|f0|+|f|), 1e-12*(|dg0|+|dg|)",
    "the line function is an oracle phi(k, t) = (value, slope, valid) which may even answer inconsistently; the interpolation formula, "
    "lsearch_step_t::cubic and std::isfinite are arbitrary functions in the theorems (the step is clamped afterwards)",
    "'finite' has no meaning over a field: success_step_positive proves t > 0 for backtrack/LeMarechal/Fletcher; finiteness of the "
    "returned step is checked by the oracle only; for More-Thuente and CG_DESCENT t >= 0 for every oracle and t > 0 for every oracle "
    "that answers the slope of the origin when asked at step 0 (morethuente_success_step_positive, cgdescent_success_step_positive; "
    "both searches can evaluate at step 0 - cgdescent_zero_step_tried is replayed in corpus/C07 section 7 - and an inconsistent oracle "
    "gets it accepted: *_zero_step_accepted_if_inconsistent)",
    "More-Thuente (since the repair 3b214f8 of /repo: the convergence test is evaluated first and is the only success exit): success => "
    "Armijo + strong Wolfe for every oracle (morethuente_success_conditions); the old rule (five success exits) survives only as a def in "
    "Props/C07.lean with three kernel-checked runs labelled pre-3b214f8. CG_DESCENT advertises (approximate) Wolfe but reports success "
    "also from an exit on which no condition was tested: cgdescent_success_cases (Wolfe | approximate Wolfe | 'bracketing failed': "
    "b.g < 0 and (more than max_iterations evaluations or the interval not wider than stpmin)) is the exact disjunction, for every "
    "oracle; CG_DESCENT's parameters are assumed in their registered domains (0 <= epsilon, 0 < ro, 0 < theta < 1)",
    "the clauses about convex quadratics ('all five succeed', 'More-Thuente / CG_DESCENT satisfy their advertised conditions') are "
    "convergence claims. In exact arithmetic for phi(t) = f0 + g0 t + h t^2/2: the acceptance intervals, 'Armijo at the minimiser iff "
    "c1 <= 1/2' (this is why the searches fail for c1 > 1/2: known findings), exactness of the quadratic/secant/cubic interpolation, "
    "success of backtracking within an explicit k iterations for every t0 and every interpolation function, success of CG_DESCENT "
    "for every t0 (given ro^K t1 >= t* for some K < max_iterations) and success of LeMarechal for every t0 (exact interpolation, "
    "explicit budget k + J + 3 of expansions and clamped interpolations), success of Fletcher for every t0 (exact interpolation, "
    "c1 < 1/2, explicit budgets k of extrapolations and J of clamped zoom steps) and success of More-Thuente for every t0 "
    "(morethuente_succeeds_on_quadratic: c1 <= 1/2, c1 <= c2 < 1, stpmin <= t* <= stpmax, 4^k t1 >= (1 - c2) t*, max_iterations >= k + 2, at "
    "most max_iterations + k + 2 evaluations; the undershooting extrapolation phase with the safeguards stp + 1.1 (stp - stx) / stp + 4 (stp - stx) "
    "as coded, dcstep cases 1-3, the preamble's tripling loop; nothing is `_partial` any more) are proved; the refinements say where More-Thuente "
    "stops when the first trial does not undershoot - at t1, at t*, or at the minimiser (1 - c1) t* of the modified function. The hypotheses "
    "stpmin <= t* <= stpmax and c1 <= 1/2 are necessary (kernel-checked failing runs: morethuente_at_stpmin_pre3b214f8_and_now, "
    "morethuente_fails_beyond_stpmax, quadratic_minimizer_accepted_iff), so the 'succeed' clause is false there even in exact arithmetic; the "
    "interpolation contracts (exact on quadratics) are proved for the formulas re-translated from lstep.cpp, with std::sqrt idealised as an "
    "exact root of the radicand (generated_interpolation_contracts). In floating point they are checked by the oracle only, with the per-method parameters (safeguard, tau1, tau23, delta, "
    "cgdescent::*) at their defaults since those are not part of the property's quantifier, and 'succeed' only when the search has a "
    "budget max_iterations >= 100 (default 128): with a smaller budget a search that exhausts its own iteration budget fails honestly "
    "(e.g. LeMarechal/Fletcher never enter their loop for max_iterations = 1); such failures are counted, not flagged",
    "the oracle checks Armijo + strong Wolfe for every More-Thuente success (all functions: what the repaired code guarantees, more than "
    "the statement asks); (approximate) Wolfe is checked for CG_DESCENT successes on convex quadratics only (the statement does not "
    "promise it elsewhere); the 'succeeds on convex quadratics' clause is demanded for t0 in [1e-3, 1e3] or non-finite only (the "
    "statement's range; t0 = 0, negative or denormal-size initial steps are generated for the other clauses)",
    "open known findings (KNOWN_FINDINGS.json, matched by key): CG_DESCENT success from its 'bracketing failed' exit (more than "
    "max_iterations evaluations); honest failures on convex quadratics at the ends of the (c1,c2) domain (c1 >= 0.5, c2 <= 1e-6). The "
    "oracle gives the CG_DESCENT finding its key only when the run has the signature cgdescent_success_cases proves necessary (an evaluated "
    "trial point with negative slope AND (more than max_iterations evaluations OR two evaluated steps within stpmin())); a violating success "
    "without it is keyed .../within-budget or .../no-negative-slope and fails the check",
    "the preamble of lsearchk_t::get is re-evaluated by the oracle from the logged evaluations: first trial at the clamped step "
    "(get_initial_step_clamped: non-finite -> 1, < stpmin() -> stpmin(), > 1 -> 1), x0.3 after an invalid state, x3 while |f - f0| < epsilon1",
]
RULE = ("per op one call of lsearchk_t::get: method x interpolation x max_iterations in {1..10000} x (c1,c2) over the domain (standard pairs, "
        "domain ends, nearly equal) x per-method parameters (defaults or random in their domains) x t0 in [1e-3,1e3] + {NaN, +-inf, 0, <0} x "
        "objective (22 registered smooth functions at 1,2,3,4,8,16 dims; random convex quadratics 1..16 dims, cond <= 1e6, scale 1e-3..1e3; "
        "plus 1/12 as many random 1-D C1 piecewise-cubic Hermite line functions, non-convex, user-supplied through the harness kind `herm`) x "
        "x0 in boxes of radius 1e-2..1e3 x direction (negative gradient, perturbed negative gradient, quasi-Newton-like SPD image, random "
        "explicit, non-descent: +gradient, zero, orthogonal, component-wise flipped); corpus first, then the systematic grid "
        "(5 methods x 3 interpolations x 7 initial steps x 3 objectives x descent/ascent), then random; an op is non-trivial when its "
        "direction is meant to be a descent direction (the search runs); distinct by op text")
# the asan flavour is built with -DNDEBUG like the release build (the library's asserts would otherwise abort on non-finite trial
# points, which the release build - the subject of C07 - treats as invalid states)
FLAVOUR = {"quick": "plain", "thorough": "asan"}
RTOL = 1e-12
HARNESS_TIMEOUT = 1500

METHODS = ["backtrack", "lemarechal", "fletcher", "morethuente", "cgdescent"]
MODELLED = set(METHODS)
INTERPS = ["cubic", "quadratic", "bisection"]
SMOOTH = ["trid", "qing", "cauchy", "sargan", "powell", "sphere", "zakharov", "quadratic", "rosenbrock", "exponential",
          "dixon-price", "chung-reynolds", "axis-ellipsoid", "styblinski-tang", "schumer-steiglitz", "rotated-ellipsoid",
          "geometric-optimization", "mse+ridge[1]", "mse+ridge[100]", "mse+ridge[10000]", "mse+ridge[1e+06]", "logistic+ridge[1]"]
DIMS = [1, 2, 3, 4, 8, 16]
BUDGET_FOR_SUCCESS_CLAUSE = 100


def actual_dims(fid, dims):
    if fid == "powell":
        return max(4, dims)
    if fid == "rosenbrock" or fid.startswith("mse+") or fid.startswith("logistic+"):
        return max(2, dims)
    return dims


def translate():
    return c07_translate.translate()


# ---------------------------------------------------------------------------------------------------------------------
# generator

DEFAULTS = dict(safeguard=0.1, tau1=9.0, tau2=0.1, tau3=0.5, delta=0.66, cgeps=1e-6, cgtheta=0.5, cggamma=0.66, cgro=5.0)


def gen_params(rng):
    p = dict(DEFAULTS)
    if rng.chance(0.35):
        p["safeguard"] = rng.choice([1e-6, 0.01, 0.25, 0.49, rng.uniform(1e-3, 0.499)])
        p["tau1"] = rng.choice([2.0 + 1e-9, 2.5, 4.0, 100.0, 10 ** rng.uniform(0.31, 5.9)])
        t3 = rng.choice([0.5, 0.3, rng.uniform(0.02, 0.5)])
        p["tau2"] = rng.choice([t3 * 0.5, t3 * 0.999, 1e-6, rng.uniform(1e-4, 0.999) * t3])
        p["tau3"] = t3
        p["delta"] = rng.choice([0.1, 0.5, 0.9, rng.uniform(0.01, 0.99)])
        p["cgeps"] = 10 ** rng.uniform(-12, 0)
        p["cgtheta"] = rng.choice([0.1, 0.5, 0.9, rng.uniform(0.01, 0.99)])
        p["cggamma"] = rng.choice([0.1, 0.5, 0.9, rng.uniform(0.01, 0.99)])
        p["cgro"] = rng.choice([1.5, 2.0, 10.0, 10 ** rng.uniform(0.05, 3)])
    return p


def gen_c12(rng):
    k = rng.below(10)
    if k < 4:
        return rng.choice([(1e-4, 0.1), (1e-4, 0.9), (0.1, 0.9)])
    if k == 4:
        return rng.choice([(1e-12, 1e-9), (1e-300, 0.5), (1 - 1e-9, 1 - 1e-12), (1e-9, 1 - 1e-9), (0.4999, 0.5)])
    if k == 5:
        c1 = 10 ** rng.uniform(-6, -0.01)
        return (c1, min(c1 * (1 + 1e-9), 1 - 1e-12) if c1 * (1 + 1e-9) > c1 else c1 + 1e-12)
    if k <= 7:
        c1 = 10 ** rng.uniform(-8, -0.31)
        c2 = c1 + (1 - c1) * rng.uniform(1e-3, 0.999)
        return (c1, c2)
    c1 = rng.uniform(1e-6, 0.999)
    c2 = c1 + (1 - c1) * rng.uniform(1e-6, 0.999999)
    return (c1, c2)


def gen_t0(rng):
    k = rng.below(20)
    if k == 0:
        return float("nan")
    if k == 1:
        return rng.choice([float("inf"), float("-inf")])
    if k == 2:
        return rng.choice([1e-3, 1.0, 1e3, 0.0, -1.0, 1e-300, 1e300, 2.3e-15])
    return 10 ** rng.uniform(-3, 3)


def gen_maxit(rng):
    k = rng.below(10)
    if k < 5:
        return 128
    if k < 7:
        return rng.choice([1, 2, 3, 4, 5, 7, 10, 20, 50])
    if k < 9:
        return rng.choice([100, 200, 1000, 10000])
    return rng.range(1, 10000)


def gen_function(rng):
    """(function spec tokens, dims of x, is a 'quad')"""
    if rng.chance(0.35):
        n = rng.choice([1, 2, 3, 4, 5, 8, 13, 16])
        cond = 10 ** rng.choice([0.0, rng.uniform(0, 3), rng.uniform(0, 6)])
        scale = 10 ** rng.uniform(-3, 3)
        return f"quad {n} {rng.below(1 << 40)} {f2h(cond)} {f2h(scale)}", n
    fid = rng.choice(SMOOTH)
    dims = rng.choice(DIMS)
    return f"fn {fid} {dims} {rng.choice([1, 10, 100])}", actual_dims(fid, dims)


def gen_hermite(rng):
    """a random 1-D C1 line function (piecewise-cubic Hermite interpolant, harness function kind `herm`): 2..5 knots, in general
    neither convex nor monotone - it drives the bracketing searches through branches the registered functions rarely reach.
    Returns (function spec, x0, direction spec)"""
    k = rng.range(2, 5)
    ts = [0.0]
    for _ in range(k - 1):
        ts.append(ts[-1] + 10 ** rng.uniform(-2, 1))
    if rng.chance(0.3):
        off = rng.uniform(-1, 1)
        ts = [t + off for t in ts]
    scale = 10 ** rng.uniform(-2, 2)
    flat = []
    for i, t in enumerate(ts):
        f = scale * rng.uniform(-1, 1)
        g = scale * rng.uniform(-1, 1) * 10 ** rng.uniform(-1, 1)
        if i == 0 and rng.chance(0.8):
            g = -abs(g)
        flat += [t, f, g]
    curv = [rng.choice([0.0, 1.0, scale * 10 ** rng.uniform(-2, 2)]) for _ in range(2)]
    x0 = rng.choice([ts[0], ts[0], rng.uniform(ts[0], ts[-1])])
    d = rng.choice([1.0, 10 ** rng.uniform(-1, 1), 10 ** rng.uniform(-3, 3), -1.0])
    return "herm %s %s %s" % (f2h(curv[0]), f2h(curv[1]), lst(flat, f2h)), [x0], "explicit " + lst([d], f2h)


def gen_direction(rng, n):
    k = rng.below(20)
    if k < 5:
        return "neggrad"
    if k < 11:
        amp = rng.choice([0.1, 0.5, 0.9, 0.99])
        return "pert " + lst([rng.uniform(-amp, amp) for _ in range(n)], f2h)
    if k < 16:
        return f"qn {rng.below(1 << 40)}"
    if k == 16:
        return "explicit " + lst([rng.uniform(-1, 1) * 10 ** rng.uniform(-2, 2) for _ in range(n)], f2h)
    return rng.choice(["posgrad", "zero", "ortho",
                       "pert " + lst([-1.0 - rng.unit() for _ in range(n)], f2h)])  # the last one flips every component: ascent


def make_op(method, interp, maxit, c12, p, t0, fspec, x0, direction):
    return " ".join(["ls run", method, interp, str(maxit), f2h(c12[0]), f2h(c12[1]), f2h(p["safeguard"]), f2h(p["tau1"]),
                     f2h(p["tau2"]), f2h(p["tau3"]), f2h(p["delta"]), f2h(p["cgeps"]), f2h(p["cgtheta"]), f2h(p["cggamma"]),
                     f2h(p["cgro"]), f2h(t0), fspec, lst(x0, f2h), direction])


def gen(rng, tier):
    rng = rng.fork()
    ops = []
    cp = os.path.join(vlib.VERIF, "corpus", "C07", "ops.txt")
    if os.path.exists(cp):
        ops += [l.strip() for l in open(cp) if l.strip() and not l.startswith("#")]
    # systematic part: every method x interpolation x t0 class on a few objectives with the unit tests' tolerances
    for method in METHODS:
        for interp in INTERPS:
            for t0 in [1e-3, 0.1, 1.0, 30.0, 1e3, float("nan"), float("inf")]:
                for fspec, n in [("fn sphere 4 10", 4), ("fn rosenbrock 2 10", 2), ("quad 3 7 %s %s" % (f2h(100.0), f2h(1.0)), 3)]:
                    x0 = [rng.uniform(-1, 1) for _ in range(n)]
                    for direction in ["neggrad", "posgrad"]:
                        ops.append(make_op(method, interp, 128, (1e-4, 0.1), DEFAULTS, t0, fspec, x0, direction))
    count = 8000 if tier == "quick" else 120000
    for _ in range(count):
        method = rng.choice(METHODS)
        interp = rng.choice(INTERPS)
        fspec, n = gen_function(rng)
        radius = 10 ** rng.uniform(-2, 3)
        x0 = [rng.uniform(-radius, radius) for _ in range(n)]
        ops.append(make_op(method, interp, gen_maxit(rng), gen_c12(rng), gen_params(rng), gen_t0(rng), fspec, x0,
                           gen_direction(rng, n)))
    # the preamble's shrinking loop followed by a SUCCESS (seeded change C07-c1): the first trial point overflows (exp-type objective,
    # direction overshooting the minimiser: d = -k x0), a shrunk one is valid and gives a large decrease, so the search then
    # accepts quickly - the returned step must be the step of the returned state (from a forked stream, appended)
    ro = rng.fork()
    for _ in range(count // 10):
        fid = ro.choice(["exponential", "exponential", "geometric-optimization", "logistic+ridge[1]", "cauchy", "qing", "powell"])
        dims = ro.choice([1, 2, 3, 4, 8])
        n = actual_dims(fid, dims)
        radius = 10 ** ro.uniform(0.3, 2.2)
        x0 = [ro.uniform(-radius, radius) for _ in range(n)]
        k = ro.choice([1.5, 2.0, 3.0, 6.0, 10.0, 10 ** ro.uniform(0, 2)])
        direction = "explicit " + lst([-k * v for v in x0], f2h)
        t0 = ro.choice([1.0, 1.0, 0.9, 3.0, 10 ** ro.uniform(-1, 2)])
        ops.append(make_op(ro.choice(METHODS), ro.choice(INTERPS), gen_maxit(ro), gen_c12(ro), gen_params(ro), t0,
                           f"fn {fid} {dims} {ro.choice([1, 10, 100])}", x0, direction))
    # small budgets x large c1 x first trials far from the minimiser, on exact 1-D quadratics phi(t) = f0 + g0 t + h t^2/2 given as
    # `herm` functions (the success exits reached when the budget runs out right after an extrapolation / inside a zoom: seeded
    # changes C07-e1, C07-e3) and on n-D quadratics with 1/2 <= c1 < 1 and the full budget (seeded change C07-e2)
    rq = rng.fork()
    for _ in range(count // 8):
        g0 = -(10 ** rq.uniform(-1, 1)); h = 10 ** rq.uniform(-1, 1); f0 = rq.uniform(-1, 1)
        tstar = -g0 / h
        t0 = tstar * rq.choice([0.02, 0.05, 0.1, 0.25, 0.5, 0.9, 2.0, 5.0, 20.0, 100.0])
        c1 = rq.choice([0.55, 0.6, 0.7, 0.8, 0.9, 0.95, 1e-4, 0.1, 0.3])
        c2 = c1 + (1 - c1) * rq.uniform(0.05, 0.9)
        maxit = rq.choice([1, 2, 3, 4, 5, 6, 8, 128])
        f1 = f0 + g0 + h / 2; g1 = g0 + h
        fspec = "herm %s %s %s" % (f2h(h), f2h(h), lst([0.0, f0, g0, 1.0, f1, g1], f2h))
        ops.append(make_op(rq.choice(METHODS), rq.choice(INTERPS), maxit, (c1, c2), DEFAULTS, t0, fspec, [0.0], "explicit " + lst([1.0], f2h)))
    for _ in range(count // 16):
        n = rq.choice([1, 2, 3, 5, 8])
        fspec = f"quad {n} {rq.below(1 << 40)} {f2h(10 ** rq.uniform(0, 3))} {f2h(10 ** rq.uniform(-2, 2))}"
        c1 = rq.choice([0.5, 0.55, 0.6, 0.75, 0.9, 0.99, 0.999])
        c2 = c1 + (1 - c1) * rq.uniform(0.05, 0.9)
        radius = 10 ** rq.uniform(-1, 2)
        ops.append(make_op(rq.choice(METHODS), rq.choice(INTERPS), 128, (c1, c2), DEFAULTS, 10 ** rq.uniform(-3, 3), fspec,
                           [rq.uniform(-radius, radius) for _ in range(n)], rq.choice(["neggrad", "neggrad", f"qn {rq.below(1 << 40)}"])))
    # user-supplied 1-D line functions (from a forked stream, appended: the ops above are the same as before this family existed)
    rh = rng.fork()
    for _ in range(count // 12):
        fspec, x0, direction = gen_hermite(rh)
        ops.append(make_op(rh.choice(METHODS), rh.choice(INTERPS), gen_maxit(rh), gen_c12(rh), gen_params(rh), gen_t0(rh), fspec, x0,
                           direction))
    return ops


# ---------------------------------------------------------------------------------------------------------------------
# parsing

class Op:
    def __init__(self, line):
        t = Toks(line)
        if t.s() != "ls" or t.s() != "run":
            raise ValueError("not an ls run op")
        self.method = t.s(); self.interp = t.s(); self.maxit = t.int()
        self.c1 = t.f(); self.c2 = t.f()
        self.safeguard = t.f(); self.tau1 = t.f(); self.tau2 = t.f(); self.tau3 = t.f(); self.delta = t.f()
        self.cgeps = t.f(); self.cgtheta = t.f(); self.cggamma = t.f(); self.cgro = t.f()
        self.t0 = t.f()
        self.fkind = t.s()
        if self.fkind == "fn":
            self.fid = t.s(); self.dims = t.int(); self.summands = t.int()
        elif self.fkind == "herm":
            # user-supplied 1-D C1 function (piecewise-cubic Hermite interpolant): replays of the model witnesses of Props/C07.lean
            self.fid = "herm"; self.dims = 1; t.s(); t.s(); self.knots = t.fs()
        else:
            self.fid = "quad"; self.dims = t.int(); t.s(); t.s(); t.s()
        self.x0 = t.fs()
        self.dkind = t.s()
        rest = t.rest()
        self.has_answers = "@" in rest
        # the evaluations the implementation made, as logged by the harness after the `@`: (t, f, g.d, valid) in order
        self.evals = None
        if self.has_answers:
            try:
                a = Toks(" ".join(rest[rest.index("@") + 1:]) if isinstance(rest, list) else rest.split("@", 1)[1])
                self.eps0 = a.f(); self.eps1 = a.f(); self.macheps = a.f()
                a.f(); a.f(); a.int()
                n = a.int()
                self.evals = [(a.f(), a.f(), a.f(), a.int()) for _ in range(n)]
            except Exception:
                self.evals = None

    def default_params(self):
        """the per-method parameters (not part of the property's quantifier) are at their defaults"""
        return [self.safeguard, self.tau1, self.tau2, self.tau3, self.delta, self.cgeps, self.cgtheta, self.cggamma, self.cgro] == \
            [DEFAULTS[k] for k in ("safeguard", "tau1", "tau2", "tau3", "delta", "cgeps", "cgtheta", "cggamma", "cgro")]


class Res:
    def __init__(self, line):
        t = Toks(line)
        self.head = t.s()
        if self.head != "ok":
            return
        self.succ = t.int(); self.t = t.f(); self.n = t.int()
        self.ts = [t.f() for _ in range(self.n)]
        if t.s() != "#":
            raise ValueError("missing # in result")
        self.f0 = t.f(); self.dg0 = t.f(); self.valid0 = t.int()
        self.fS = t.f(); self.dgS = t.f(); self.validS = t.int()
        self.fR = t.f(); self.dgR = t.f(); self.dx = t.f(); self.dgx = t.f()
        self.tsource = t.int(); self.untouched = t.int(); self.cq = t.int()
        self.dnorm = t.f(); self.xnorm = t.f()


def tolerance_class(c1, c2, method=None):
    """input class of a (c1, c2) pair, part of the classify key of the 'succeeds on convex quadratics' clause.
    `c1>=0.5` (a known-finding class) is given to CG_DESCENT for every c1 >= 1/2 (the secant step lands on the exact minimiser,
    where Armijo with c1 > 1/2 and approximate Wolfe - which needs c1 < 1/2 - both fail) but to the four other searches only at
    the very end of the domain, c1 >= 1 - 1e-6, where the Armijo interval (0, 2(1-c1)t*] is below what the iteration budget /
    floating point can reach; for 1/2 <= c1 < 1 - 1e-6 they do succeed on the unchanged tree (they shrink past the minimiser:
    backtrack_succeeds_on_quadratic & co. give explicit budgets), so a failure there is a violation of its own class
    (seeded change C07-e2: backtracking clamped to [safeguard t, t] re-evaluates the minimiser for ever)"""
    if c1 >= 0.5:
        if method in (None, "cgdescent") or c1 >= 1.0 - 1e-6:
            return "c1>=0.5"
        return "0.5<=c1<1-1e-6"
    if c2 <= 1e-6:
        return "c2<=1e-6"         # (strong) Wolfe demands the slope reduced by more than six orders of magnitude
    return "regular"


def same(a, b):
    return (a != a and b != b) or a == b


# ---------------------------------------------------------------------------------------------------------------------
# the property statement, evaluated on the implementation's answer

EPS = 2.220446049250313e-16
STPMIN = 10 * EPS          # lsearchk_t::stpmin() as the statement of get_initial_step_clamped has it


def expected_initial_step(t0):
    """lsearchk.cpp:52 as the property's model states it (Props/C07.lean: get_initial_step_clamped): non-finite -> 1, below stpmin() ->
    stpmin(), above 1 -> 1"""
    if t0 != t0 or abs(t0) == float("inf"):
        return 1.0
    return min(max(t0, STPMIN), 1.0)


def preamble_violation(op, r):
    """the preamble of lsearchk_t::get re-evaluated from the logged evaluations: first trial at the clamped step; x0.3 while the state is
    invalid; x3 while |f - f0| < epsilon1 (the loops' budgets are not re-checked here: the model does, by correspondence)"""
    if r.n == 0:
        return f"[preamble-no-evaluation] {op.method}: descent direction but no evaluation made"
    t1 = expected_initial_step(op.t0)
    if not vlib.close(r.ts[0], t1, 1e-12):
        return (f"[initial-step-not-clamped] {op.method}: first trial step {r.ts[0]!r}, expected {t1!r} for the given t0 = {op.t0!r}")
    ev = op.evals
    if not ev or len(ev) != r.n:
        return None
    k = 0
    while k < min(op.maxit, r.n) and not ev[k][3]:
        if k + 1 < r.n and k + 1 < op.maxit and not vlib.close(r.ts[k + 1], r.ts[k] * 0.3, 1e-12):
            return f"[shrink-step-not-0.3x] {op.method}: invalid state at t = {r.ts[k]!r} followed by a trial at {r.ts[k + 1]!r}"
        k += 1
    if k >= r.n or not ev[k][3]:
        return None
    j = 0
    while j < op.maxit and k + 1 < r.n and abs(ev[k][1] - r.f0) < op.eps1:
        if not vlib.close(r.ts[k + 1], r.ts[k] * 3.0, 1e-12):
            return (f"[grow-step-not-3x] {op.method}: |f - f0| = {abs(ev[k][1] - r.f0)!r} < epsilon1 at t = {r.ts[k]!r} followed by a "
                    f"trial at {r.ts[k + 1]!r}")
        if not ev[k + 1][3]:
            break
        k += 1; j += 1
    return None


def oracle(aug, res):
    op = Op(aug)
    r = Res(res)
    if r.head == "skip":
        return None
    if r.head != "ok":
        return f"[exception] lsearchk_t::get did not return: {res[:80]}"
    m = op.method
    descent = r.dg0 < 0.0
    if not descent:
        # refuses (failure, state untouched) a non-descent direction
        if r.succ:
            return f"[nondescent-accepted] {m}: success along a direction with g.d = {r.dg0!r}"
        if r.n != 0 or not r.untouched:
            return f"[nondescent-state-touched] {m}: non-descent direction refused but {r.n} evaluation(s) made / state changed"
        if not same(r.t, op.t0):
            return f"[nondescent-step-changed] {m}: returned step {r.t!r} != given {op.t0!r}"
        return None
    pv = preamble_violation(op, r)
    if pv:
        return pv
    if not r.succ:
        # the success clause is claimed for t0 in [1e-3, 1e3] or non-finite (the statement's quantifier); the boundary-biased initial
        # steps outside it (0, negative, 1e-300, 2.3e-15, 1e300: clamped to stpmin() or 1) are generated for the other clauses only
        t0_in_range = op.t0 != op.t0 or abs(op.t0) == float("inf") or 1e-3 <= op.t0 <= 1e3
        if r.cq and op.maxit >= BUDGET_FOR_SUCCESS_CLAUSE and op.default_params() and t0_in_range:
            return (f"[{m}-fails-on-convex-quadratic/{tolerance_class(op.c1, op.c2, m)}] failure on a convex quadratic along a "
                    f"descent direction (max_iterations={op.maxit}, t0={op.t0!r}, c1={op.c1!r}, c2={op.c2!r}, {r.n} evaluations, "
                    f"returned t={r.t!r})")
        return None
    # success: finite positive step
    if not (r.t == r.t and abs(r.t) != float("inf")):
        return f"[{m}-success-step-nonfinite] success with t = {r.t!r}"
    if not r.t > 0.0:
        return f"[{m}-success-step-nonpositive] success with t = {r.t!r}"
    # the state is the evaluation of the function at x0 + t d
    xtol = 4 * EPS * (r.xnorm + abs(r.t) * r.dnorm)
    if not r.dx <= xtol:
        return f"[{m}-success-state-not-eval] returned state is at distance {r.dx!r} from x0 + t d (t = {r.t!r})"
    if not (r.dgx == 0.0 and same(r.fS, r.fR) and vlib.close(r.dgS, r.dgR, 1e-12)):
        return (f"[{m}-success-state-not-eval] returned state (f={r.fS!r}, g.d={r.dgS!r}) is not the evaluation "
                f"(f={r.fR!r}, g.d={r.dgR!r}) at x0 + t d, t = {r.t!r}")
    f, dg, f0, dg0, t, c1, c2 = r.fR, r.dgR, r.f0, r.dg0, r.t, op.c1, op.c2
    sf = 1e-12 * (abs(f0) + abs(f))
    sg = 1e-12 * (abs(dg0) + abs(dg))
    armijo = f <= f0 + t * c1 * dg0 + sf
    wolfe = dg >= c2 * dg0 - sg
    swolfe = abs(dg) <= c2 * abs(dg0) + sg
    why = []
    # the clause about convex quadratics is checked with the per-method parameters at their defaults (they are not part of
    # the property's quantifier); the clause about backtrack/LeMarechal/Fletcher holds for every configuration
    cq = r.cq and op.default_params()
    # backtrack/LeMarechal/Fletcher: the statement; More-Thuente: since the repair 3b214f8 its only success exit is the convergence
    # test, Armijo + strong Wolfe for every function (Props/C07.lean: morethuente_success_conditions), so it is checked like Fletcher
    if m in ("backtrack", "lemarechal", "fletcher", "morethuente"):
        if not armijo:
            why.append(f"Armijo fails: f={f!r} > f0 + t c1 g0.d = {f0 + t * c1 * dg0!r}")
    if m == "lemarechal" and not wolfe:
        why.append(f"Wolfe fails: g.d={dg!r} < c2 g0.d = {c2 * dg0!r}")
    if m in ("fletcher", "morethuente") and not swolfe:
        why.append(f"strong Wolfe fails: |g.d|={abs(dg)!r} > c2 |g0.d| = {c2 * abs(dg0)!r}")
    if m == "cgdescent" and cq:
        epsk = op.cgeps * abs(f0)
        approx = f <= f0 + epsk + sf and (2.0 * c1 - 1.0) * dg0 + sg >= dg and wolfe
        if not ((armijo and wolfe) or approx):
            why.append(f"neither Wolfe nor approximate Wolfe: f={f!r} f0={f0!r} g.d={dg!r} g0.d={dg0!r} eps_k={epsk!r}")
    if why:
        cls = "on-convex-quadratic" if m == "cgdescent" else "advertised-condition"
        if m == "cgdescent":
            # the known finding is CG_DESCENT's 'bracketing failed' exit of interval_t::done. Props/C07.lean: cgdescent_success_cases
            # says EXACTLY when a success without Wolfe / approximate Wolfe is possible: the upper end b of the interval is an evaluated
            # trial point with a NEGATIVE slope, AND (more than max_iterations evaluations were made OR the interval [a, b] - its ends are
            # evaluated steps or 0 - is not wider than stpmin()). Anything else is a different violation and gets its own key:
            #   /within-budget      at most max_iterations evaluations and no two evaluated steps (or 0) within stpmin() of each other
            #   /no-negative-slope  no evaluated trial point with a negative slope at all: it cannot be the 'bracketing failed' exit
            steps = sorted([0.0] + [e[0] for e in (op.evals or [])])
            narrow = any(b - a <= STPMIN for a, b in zip(steps, steps[1:])) if op.evals else False
            negslope = any(e[2] < 0.0 for e in op.evals) if op.evals else True
            if r.n <= op.maxit and not narrow:
                cls += "/within-budget"
            elif not negslope:
                cls += "/no-negative-slope"
        return (f"[{m}-success-violates-{cls}] t={t!r} c1={c1!r} c2={c2!r} max_iterations={op.maxit} "
                f"({r.n} evaluations): " + "; ".join(why))
    return None


# ---------------------------------------------------------------------------------------------------------------------
# correspondence

def model_skip(aug):
    try:
        op = Op(aug)
    except Exception:
        return False
    return (not op.has_answers) or op.method not in MODELLED


def compare(aug, impl, model):
    """the model, replaying the logged answers by position, must ask for the same trial steps (RTOL), in the same number,
    reach the same verdict and return the same step"""
    a = impl.split()
    if not a or a[0] != "ok":
        return False
    if "#" in a:
        a = a[1:a.index("#")]
    else:
        return False
    return vlib.compare_lines(" ".join(a), model, RTOL, 0.0)


def nontrivial(op):
    try:
        return Op(op).dkind in ("neggrad", "pert", "qn", "explicit")
    except Exception:
        return False


def distribution(ops):
    d = {}
    for line in ops:
        try:
            op = Op(line)
        except Exception:
            d["unparsed"] = d.get("unparsed", 0) + 1
            continue
        for k in (f"method/{op.method}", f"direction/{op.dkind}", f"interp/{op.interp}",
                  "t0/" + ("nonfinite" if op.t0 != op.t0 or abs(op.t0) == float("inf") else "finite"),
                  "maxit/" + ("1" if op.maxit == 1 else "2-99" if op.maxit < 100 else "100+"),
                  "objective/" + ("quad" if op.fkind == "quad" else "hermite" if op.fkind == "herm" else "registered")):
            d[k] = d.get(k, 0) + 1
    return d


def classify(op, kind, detail):
    if kind == "oracle" and detail.startswith("["):
        return detail[1:detail.index("]")]
    try:
        m = Op(op).method
    except Exception:
        m = "unparsed"
    return f"{kind}-{m}"


def shrink_candidates(op):
    """simpler variants of a failing op: default per-method parameters, default tolerances/budget, plain negative gradient"""
    t = op.split()
    out = []
    if len(t) < 18:
        return out
    d = [f2h(DEFAULTS[k]) for k in ("safeguard", "tau1", "tau2", "tau3", "delta", "cgeps", "cgtheta", "cggamma", "cgro")]
    if t[7:16] != d:
        out.append(" ".join(t[:7] + d + t[16:]))
    if t[4] != "128":
        out.append(" ".join(t[:4] + ["128"] + t[5:]))
    if t[5:7] != [f2h(1e-4), f2h(0.1)]:
        out.append(" ".join(t[:5] + [f2h(1e-4), f2h(0.1)] + t[7:]))
    if t[16] != f2h(1.0):
        out.append(" ".join(t[:16] + [f2h(1.0)] + t[17:]))
    for k in ("pert", "qn", "explicit"):
        if k in t[17:]:
            i = t.index(k, 17)
            out.append(" ".join(t[:i] + ["neggrad"]))
    return [c for c in out if c != op]
