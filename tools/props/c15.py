"""C15 — serialization round-trips models; truncated / corrupted streams are rejected (DESIGN.md §4 C15)."""
import os, re
import vlib
from vlib import Broken

ID = "C15"
LEVEL = "proof"
HARNESS = "c15"
# the tensor reader is a header template instantiated in the harness: release semantics (Eigen's assertions off) in both
# flavours — with assertions on, a negative dimension in a corrupted header aborts in Eigen's resize (see ASSUMPTIONS)
HARNESS_FLAGS = "-DNDEBUG"
HARNESS_ENV = {"ASAN_OPTIONS": "detect_leaks=0:abort_on_error=0:allocator_may_return_null=1:max_allocation_size_mb=64"}
HARNESS_TIMEOUT = 1500
FLAVOUR = {"quick": "plain", "thorough": "asan"}
EXHAUSTIVE = {"quick": False, "thorough": False}
LEAN_MODULES = ["NanoVerif.Props.C15"]
NS = "NanoVerif.Codec."
OBLIGATIONS = [NS + t for t in [
    # generic combinators
    "seq_roundtrip", "seq_prefix_safe", "dseq_roundtrip", "dseq_prefix_safe", "pmap_roundtrip", "pmap_prefix_safe",
    "raw_roundtrip", "raw_prefix_safe", "u32_roundtrip", "u32_prefix_safe", "u64_roundtrip", "u64_prefix_safe",
    "i32_roundtrip", "i32_prefix_safe", "i64_roundtrip", "i64_prefix_safe", "str_roundtrip", "str_prefix_safe",
    "rep_roundtrip", "rep_prefix_safe", "vec_roundtrip", "vec_prefix_safe", "factory_roundtrip", "factory_prefix_safe",
    "factory_unknown_id_rejected",
    # tensors
    "tensor_roundtrip", "tensor_prefix_rejected", "tensor_header_rejected", "hashCombine_injective_right",
    "elemHash_injective", "tensor_stream_is_written", "tensor_last_element_corruption_detected",
    "tensor_payload_corruption_detected_iff_hash", "tensor_payload_corruption_partial",
    # parameters, configurables, features, factory objects
    "parameter_roundtrip", "parameter_prefix_rejected", "parameter_unknown_tag_rejected",
    "configurable_roundtrip", "configurable_prefix_rejected", "configurable_newer_version_rejected",
    "configurable_older_version_accepted", "feature_roundtrip", "feature_prefix_rejected",
    "factory_configurable_roundtrip", "factory_configurable_prefix_rejected",
    # models
    "learner_roundtrip", "learner_prefix_rejected", "linear_roundtrip", "linear_prefix_rejected",
    "factory_linear_roundtrip", "factory_linear_prefix_rejected", "wlearner_roundtrip", "wlearner_prefix_rejected",
    "gboost_roundtrip", "gboost_prefix_rejected",
]]
TRUSTED = [
    "Lean 4.33.0 kernel (core library only for this property; no Mathlib import)",
    "axioms: at most propext, Classical.choice, Quot.sound (audited per theorem on every run)",
    "hand-written model NanoVerif/Model/Codec.lean + Model/Wire.lean of core/stream.h, tensor/stream.h, core/hash.h, parameter.cpp, "
    "configurable.cpp, feature.cpp, learner.cpp, linear.cpp, gboost/model.cpp, wlearner/*.cpp; tied to the code by the byte-level "
    "correspondence run (decode + re-encode + field dump, every truncation offset, single-byte corruptions; exact comparison)",
    "NanoVerif/Gen/CodecConsts.lean regenerated on every run from CMakeLists.txt / cmake/version.h.in / include/nano/core/hash.h "
    "(library version, hash_version, the expression of hash_combine) by the 60-line expression translator in tools/props/c15.py",
    "tools/props/c15.py generator + oracle (own python tensor/parameter/configurable encoders for the malformed-stream corpus); "
    "harness/c15.cpp; g++/libstdc++ iostreams/Eigen",
]
ASSUMPTIONS = [
    "x86-64 little-endian, two's complement, IEEE doubles copied bytewise: scalars on the wire are their memory bytes",
    "doubles and tensor payloads are opaque bit patterns in the model (no float semantics is needed for serialization)",
    "`reject` = any exception or a failed stream state after the read; the model does not distinguish the two and does not model "
    "how far the stream was consumed on failure",
    "release semantics for the header-only tensor reader (harness compiled with -DNDEBUG): with Eigen's assertions enabled a "
    "corrupted (negative) dimension aborts in Eigen's resize instead of failing the stream — header corruption, outside the statement",
    "allocation failure for absurd sizes in corrupted headers is a rejection (ASan flavour: allocator_may_return_null=1, "
    "max_allocation_size_mb=64); the element-count product is computed in unbounded integers in the model (no int64 overflow is "
    "reachable with one corrupted byte and rank <= 5)",
    "the factory id lists are what X::all().ids() returns at run time (passed to the model on the op line); the table id -> class "
    "layout of the eight weak learners is written by hand in Model/Wire.lean and checked by the correspondence for every id",
    "memory safety (no out-of-bounds read while parsing truncated/corrupted streams) is observed by the ASan/UBSan flavour of the "
    "thorough tier only (testing)",
]
RULE = ("objects: tensors of the 10 scalar types x rank 1..5 x dims 0..6 (boundary-biased to 0 and 1), parameters of all 7 kinds, "
        "plain configurables, features, every id of the solver/loss/splitter/tuner/lsearch0/lsearchk/linear factories randomly "
        "configured, the 8 weak learners unfitted and fitted on tiny datasets, fitted linear and gboost models; per object ONE op "
        "does: write, re-read, re-write, compare fields/parameters/predictions, and read EVERY strict prefix; tensor corruption ops "
        "try every position x (255 values | 8 bit flips | a mask); hand-made malformed streams with a stated expectation. "
        "A case is non-trivial when the stream nests >= 2 objects (configurable with parameters, factory object, model) or it is a "
        "tensor with >= 2 elements (the truncation / corruption then hits dims, hash and payload); distinct by op text")


# ---------------------------------------------------------------------------------------------------------
# translate(): constants and the hash mixing function re-read from the source on every run

class _CExpr:
    """tiny recursive-descent parser for C integer expressions over identifiers, literals and | ^ & << >> + - *;
    emits a fully parenthesised Lean expression over UInt64 (C precedence is made explicit, Lean's differs)"""
    TOK = re.compile(r"\s*(0[xX][0-9a-fA-F]+[uUlL]*|\d+[uUlL]*|[A-Za-z_]\w*|<<|>>|[()|^&+\-*])")

    def __init__(self, text):
        self.toks = []
        pos = 0
        text = text.strip()
        while pos < len(text):
            m = self.TOK.match(text, pos)
            if not m:
                raise Broken("translate", f"hash_combine: cannot tokenise {text[pos:pos+20]!r}")
            self.toks.append(m.group(1)); pos = m.end()
        self.i = 0

    def peek(self):
        return self.toks[self.i] if self.i < len(self.toks) else None

    def take(self):
        t = self.peek(); self.i += 1; return t

    def level(self, ops, sub):
        e = sub()
        while self.peek() in ops:
            op = self.take()
            e = f"({e} {ops[op]} {sub()})"
        return e

    def expr(self):
        return self.level({"|": "|||"}, self.xor)

    def xor(self):
        return self.level({"^": "^^^"}, self.band)

    def band(self):
        return self.level({"&": "&&&"}, self.shift)

    def shift(self):
        return self.level({"<<": "<<<", ">>": ">>>"}, self.add)

    def add(self):
        return self.level({"+": "+", "-": "-"}, self.mul)

    def mul(self):
        return self.level({"*": "*"}, self.prim)

    def prim(self):
        t = self.take()
        if t is None:
            raise Broken("translate", "hash_combine: unexpected end of expression")
        if t == "(":
            e = self.expr()
            if self.take() != ")":
                raise Broken("translate", "hash_combine: missing )")
            return e
        if re.match(r"0[xX]|\d", t):
            return f"({t.rstrip('uUlL')} : UInt64)"
        if re.match(r"[A-Za-z_]\w*$", t):
            return t
        raise Broken("translate", f"hash_combine: unexpected token {t!r}")

    def parse(self):
        e = self.expr()
        if self.peek() is not None:
            raise Broken("translate", f"hash_combine: trailing tokens {self.toks[self.i:]}")
        return e


def translate():
    """NanoVerif/Gen/CodecConsts.lean: library version (CMakeLists.txt → cmake/version.h.in), hash_version() and the
    body of hash_combine() (include/nano/core/hash.h). The theorems hashCombine_injective_right / tensor_last_element_… are
    stated over the generated definition."""
    cm = open(os.path.join(vlib.REPO, "CMakeLists.txt")).read()
    m = re.search(r"project\s*\(\s*NANO\s+VERSION\s+(\d+)\.(\d+)\.(\d+)", cm)
    if not m:
        raise Broken("translate", "CMakeLists.txt: project(NANO VERSION a.b.c) not found")
    vin = open(os.path.join(vlib.REPO, "cmake", "version.h.in")).read()
    for part in ("MAJOR", "MINOR", "PATCH"):
        if not re.search(r"constexpr\s+int32_t\s+%s_version\s*=\s*@PROJECT_VERSION_%s@" % (part.lower(), part), vin):
            raise Broken("translate", f"cmake/version.h.in: {part.lower()}_version is no longer the project version")
    hh = open(os.path.join(vlib.REPO, "include", "nano", "core", "hash.h")).read()
    hv = re.search(r"constexpr\s+uint32_t\s+hash_version\s*\(\s*\)\s*\{\s*return\s+(\d+)\s*;\s*\}", hh)
    hc = re.search(r"inline\s+uint64_t\s+hash_combine\s*\(\s*const\s+uint64_t\s+(\w+)\s*,\s*const\s+uint64_t\s+(\w+)\s*\)"
                   r"\s*\{\s*return\s+([^;]+);\s*\}", hh)
    if not hv or not hc:
        raise Broken("translate", "include/nano/core/hash.h: hash_version()/hash_combine() not in the expected shape")
    a, b, body = hc.group(1), hc.group(2), hc.group(3)
    lean = _CExpr(body).parse()
    text = (
        "-- GENERATED by tools/props/c15.py from CMakeLists.txt, cmake/version.h.in and include/nano/core/hash.h — do not edit\n"
        "namespace NanoVerif.Gen.CodecConsts\n\n"
        f"def majorVersion : Int := {m.group(1)}\n"
        f"def minorVersion : Int := {m.group(2)}\n"
        f"def patchVersion : Int := {m.group(3)}\n\n"
        f"/-- `detail::hash_version()` -/\ndef hashVersion : Nat := {hv.group(1)}\n\n"
        f"/-- `detail::hash_combine`: `return {body.strip()};` -/\n"
        f"def hashCombine ({a} {b} : UInt64) : UInt64 :=\n  {lean}\n\n"
        "end NanoVerif.Gen.CodecConsts\n")
    vlib.write_if_changed(os.path.join(vlib.LEAN, "NanoVerif", "Gen", "CodecConsts.lean"), text)
