"""C15 — serialization round-trips models; truncated / corrupted streams are rejected (DESIGN.md §4 C15)."""
import os, re
import vlib
from vlib import Broken
from props import c15_translate

ID = "C15"
LEVEL = "proof"
HARNESS = "c15"
# the tensor reader is a header template instantiated in the harness: release semantics (Eigen's assertions off) in both
# flavours — with assertions on, a negative dimension in a corrupted header aborts in Eigen's resize (see ASSUMPTIONS)
HARNESS_FLAGS = "-DNDEBUG -g1"
HARNESS_ENV = {"ASAN_OPTIONS": "detect_leaks=0:abort_on_error=0:allocator_may_return_null=1:max_allocation_size_mb=64"}
HARNESS_TIMEOUT = 1500
FLAVOUR = {"quick": "plain", "thorough": "asan"}
EXHAUSTIVE = {"quick": False, "thorough": False}
LEAN_MODULES = ["NanoVerif.Props.C15"]
NS = "NanoVerif.Codec."
OBLIGATIONS = [NS + t for t in [
    # generic combinators
    "seq_roundtrip", "seq_prefix_safe", "dseq_roundtrip", "dseq_prefix_safe", "pmap_roundtrip", "pmap_prefix_safe",
    "raw_roundtrip", "raw_prefix_safe", "u32_roundtrip", "u32_prefix_safe", "u64_roundtrip", "u64_prefix_safe",
    "i32_roundtrip", "i32_prefix_safe", "i64_roundtrip", "i64_prefix_safe", "str_roundtrip", "str_prefix_safe",
    "rep_roundtrip", "rep_prefix_safe", "vec_roundtrip", "vec_prefix_safe", "factory_roundtrip", "factory_prefix_safe",
    "factory_unknown_id_rejected",
    # tensors
    "tensor_roundtrip", "tensor_prefix_rejected", "tensor_header_rejected", "hashCombine_injective_right",
    "elemHash_injective", "tensor_stream_is_written", "tensor_last_element_corruption_detected",
    "tensor_payload_corruption_detected_iff_hash", "tensor_payload_corruption_partial",
    # parameters, configurables, features, factory objects
    "parameter_roundtrip", "parameter_prefix_rejected", "parameter_unknown_tag_rejected",
    "configurable_roundtrip", "configurable_prefix_rejected", "configurable_newer_version_rejected",
    "configurable_older_version_accepted", "feature_roundtrip", "feature_prefix_rejected",
    "factory_configurable_roundtrip", "factory_configurable_prefix_rejected",
    # models
    "learner_roundtrip", "learner_prefix_rejected", "linear_roundtrip", "linear_prefix_rejected",
    "factory_linear_roundtrip", "factory_linear_prefix_rejected", "wlearner_roundtrip", "wlearner_prefix_rejected",
    "gboost_roundtrip", "gboost_prefix_rejected",
    # the readers as coded (sticky failure state, loops, early returns) implement the codecs
    "string_loop_reads_n_or_fails", "string_reader_as_coded", "vector_reader_as_coded", "factory_reader_as_coded",
    "tensor_reader_as_coded", "configurable_reader_as_coded", "sequence_reader_as_coded", "reader_accepts_iff_codec",
    "tensor_reader_roundtrip", "tensor_reader_prefix_rejected", "factory_configurable_reader_prefix_rejected",
    "learner_reader_as_coded", "linear_reader_as_coded", "gboost_reader_as_coded", "gboost_reader_prefix_rejected",
    # version triple
    "versionOk_iff_lex", "version_newer_major_rejected", "version_newer_minor_rejected", "version_newer_patch_rejected",
    "version_older_major_accepted", "version_older_minor_accepted", "version_not_newer_patch_accepted",
    "configurable_version_exact",
    # what the hash fold detects / does not detect
    "hashCombine_not_injective_left", "hashCombine_keeps_low_difference", "hash_fold_detects",
    "tensor_element_corruption_detected", "tensor_bit_flip_detected", "tensor_single_bit_flip_accepted",
    "tensor_payload_corruption_hash_hypothesis_necessary",
    # round 5: field layouts of every read / write member function regenerated from the source (Gen/CodecLayout.lean)
    "Layout.model_read_layout_is_generated", "Layout.model_write_layout_is_generated", "Layout.model_typedefs_are_generated",
    "Layout.read_layout_eq_write_layout", "Layout.model_wire_is_generated", "Layout.layout_bases_closed",
]]
TRUSTED = [
    "Lean 4.33.0 kernel (core library only for this property; no Mathlib import)",
    "axioms: at most propext, Classical.choice, Quot.sound (audited per theorem on every run)",
    "hand-written model NanoVerif/Model/Codec.lean + Model/Wire.lean + Model/WireStream.lean (readers as coded) of core/stream.h, tensor/stream.h, core/hash.h, parameter.cpp, "
    "configurable.cpp, feature.cpp, learner.cpp, linear.cpp, gboost/model.cpp, wlearner/*.cpp; tied to the code by the byte-level "
    "correspondence run (decode + re-encode + field dump, every truncation offset, single-byte corruptions; exact comparison)",
    "NanoVerif/Gen/CodecConsts.lean regenerated on every run from CMakeLists.txt / cmake/version.h.in / include/nano/core/hash.h "
    "(library version, hash_version, the expression of hash_combine) by the 60-line expression translator in tools/props/c15.py",
    "NanoVerif/Gen/CodecLayout.lean regenerated on every run by tools/props/c15_translate.py (regular expressions + balanced-parenthesis "
    "argument splitting over the read / write member functions of 10 classes and dtree_node_t, member declarations of the class "
    "headers, 16 `using` aliases); the map (cast, declared type) -> wire kind `wireOf` and the table `modelWire` in "
    "Proofs/CodecLayoutGen.lean are hand-written readings of Model/Wire.lean's seq structure",
    "tools/props/c15.py generator + oracle (own python tensor/parameter/configurable encoders for the malformed-stream corpus); "
    "harness/c15.cpp; g++/libstdc++ iostreams/Eigen",
]
ASSUMPTIONS = [
    "x86-64 little-endian, two's complement, IEEE doubles copied bytewise: scalars on the wire are their memory bytes — checked "
    "on every run by the `codec scalar` ops (nano::write / nano::read / detail::hash of boundary values of all ten scalar types "
    "against the model's little-endian encoders and an independent python evaluation) and by static_asserts in the harness "
    "(tensor_size_t = 8 bytes, tensor3d_dims_t = 24 bytes, IEEE double)",
    "a read produces a VALUE: the model has no destination argument; that the implementation's result does not depend on what the "
    "destination held before is checked by the `codec into` ops (every format: read A's stream, and every strict prefix of it, "
    "into an object that has just read B's stream) and by `dirty=` replays",
    "std::istream: `read` on a failed stream is a no-op that keeps it failed, a short read sets failbit (Model/WireStream.lean "
    "`rdRaw`); libstdc++ behaviour, observed through every truncation op",
    "doubles and tensor payloads are opaque bit patterns in the model (no float semantics is needed for serialization)",
    "`reject` = any exception or a failed stream state after the read; the model does not distinguish the two and does not model "
    "how far the stream was consumed on failure",
    "release semantics for the header-only tensor reader (harness compiled with -DNDEBUG): with Eigen's assertions enabled a "
    "corrupted (negative) dimension aborts in Eigen's resize instead of failing the stream — header corruption, outside the statement",
    "allocation failure for absurd sizes in corrupted headers is a rejection (ASan flavour: allocator_may_return_null=1, "
    "max_allocation_size_mb=64); the element-count product is computed in unbounded integers in the model (no int64 overflow is "
    "reachable with one corrupted byte and rank <= 5)",
    "the factory id lists are what X::all().ids() returns at run time (passed to the model on the op line); the table id -> class "
    "layout of the eight weak learners is written by hand in Model/Wire.lean and checked by the correspondence for every id",
    "memory safety (no out-of-bounds read while parsing truncated/corrupted streams) is observed by the ASan/UBSan flavour of the "
    "thorough tier only (testing)",
]
RULE = ("[gap-closing round: + strings / string vectors of lengths around 64 and 256 and up to 5000 bytes read by the character "
        "loop, every datasource id and program::solver_t, `codec into` = dirty destinations for every format, `codec scalar` = "
        "platform self-test, the 27-point version grid around the library version, hash-collision witnesses in the corpus] "
        "objects: tensors of the 10 scalar types x rank 1..5 x dims 0..6 (boundary-biased to 0 and 1), parameters of all 7 kinds, "
        "plain configurables, features, every id of the solver/loss/splitter/tuner/lsearch0/lsearchk/linear factories randomly "
        "configured, the 8 weak learners unfitted and fitted on tiny datasets, fitted linear and gboost models; per object ONE op "
        "does: write, re-read, re-write, compare fields/parameters/predictions, and read EVERY strict prefix; tensor corruption ops "
        "try every position x (255 values | 8 bit flips | a mask); hand-made malformed streams with a stated expectation. "
        "A case is non-trivial when the stream nests >= 2 objects (configurable with parameters, factory object, model) or it is a "
        "tensor with >= 2 elements (the truncation / corruption then hits dims, hash and payload); distinct by op text")


# ---------------------------------------------------------------------------------------------------------
# translate(): constants and the hash mixing function re-read from the source on every run

class _CExpr:
    """tiny recursive-descent parser for C integer expressions over identifiers, literals and | ^ & << >> + - *;
    emits a fully parenthesised Lean expression over UInt64 (C precedence is made explicit, Lean's differs)"""
    TOK = re.compile(r"\s*(0[xX][0-9a-fA-F]+[uUlL]*|\d+[uUlL]*|[A-Za-z_]\w*|<<|>>|[()|^&+\-*])")

    def __init__(self, text):
        self.toks = []
        pos = 0
        text = text.strip()
        while pos < len(text):
            m = self.TOK.match(text, pos)
            if not m:
                raise Broken("translate", f"hash_combine: cannot tokenise {text[pos:pos+20]!r}")
            self.toks.append(m.group(1)); pos = m.end()
        self.i = 0

    def peek(self):
        return self.toks[self.i] if self.i < len(self.toks) else None

    def take(self):
        t = self.peek(); self.i += 1; return t

    py = False

    def level(self, ops, sub):
        e = sub()
        while self.peek() in ops:
            op = self.take()
            e = f"(({e} {op} {sub()}) & M64)" if self.py else f"({e} {ops[op]} {sub()})"
        return e

    def expr(self):
        return self.level({"|": "|||"}, self.xor)

    def xor(self):
        return self.level({"^": "^^^"}, self.band)

    def band(self):
        return self.level({"&": "&&&"}, self.shift)

    def shift(self):
        return self.level({"<<": "<<<", ">>": ">>>"}, self.add)

    def add(self):
        return self.level({"+": "+", "-": "-"}, self.mul)

    def mul(self):
        return self.level({"*": "*"}, self.prim)

    def prim(self):
        t = self.take()
        if t is None:
            raise Broken("translate", "hash_combine: unexpected end of expression")
        if t == "(":
            e = self.expr()
            if self.take() != ")":
                raise Broken("translate", "hash_combine: missing )")
            return e
        if re.match(r"0[xX]|\d", t):
            return t.rstrip("uUlL") if self.py else f"({t.rstrip('uUlL')} : UInt64)"
        if re.match(r"[A-Za-z_]\w*$", t):
            return t
        raise Broken("translate", f"hash_combine: unexpected token {t!r}")

    def parse(self):
        e = self.expr()
        if self.peek() is not None:
            raise Broken("translate", f"hash_combine: trailing tokens {self.toks[self.i:]}")
        return e


def translate():
    """NanoVerif/Gen/CodecConsts.lean: library version (CMakeLists.txt → cmake/version.h.in), hash_version() and the
    body of hash_combine() (include/nano/core/hash.h). The theorems hashCombine_injective_right / tensor_last_element_… are
    stated over the generated definition."""
    cm = open(os.path.join(vlib.REPO, "CMakeLists.txt")).read()
    m = re.search(r"project\s*\(\s*NANO\s+VERSION\s+(\d+)\.(\d+)\.(\d+)", cm)
    if not m:
        raise Broken("translate", "CMakeLists.txt: project(NANO VERSION a.b.c) not found")
    vin = open(os.path.join(vlib.REPO, "cmake", "version.h.in")).read()
    for part in ("MAJOR", "MINOR", "PATCH"):
        if not re.search(r"constexpr\s+int32_t\s+%s_version\s*=\s*@PROJECT_VERSION_%s@" % (part.lower(), part), vin):
            raise Broken("translate", f"cmake/version.h.in: {part.lower()}_version is no longer the project version")
    hh = open(os.path.join(vlib.REPO, "include", "nano", "core", "hash.h")).read()
    hv = re.search(r"constexpr\s+uint32_t\s+hash_version\s*\(\s*\)\s*\{\s*return\s+(\d+)\s*;\s*\}", hh)
    hc = re.search(r"inline\s+uint64_t\s+hash_combine\s*\(\s*const\s+uint64_t\s+(\w+)\s*,\s*const\s+uint64_t\s+(\w+)\s*\)"
                   r"\s*\{\s*return\s+([^;]+);\s*\}", hh)
    if not hv or not hc:
        raise Broken("translate", "include/nano/core/hash.h: hash_version()/hash_combine() not in the expected shape")
    a, b, body = hc.group(1), hc.group(2), hc.group(3)
    lean = _CExpr(body).parse()
    text = (
        "-- GENERATED by tools/props/c15.py from CMakeLists.txt, cmake/version.h.in and include/nano/core/hash.h — do not edit\n"
        "namespace NanoVerif.Gen.CodecConsts\n\n"
        f"def majorVersion : Int := {m.group(1)}\n"
        f"def minorVersion : Int := {m.group(2)}\n"
        f"def patchVersion : Int := {m.group(3)}\n\n"
        f"/-- `detail::hash_version()` -/\ndef hashVersion : Nat := {hv.group(1)}\n\n"
        f"/-- `detail::hash_combine`: `return {body.strip()};` -/\n"
        f"def hashCombine ({a} {b} : UInt64) : UInt64 :=\n  {lean}\n\n"
        "end NanoVerif.Gen.CodecConsts\n")
    vlib.write_if_changed(os.path.join(vlib.LEAN, "NanoVerif", "Gen", "CodecConsts.lean"), text)
    # Gen/CodecLayout.lean: field order / casts / declared types of every read and write member function
    c15_translate.translate()


# ---------------------------------------------------------------------------------------------------------
# an independent python rendering of the wire formats (used by the oracle and to build malformed streams)

M64 = (1 << 64) - 1
TYPES = {"i8": (1, "s"), "i16": (2, "s"), "i32": (4, "s"), "i64": (8, "s"), "u8": (1, "u"), "u16": (2, "u"), "u32": (4, "u"),
         "u64": (8, "u"), "f32": (4, "f"), "f64": (8, "f")}
TNAMES = list(TYPES)
PARAM_VARIANTS = ["none", "enum", "irange", "frange", "iprange", "fprange", "string"]
WLEARNERS = ["affine", "stump", "hinge", "dtree", "dense-table", "kbest-table", "ksplit-table", "dstep-table"]
LINEARS = ["ordinary", "lasso", "ridge", "elastic_net"]
FACTORIES = {"solver": 35, "loss": 17, "splitter": 2, "tuner": 2, "lsearch0": 4, "lsearchk": 5, "datasource": 12}   # how many indices to enumerate


_HC = []


def hash_combine(seed, h):
    """`detail::hash_combine` evaluated from the text of include/nano/core/hash.h (so that a change of the mixing constants
    alone, which keeps write and read consistent, is not reported as a layout violation); 64-bit wrap-around arithmetic"""
    if not _HC:
        f = None
        try:
            hh = open(os.path.join(vlib.REPO, "include", "nano", "core", "hash.h")).read()
            m = re.search(r"inline\s+uint64_t\s+hash_combine\s*\(\s*const\s+uint64_t\s+(\w+)\s*,\s*const\s+uint64_t\s+(\w+)\s*\)"
                          r"\s*\{\s*return\s+([^;]+);\s*\}", hh)
            e = _CExpr(m.group(3))
            e.py = True
            f = eval(f"lambda {m.group(1)}, {m.group(2)}: {e.parse()}", {"M64": M64})
        except Exception:
            f = None
        _HC.append(f or (lambda seed, h: seed ^ ((h + 0x9e3779b9 + ((seed << 6) & M64) + (seed >> 2)) & M64)))
    return _HC[0](seed, h)


def tensor_hash(ty, payload):
    size, kind = TYPES[ty]
    h = 0
    for i in range(0, len(payload), size):
        v = int.from_bytes(payload[i:i + size], "little", signed=(kind == "s")) & M64
        h = hash_combine(h, v)
    return h


def u32(n): return int(n).to_bytes(4, "little")
def i32(n): return int(n).to_bytes(4, "little", signed=True)
def u64(n): return int(n).to_bytes(8, "little")
def i64(n): return int(n).to_bytes(8, "little", signed=True)
def estr(b): return u32(len(b)) + bytes(b)
def evec(items): return u64(len(items)) + b"".join(items)


def tensor_stream(ty, dims, payload, version=0, rank=None, sizeof=None, hdelta=0):
    size, _ = TYPES[ty]
    return (u32(version) + u32(len(dims) if rank is None else rank) + b"".join(i32(d) for d in dims) +
            u32(size if sizeof is None else sizeof) + u64((tensor_hash(ty, payload) + hdelta) & M64) + bytes(payload))


def param_stream(name, tag, fields=b""):
    return i32(tag) + estr(name) + fields


def config_stream(ver, params):
    return i32(ver[0]) + i32(ver[1]) + i32(ver[2]) + evec(params)


def hx(b):
    return "x" + bytes(b).hex()


def unhx(tok):
    assert tok.startswith("x"), tok
    return bytes.fromhex(tok[1:])


def prod(xs):
    p = 1
    for x in xs:
        p *= x
    return p


_LV = []


def lib_version():
    """the library version, read from CMakeLists.txt (independently of Gen/CodecConsts.lean)"""
    if not _LV:
        cm = open(os.path.join(vlib.REPO, "CMakeLists.txt")).read()
        m = re.search(r"project\s*\(\s*NANO\s+VERSION\s+(\d+)\.(\d+)\.(\d+)", cm)
        _LV.append(tuple(int(x) for x in m.groups()) if m else (0, 0, 1))
    return _LV[0]


def version_grid():
    """every combination of older / equal / newer in the three components, near and far from the library version"""
    M, m, p = lib_version()
    out = []
    for far in (1, 1000):
        for d0 in (-far, 0, far):
            for d1 in (-far, 0, far):
                for d2 in (-far, 0, far):
                    v = (M + d0, m + d1, p + d2)
                    if v not in out:
                        out.append(v)
    return out


def version_expect(v):
    """configurable.cpp:64-68 as the property reads it: a stream written by a NEWER library is refused"""
    return "accept" if tuple(v) <= lib_version() else "reject"


SCALAR_VALUES = {
    "i8": [0, 1, -1, 127, -128, 0x12, -2], "i16": [0, 1, -1, 32767, -32768, 0x1234, -2],
    "i32": [0, 1, -1, 2147483647, -2147483648, 0x12345678, -2],
    "i64": [0, 1, -1, 9223372036854775807, -9223372036854775808, 0x123456789abcdef0, -2],
    "u8": [0, 1, 255, 128, 0x12], "u16": [0, 1, 65535, 32768, 0x1234], "u32": [0, 1, 4294967295, 2147483648, 0x12345678],
    "u64": [0, 1, 18446744073709551615, 9223372036854775808, 0x123456789abcdef0],
    "f32": ["00000000", "80000000", "3f800000", "7fc00000", "ff800000", "12345678", "00000001"],
    "f64": ["0000000000000000", "8000000000000000", "3ff0000000000000", "7ff8000000000000", "fff0000000000000",
            "123456789abcdef0", "0000000000000001"],
}
STRLENS = [0, 1, 2, 63, 64, 65, 127, 128, 129, 255, 256, 257, 1000]


# ---------------------------------------------------------------------------------------------------------
# generator

def _dims(rng, rank, maxprod):
    """dims in 0..6, biased to the boundary values 0, 1 and 6"""
    while True:
        ds = []
        for _ in range(rank):
            r = rng.below(10)
            ds.append(0 if r == 0 else 1 if r <= 2 else 6 if r == 3 else rng.range(2, 5))
        if prod(ds) <= maxprod:
            return ds


def _example_params(rng):
    """a few parameters in python encoding (for hand-made configurable streams)"""
    ps = [param_stream(b"eps", 2, u64(0x3eb0c6f7a0b5ed8d) + u64(0) + u64(0x3ff0000000000000) + u32(0) + u32(1)),
          param_stream(b"n", 1, i64(rng.range(1, 9)) + i64(1) + i64(10) + u32(1) + u32(1)),
          param_stream(b"kind", 0, estr(b"a") + evec([estr(b"a"), estr(b"bb")])),
          param_stream(b"", -1),
          param_stream(b"s", 5, estr(bytes([rng.below(256) for _ in range(rng.below(6))]))),
          param_stream(b"pr", 3, i64(2) + i64(5) + i64(0) + i64(9) + u32(1) + u32(0) + u32(1)),
          param_stream(b"fp", 4, u64(0x3fe0000000000000) + u64(0x3ff0000000000000) + u64(0) + u64(0x4000000000000000) + u32(0) + u32(1) + u32(2))]
    k = rng.range(0, len(ps))
    return rng.shuffle(ps)[:k]


def malformed(rng, n):
    """hand-made valid / invalid streams with the expectation the property statement (and the documented formats) give"""
    ops = []
    for _ in range(n):
        ty = rng.choice(TNAMES)
        size, _k = TYPES[ty]
        rank = rng.range(1, 3)
        dims = [rng.range(1, 3) for _ in range(rank)]
        payload = bytes(rng.below(256) for _ in range(prod(dims) * size))
        fmt = f"tensor {ty} {rank}"
        good = tensor_stream(ty, dims, payload)
        ops.append(f"codec read {fmt} {hx(good)} expect=accept")
        ops.append(f"codec read {fmt} {hx(good + bytes([rng.below(256)]))} expect=accept")       # trailing bytes are not read
        ops.append(f"codec read {fmt} {hx(good[:-1])} expect=reject")
        ops.append(f"codec read {fmt} {hx(tensor_stream(ty, dims, payload, version=rng.range(1, 3)))} expect=reject")
        ops.append(f"codec read {fmt} {hx(tensor_stream(ty, dims, payload, rank=rank + 1))} expect=reject")
        ops.append(f"codec read {fmt} {hx(tensor_stream(ty, dims, payload, sizeof=size * 2))} expect=reject")
        ops.append(f"codec read {fmt} {hx(tensor_stream(ty, dims, payload, hdelta=rng.range(1, 1 << 40)))} expect=reject")
        k = rng.below(len(payload))
        bad = bytearray(payload); bad[k] ^= 1 << rng.below(8)
        ops.append(f"codec read {fmt} {hx(tensor_stream(ty, dims, payload)[:-len(payload)] + bytes(bad))} expect=reject")
        neg = list(dims); neg[rng.below(rank)] = -rng.range(1, 3)
        ops.append(f"codec read {fmt} {hx(tensor_stream(ty, neg, payload))} expect=reject")
        other = rng.choice([t for t in TNAMES if TYPES[t][0] != size])
        ops.append(f"codec read tensor {other} {rank} {hx(good)} expect=reject")
    for _ in range(n):
        ps = _example_params(rng)
        ops.append(f"codec read configurable {hx(config_stream(lib_version(), ps))} expect=accept")
        # the version triple: newer (in the lexicographic order) is refused, everything else is readable
        grid = version_grid()
        for ver in rng.shuffle(grid)[:9]:
            ops.append(f"codec read configurable {hx(config_stream(ver, ps))} expect={version_expect(ver)}")
        ver = rng.choice(grid)
        ops.append(f"codec read factory solver 0 {hx(estr(b'gd') + config_stream(ver, ps))} expect={version_expect(ver)}")
        ops.append(f"codec read configurable {hx(i32(0) + i32(0) + i32(1) + u64(len(ps) + 1) + b''.join(ps))} expect=reject")
        for tag in (6, 7, -2, 100, -2147483648):
            ops.append(f"codec read param {hx(param_stream(b'p', tag, bytes(16)))} expect=reject")
        fid = rng.choice(["solver", "loss", "tuner", "splitter", "lsearch0", "lsearchk"])
        ops.append(f"codec read factory {fid} 0 {hx(estr(b'no-such-id') + config_stream((0, 0, 1), ps))} expect=reject")
        ops.append(f"codec read factory {fid} 0 {hx(estr(b'') + config_stream((0, 0, 1), ps))} expect=reject")
        ops.append(f"codec read factory solver 0 {hx(estr(b'lbfgs') + config_stream((0, 0, 1), ps))} expect=accept")
        ops.append(f"codec read factory loss 0 {hx(estr(b'lbfgs') + config_stream((0, 0, 1), ps))} expect=reject")
        ops.append(f"codec read wlearner {hx(estr(b'stumpy') + config_stream((0, 0, 1), ps))} expect=reject")
        feat = lambda t: estr(t) + i64(1) + i64(2) + i64(3) + estr(b"f") + evec([estr(b"l0"), estr(b"")])
        ops.append(f"codec read feature {hx(feat(b'float32'))} expect=accept")
        ops.append(f"codec read feature {hx(feat(b'int8xyz'))} expect=accept")     # from_string<enum>: prefix match
        ops.append(f"codec read feature {hx(feat(b'xint8'))} expect=reject")
        ops.append(f"codec read feature {hx(feat(b''))} expect=reject")
        # hand-made models: linear (bias.size() == weights.rows() is insisted on), weak learners under the wrong / right id
        learner = config_stream((0, 0, 1), ps) + evec([feat(b"float64"), feat(b"sclass")]) + feat(b"float64")
        k, n = rng.range(1, 3), rng.range(0, 3)
        t1 = lambda d: tensor_stream("f64", [d], bytes(rng.below(256) for _ in range(8 * d)))
        t2 = lambda r, c: tensor_stream("f64", [r, c], bytes(rng.below(256) for _ in range(8 * r * c)))
        ops.append(f"codec read factory linear 0 {hx(estr(b'ordinary') + learner + t1(k) + t2(k, n))} expect=accept")
        ops.append(f"codec read factory linear 0 {hx(estr(b'lasso') + learner + t1(k) + t2(k + 1, n))} expect=reject")
        ops.append(f"codec read factory linear 0 {hx(estr(b'ridge') + learner + t1(k + 1) + t2(k, n))} expect=reject")
        ops.append(f"codec read factory linear 0 {hx(estr(b'lbfgs') + learner + t1(k) + t2(k, n))} expect=reject")
        tables = tensor_stream("f64", [2, 1, 1, 1], bytes(rng.below(256) for _ in range(16)))
        stump = learner + i64(rng.range(-1, 5)) + tables + u64(rng.below(1 << 64))
        ops.append(f"codec read wlearner {hx(estr(b'stump') + stump)} expect=accept")
        ops.append(f"codec read wlearner {hx(estr(b'affine') + stump)} expect=accept")          # 8 trailing bytes stay unread
        ops.append(f"codec read wlearner {hx(estr(b'hinge') + stump)} expect=reject")           # the hinge side is missing
        ops.append(f"codec read wlearner {hx(estr(b'hinge') + stump + u32(rng.below(1 << 32)))} expect=accept")
        ops.append(f"codec read wlearner {hx(estr(b'dense-table') + stump)} expect=reject")
        ops.append(f"codec read wlearner {hx(estr(b'dtree') + stump)} expect=reject")
        nodes = evec([i32(0) + u64(rng.below(1 << 64)) + u32(1) + i32(-1), i32(-1) + u64(0) + u32(0) + i32(0)])
        feats = tensor_stream("i64", [1], i64(0))
        ops.append(f"codec read wlearner {hx(estr(b'dtree') + learner + nodes + feats + tables)} expect=accept")
        hashes = tensor_stream("u64", [2], u64(rng.below(1 << 64)) + u64(rng.below(1 << 64)))
        h2t = tensor_stream("i64", [2], i64(0) + i64(1))
        tid = rng.choice([b"dense-table", b"kbest-table", b"ksplit-table", b"dstep-table"])
        ops.append(f"codec read wlearner {hx(estr(tid) + learner + i64(1) + tables + hashes + h2t)} expect=accept")
        ops.append(f"codec read wlearner {hx(estr(tid) + learner + i64(1) + tables + h2t + hashes)} expect=accept")  # same sizeof: only the hash rule differs (none here: values < 2^63)
        gb = learner + t1(1) + evec([estr(b'stump') + stump]) + evec([estr(b'affine') + learner + i64(-1) + tensor_stream("f64", [0, 0, 0, 0], b"")])
        ops.append(f"codec read gboost {hx(gb)} expect=accept")
        ops.append(f"codec read gboost {hx(gb[:-1])} expect=reject")
    return ops


def gen(rng, tier):
    ops = []
    cp = os.path.join(vlib.VERIF, "corpus", "C15", "ops.txt")
    if os.path.exists(cp):
        ops += [l.strip() for l in open(cp) if l.strip() and not l.startswith("#")]
    thorough = tier == "thorough"
    seed = lambda: rng.range(1, 10 ** 9)

    # 1. tensors: 10 scalar types x rank 1..5 x dims 0..6
    for ty in TNAMES:
        size, _ = TYPES[ty]
        for rank in range(1, 6):
            for _ in range(8 if thorough else 2):
                ds = _dims(rng, rank, (16000 if thorough else 3200) // size)
                ops.append(f"codec obj tensor {ty} {rank} {' '.join(map(str, ds))} {seed()}")
    # a few large ones (all dims 6 at rank 4/5) with 1-byte scalars, so that 'dims up to 6' is reached at every rank
    for ty, ds in ([("u8", [6, 6, 6, 6, 6]), ("i8", [6, 6, 6, 6])] if thorough else [("i8", [6, 6, 6, 6])]):
        ops.append(f"codec obj tensor {ty} {len(ds)} {' '.join(map(str, ds))} {seed()}")

    # 2. parameters, configurables, features
    for v in PARAM_VARIANTS:
        for _ in range(40 if thorough else 10):
            ops.append(f"codec obj param {v} {seed()}")
    for n in range(0, 9):
        for _ in range(10 if thorough else 3):
            ops.append(f"codec obj configurable {n} {seed()}")
    for _ in range(150 if thorough else 30):
        ops.append(f"codec obj feature {seed()}")

    # 3. every id of the factories of plain configurables, randomly configured
    for which, n in FACTORIES.items():
        for k in range(n):
            for _ in range(6 if thorough else 1):
                ops.append(f"codec obj factory {which} @{k} {seed()}")

    # 4. weak learners (unfitted prototypes and fitted on tiny datasets), linear models, gboost models
    for wid in WLEARNERS:
        ops.append(f"codec obj wlearner {wid} 0 {seed()}")
        for _ in range(30 if thorough else 5):
            ops.append(f"codec obj wlearner {wid} {rng.range(12, 60)} {seed()}")
    for lid in LINEARS:
        ops.append(f"codec obj linear {lid} 0 {seed()}")
        for _ in range(12 if thorough else 2):
            ops.append(f"codec obj linear {lid} {rng.range(12, 40)} {seed()}")
    for _ in range(40 if thorough else 8):
        k = rng.range(1, 4)
        protos = rng.shuffle(WLEARNERS)[:k]
        ops.append(f"codec obj gboost {rng.range(20, 50)} {rng.range(1, 4)} {seed()} {k} {' '.join(protos)}")
    ops.append(f"codec obj gboost 0 2 {seed()} 2 affine dtree")

    # 5. single-byte corruptions of tensor headers and payloads
    for ty in TNAMES:
        size, _ = TYPES[ty]
        for rank in range(1, 6):
            for _ in range(3 if thorough else 1):
                ds = _dims(rng, rank, 8 if thorough else 4)
                ops.append(f"codec corrupt {ty} {rank} {' '.join(map(str, ds))} {seed()} all")
    for ty in TNAMES:
        size, _ = TYPES[ty]
        for rank in range(1, 6):
            for _ in range(6 if thorough else 1):
                ds = _dims(rng, rank, 400 // size)
                ops.append(f"codec corrupt {ty} {rank} {' '.join(map(str, ds))} {seed()} bits")
                ds = _dims(rng, rank, 1600 // size)
                ops.append(f"codec corrupt {ty} {rank} {' '.join(map(str, ds))} {seed()} xor {rng.range(1, 255)}")
    # zero-size tensors: header corruptions that keep the size 0 are accepted by the implementation (outside the statement)
    for _ in range(30 if thorough else 6):
        rank = rng.range(2, 5)
        ds = [rng.range(1, 6) for _ in range(rank)]
        ds[rng.below(rank)] = 0
        ops.append(f"codec corrupt {rng.choice(TNAMES)} {rank} {' '.join(map(str, ds))} {seed()} {'all' if thorough else 'bits'}")

    # 6. hand-made malformed streams
    ops += malformed(rng, 40 if thorough else 6)

    # 7. strings on their own (the character loop of core/stream.h): lengths around 64 / 256, long ones
    for n in STRLENS + ([4096, 5000] if thorough else []):
        ops.append(f"codec obj string {n} {seed()}")
    for _ in range(20 if thorough else 5):
        ops.append(f"codec obj strings {rng.range(0, 6)} {rng.choice([0, 3, 70, 300])} {seed()}")
    ops.append(f"codec obj program-solver {seed()}")

    # 8. the complete version grid (27 near + far points), on a configurable with parameters
    ps = _example_params(rng)
    for ver in version_grid():
        ops.append(f"codec read configurable {hx(config_stream(ver, ps))} expect={version_expect(ver)}")

    # 9. platform self-test: boundary values of every scalar type
    for ty, vals in SCALAR_VALUES.items():
        for v in vals:
            ops.append(f"codec scalar {ty} {v}")
        size, kind = TYPES[ty]
        for _ in range(6 if thorough else 2):
            if kind == "f":
                ops.append(f"codec scalar {ty} {rng.below(1 << (8 * size)):0{2 * size}x}")
            elif kind == "s":
                ops.append(f"codec scalar {ty} {rng.below(1 << (8 * size)) - (1 << (8 * size - 1))}")
            else:
                ops.append(f"codec scalar {ty} {rng.below(1 << (8 * size))}")

    # 10. previously used destinations: A's stream (and every strict prefix) is read into an object that holds B
    def tspec(ty, rank, maxprod, zero=None):
        ds = _dims(rng, rank, maxprod)
        if zero is True:
            ds[rng.below(rank)] = 0
        elif zero is False:
            ds = [max(1, d) for d in ds]
        return f"tensor {ty} {rank} {' '.join(map(str, ds))} {seed()}"
    for ty in TNAMES:
        size, _ = TYPES[ty]
        for rank in range(1, 6):
            for za, zb in ([(True, False), (False, True), (False, False)] if thorough or rank <= 2 else [(True, False)]):
                ops.append(f"codec into {tspec(ty, rank, 400 // size, za)} // {tspec(ty, rank, 400 // size, zb)}")
    for va in PARAM_VARIANTS:
        for vb in (PARAM_VARIANTS if thorough else rng.shuffle(list(PARAM_VARIANTS))[:2]):
            ops.append(f"codec into param {va} {seed()} // param {vb} {seed()}")
    for _ in range(20 if thorough else 5):
        ops.append(f"codec into configurable {rng.range(0, 6)} {seed()} // configurable {rng.range(0, 8)} {seed()}")
        ops.append(f"codec into feature {seed()} // feature {seed()}")
        ops.append(f"codec into string {rng.choice([0, 1, 5, 70])} {seed()} // string {rng.choice([0, 3, 64, 300])} {seed()}")
        ops.append(f"codec into strings {rng.range(0, 4)} {rng.choice([0, 3, 70])} {seed()} // strings {rng.range(0, 6)} 80 {seed()}")
    for which, n in FACTORIES.items():
        for _ in range(8 if thorough else 2):
            ops.append(f"codec into factory {which} @{rng.below(n)} {seed()} // factory {which} @{rng.below(n)} {seed()}")
    for _ in range(24 if thorough else 6):
        wa, wb = rng.choice(WLEARNERS), rng.choice(WLEARNERS)
        na, nb = rng.choice([0, rng.range(12, 40)]), rng.range(12, 40)
        ops.append(f"codec into wlearner {wa} {na} {seed()} // wlearner {wb} {nb} {seed()}")
    for _ in range(8 if thorough else 2):
        la, lb = rng.choice(LINEARS), rng.choice(LINEARS)
        ops.append(f"codec into linear {la} {rng.choice([0, rng.range(12, 30)])} {seed()} // linear {lb} {rng.range(12, 30)} {seed()}")
    for _ in range(8 if thorough else 2):
        ka, kb = rng.range(1, 3), rng.range(1, 3)
        pa, pb = rng.shuffle(WLEARNERS)[:ka], rng.shuffle(WLEARNERS)[:kb]
        ops.append(f"codec into gboost {rng.choice([0, rng.range(20, 40)])} {rng.range(1, 3)} {seed()} {ka} {' '.join(pa)} // "
                   f"gboost {rng.range(20, 40)} {rng.range(1, 3)} {seed()} {kb} {' '.join(pb)}")
    return ops


# ---------------------------------------------------------------------------------------------------------
# oracle: the property statement evaluated on the implementation's answer

def _split(aug):
    parts = aug.split(" # ")
    return parts[0].split(), [p.split() for p in parts[1:]]


def _fmt_len(head):
    """number of tokens of the <fmt> starting at head[2]"""
    k = head[2]
    if k == "tensor":
        return 3
    if k == "factory":
        return 3 + int(head[4])
    return 1


def _kind(aug_or_op):
    t = aug_or_op.split()
    if len(t) < 3:
        return "?"
    if t[1] == "corrupt":
        return "tensor"
    if t[1] == "scalar":
        return "scalar"
    k = t[2]
    if k == "factory" and len(t) > 3:
        return "factory:" + t[3]
    return k


def _is_fold_collision(head, tails):
    """`codec read tensor <ty> <rank> <S> # … orig=<O>`: True only when O is a stream nano::write can produce (its stored hash
    is the fold over its payload, recomputed here), S differs from O in payload bytes ONLY, and the fold over the ALTERED
    payload, recomputed here from the source text of hash.h, EQUALS the stored hash — a true collision of the fold. Anything
    else that is accepted (hash not compared, hash over part of the bytes, …) is not the known finding."""
    try:
        ty, rank = head[3], int(head[4])
        S = unhx(head[5])
        orig = [t for ts in tails for t in ts if t.startswith("orig=")]
        if ty not in TYPES or not orig:
            return False
        O = unhx(orig[0][5:])
        hl = 4 + 4 + 4 * rank + 4 + 8
        if len(S) != len(O) or len(S) <= hl or S[:hl] != O[:hl] or S[hl:] == O[hl:]:
            return False
        stored = int.from_bytes(S[hl - 8:hl], "little")
        return tensor_hash(ty, O[hl:]) == stored and tensor_hash(ty, S[hl:]) == stored
    except Exception:
        return False


def oracle(aug, res):
    head, tails = _split(aug)
    op = head[1]
    r = res.split()
    if not r or r[0] in ("throw", "bad-op"):
        return f"generator/harness problem: {res[:120]}"
    if op == "obj":
        nf = _fmt_len(head)
        fmt = " ".join(head[2:2 + nf])
        S = unhx(head[2 + nf])
        dump_orig = tails[0] if tails else []
        if r[0] != "ok":
            return f"reread-rejected: the complete stream of a valid object is refused; replay: codec read {fmt} {hx(S)} expect=accept"
        S2 = unhx(r[1]); eq, pred, nacc = r[2], r[3], int(r[4])
        offs = [int(x) for x in r[5:5 + nacc]]
        dump_re = r[5 + nacc:]
        if offs:
            k = offs[0]
            return (f"prefix-accepted: a strict prefix ({k} of {len(S)} bytes; {len(offs)} offsets in all: {offs[:8]}) is read "
                    f"successfully; replay: codec read {fmt} {hx(S[:k])} expect=reject")
        if S2 != S:
            return f"rewrite-differs: the re-read object serializes to different bytes ({len(S2)} vs {len(S)})"
        if eq != "1":
            return "reread-not-equal: the re-read object differs from the written one (operator== / parameters)"
        if pred != "1":
            return "prediction-differs: predictions of the re-read model are not bit-identical"
        if dump_re != dump_orig:
            return f"fields-differ: dumped fields differ after the round trip: {' '.join(dump_orig)[:120]} vs {' '.join(dump_re)[:120]}"
        if head[2] == "string" and (len(dump_orig) != 2 or S != estr(unhx(dump_orig[1]))):
            return "string-layout: the stream is not uint32 length + characters"
        if head[2] == "strings" and S != evec([estr(unhx(t)) for t in dump_orig[2:]]):
            return "strings-layout: the stream is not uint64 count + (uint32 length + characters)*"
        if head[2] == "tensor":
            # layout of the stream from the property's anchors: version, rank, int32 dims, sizeof, hash(content), content
            spec = tails[1]
            ty, rank = spec[1], int(spec[2]); dims = [int(x) for x in spec[3:3 + rank]]
            size = TYPES[ty][0]
            hl = 4 + 4 + 4 * rank + 4 + 8
            payload = S[hl:]
            if len(payload) != prod(dims) * size or S != tensor_stream(ty, dims, payload):
                return "tensor-layout: the stream is not version, rank, dims, sizeof, hash(content), content"
        return None
    if op == "corrupt":
        ty, rank = head[3], int(head[4])
        S = unhx(head[5])
        fmt = f"tensor {ty} {rank}"
        if r[0] != "ok":
            return f"corrupt: unexpected answer {res[:80]}"
        hl = int(r[1]); nacc = int(r[2])
        if hl != 4 + 4 + 4 * rank + 4 + 8:
            return "corrupt: header length"
        step = 2 + (rank + 4)
        body = r[3:]
        if len(body) != nacc * step:
            return "corrupt: malformed answer"
        collision = None       # a true collision of the fold is the known finding; it must not mask anything else in the same op
        for i in range(nacc):
            e = body[i * step:(i + 1) * step]
            p, v = int(e[0]), int(e[1])
            dims = [int(x) for x in e[4:4 + rank]]          # e = p v T <rank> <dims…> <nbytes> <fnv>
            nbytes = int(e[4 + rank])
            bad = bytearray(S); bad[p] = v
            replay = f"replay: codec read {fmt} {hx(bad)} expect=reject"
            if p >= hl:
                stored = int.from_bytes(S[hl - 8:hl], "little")
                if tensor_hash(ty, bytes(S[hl:])) == stored and tensor_hash(ty, bytes(bad[hl:])) == stored:
                    # the fold over the ALTERED payload, recomputed here, equals the stored hash (Props/C15.lean
                    # tensor_single_bit_flip_accepted): KNOWN_FINDINGS hash-collision-accepted:tensor
                    collision = collision or (
                        f"hash-collision-accepted: payload byte {p - hl} changed {S[p]:#04x} -> {v:#04x}, the 64-bit fold over the "
                        f"altered payload equals the stored hash and the stream is read; {replay} note=hash-collision orig={hx(S)}")
                    continue
                return f"payload-corruption-accepted: payload byte {p - hl} changed {S[p]:#04x} -> {v:#04x} and the stream is still read; {replay}"
            # header: only a dimension change that keeps the element count (0) is known to slip through (noted in DESIGN.md §4 C15)
            if not (8 <= p < 8 + 4 * rank) or nbytes != 0 or prod(dims) != 0:
                return f"header-corruption-accepted: header byte {p} changed to {v:#04x}, read as dims {dims} with {nbytes} payload bytes; {replay}"
        return collision
    if op == "read":
        exp = [t for ts in tails for t in ts if t.startswith("expect=")]
        if r[0] == "null-object":
            return ("null-object-accepted: the reader leaves the stream good and the factory object null — neither an exception "
                    "nor a failed stream state")
        if exp:
            want = exp[0][7:]
            got = "accept" if r[0] == "ok" else "reject"
            if want != got:
                tag = "malformed-accepted" if want == "reject" else "valid-rejected"
                if want == "reject" and head[2] == "tensor" and _is_fold_collision(head, tails):
                    tag = "hash-collision-accepted"
                return f"{tag}: expected {want}, the implementation answers {res[:80]}"
        return None
    if op == "into":
        nf = _fmt_len(head)
        fmt = " ".join(head[2:2 + nf])
        S = unhx(head[2 + nf])
        dump_orig = tails[0] if tails else []
        dirty = [t for t in (tails[1] if len(tails) > 1 else []) if t.startswith("dirty=")]
        replay = f"replay: codec read {fmt} {hx(S)} {dirty[0] if dirty else ''}"
        if r[0] != "ok":
            return f"dirty-destination-rejected: a valid stream is refused when the destination was used before; {replay} expect=accept"
        S2 = unhx(r[1]); eq, nacc = r[2], int(r[3])
        offs = [int(x) for x in r[4:4 + nacc]]
        dump_re = r[4 + nacc:]
        if offs:
            k = offs[0]
            return (f"prefix-accepted-dirty: a strict prefix ({k} of {len(S)} bytes; {len(offs)} offsets in all) is read successfully "
                    f"into a used destination; replay: codec read {fmt} {hx(S[:k])} {dirty[0] if dirty else ''} expect=reject")
        if S2 != S or eq != "1" or dump_re != dump_orig:
            return (f"dirty-destination: reading a valid stream into a previously used object does not give the written object "
                    f"(re-serialization {'differs' if S2 != S else 'equal'}, operator== {eq}, fields "
                    f"{' '.join(dump_re)[:80]} vs {' '.join(dump_orig)[:80]}); {replay} expect=accept")
        return None
    if op == "scalar":
        ty, tok = head[2], head[3]
        if ty not in TYPES:
            return f"unknown scalar type {ty}"
        size, kind = TYPES[ty]
        if kind == "f":
            b = int(tok, 16).to_bytes(size, "little"); hv = int(tok, 16)
        elif kind == "s":
            b = int(tok).to_bytes(size, "little", signed=True); hv = int(tok) & M64
        else:
            b = int(tok).to_bytes(size, "little"); hv = int(tok)
        want = ["ok", hx(b), f"{hash_combine(0, hv):016x}", str(size), "1", hx(tensor_stream(ty, [1], b))]
        if r != want:
            names = ["", "bytes written by nano::write", "detail::hash of the value", "sizeof", "nano::read gives the value back",
                     "stream of the one-element tensor"]
            k = next((i for i in range(min(len(r), len(want))) if r[i] != want[i]), min(len(r), len(want)))
            return (f"platform-assumption: {ty} {tok}: {names[k] if k < len(names) else 'answer'} is {r[k] if k < len(r) else '-'}, "
                    f"little-endian / two's complement / sign-extended hashing gives {want[k] if k < len(want) else '-'}")
        return None
    return f"unknown op {op}"


def classify(op, kind, detail):
    t = op.split()
    what = t[1] if len(t) > 1 else "?"
    k = _kind(op)
    if kind == "oracle":
        tag = detail.split(":")[0] if ":" in detail[:40] else "oracle"
        return f"{tag}:{k}"
    return f"{kind}:{what}:{k}"


def nontrivial(op):
    t = op.split()
    if t[1] == "obj":
        if t[2] == "tensor":
            rank = int(t[4]); return prod(int(x) for x in t[5:5 + rank]) >= 2
        if t[2] == "param":
            return t[3] != "none"
        if t[2] == "configurable":
            return int(t[3]) >= 1
        if t[2] == "string":
            return int(t[3]) >= 2
        return t[2] != "feature"
    if t[1] == "scalar":
        return False
    if t[1] == "corrupt":
        rank = int(t[3]); return prod(int(x) for x in t[4:4 + rank]) >= 2
    return True


def distribution(ops):
    d = {}
    for op in ops:
        t = op.split()
        if t[1] == "obj":
            k = f"obj/{t[2]}" + (f"/{t[3]}" if t[2] in ("factory", "param") else "") + (f"/rank{t[4]}" if t[2] == "tensor" else "")
            if t[2] in ("wlearner", "linear"):
                k += "/fitted" if t[4] != "0" else "/unfitted"
        elif t[1] == "corrupt":
            rank = int(t[3]); k = f"corrupt/{t[5 + rank]}/rank{rank}"
        elif t[1] == "into":
            k = f"into/{t[2]}" + (f"/{t[3]}" if t[2] in ("factory", "param") else "")
        elif t[1] == "scalar":
            k = f"scalar/{t[2]}"
        else:
            k = f"read/{t[2]}/" + (t[-1] if t[-1].startswith("expect=") else "-")
        d[k] = d.get(k, 0) + 1
    return d


def shrink_candidates(op):
    """smaller tensors / fewer parameters / fewer samples first"""
    t = op.split()
    out = []
    if t[1] == "obj" and t[2] == "tensor" or t[1] == "corrupt":
        b = 5 if t[1] == "obj" else 4
        rank = int(t[b - 1])
        for i in range(rank):
            d = int(t[b + i])
            for nd in sorted({0, 1, d // 2, d - 1}):
                if 0 <= nd < d:
                    u = list(t); u[b + i] = str(nd); out.append(" ".join(u))
    elif t[1] == "obj" and t[2] == "configurable" and int(t[3]) > 0:
        u = list(t); u[3] = str(int(t[3]) - 1); out.append(" ".join(u))
    elif t[1] == "obj" and t[2] in ("wlearner", "linear") and int(t[4]) > 12:
        u = list(t); u[4] = str(max(12, int(t[4]) // 2)); out.append(" ".join(u))
    return out


def static_checks():
    """the two hand-written tables of Model/Wire.lean against the source text: the weak-learner type ids
    (src/wlearner/*.cpp constructors) and the feature_type names in declaration order (include/nano/feature.h)"""
    bad = []
    wire = open(os.path.join(vlib.LEAN, "NanoVerif", "Model", "Wire.lean")).read()

    def lean_bytes(txt):
        return [bytes(int(x, 16) for x in re.findall(r"0x([0-9a-fA-F]{2})", row)).decode("ascii")
                for row in re.findall(r"\[((?:\s*0x[0-9a-fA-F]{2}\s*,?)+)\]", txt)]

    m = re.search(r"def featureNames : List Bytes := \[(.*?)\]\]", wire, re.S)
    lean_feat = lean_bytes(m.group(1) + "]") if m else []
    fh = open(os.path.join(vlib.REPO, "include", "nano", "feature.h")).read()
    em = re.search(r"enum_map_t<feature_type>\s+enum_string\(\)\s*\{\s*return\s*\{(.*?)\};", fh, re.S)
    src_feat = re.findall(r'feature_type::\w+\s*,\s*"([^"]+)"', em.group(1)) if em else []
    if not src_feat or lean_feat != src_feat:
        bad.append(f"featureNames of Model/Wire.lean {lean_feat} != enum_string<feature_type>() {src_feat}")
    ids = set()
    wdir = os.path.join(vlib.REPO, "src", "wlearner")
    for fn in sorted(os.listdir(wdir)):
        if fn.endswith(".cpp"):
            ids |= set(re.findall(r":\s*(?:single_feature_wlearner_t|table_wlearner_t|wlearner_t)\(\"([^\"]+)\"\)",
                                  open(os.path.join(wdir, fn)).read()))
    m2 = re.search(r"def idAffine.*?def wkind", wire, re.S)
    lean_ids = set(lean_bytes(m2.group(0))) if m2 else set()
    if not ids or lean_ids != ids or set(WLEARNERS) != ids:
        bad.append(f"weak-learner ids: source {sorted(ids)}, Model/Wire.lean {sorted(lean_ids)}, generator {sorted(WLEARNERS)}")
    return bad
