"""C20 — order statistics and histograms are consistent with a sorted-array reference (DESIGN.md §4 C20)."""
import math, os, re
from fractions import Fraction
import vlib
from vlib import Toks, lst, f2h, h2f, Broken

ID = "C20"
LEVEL = "proof"
HARNESS = "c20"
LEAN_MODULES = ["NanoVerif.Props.C20"]
NS = "NanoVerif.Stats."
OBLIGATIONS = [NS + t for t in [
    "percentile_spec", "percentile_value_between", "percentileSorted_rejects",
    "mergeSort_sortSpec", "sortSpec_unique", "percentile_unsorted_eq_sorted", "percentile_of_sorted",
    "median_eq_percentile_50", "median_spec",
    "bins_concat", "bins_length", "bins_counts_sum", "bin_eq_filter", "bin_membership", "bin_stats_spec",
    "binOf_spec", "binOf_unique", "binOf_mem",
    "hist_spec", "hist_count_spec", "hist_bin_spec",
    "ratio_thresholds_spec", "percentile_thresholds_spec", "storeStats_spec",
    # gap-closing round
    "model_percentile_is_generated", "model_percentileC_is_generated", "model_position_is_generated",
    "order_statistic_of_split", "nthBySort_spec", "percentileSortedC_eq_map", "fromPosNth_spec", "percentileNthC_spec",
    "map_cast_sorted", "percentile_nth_spec", "percentile_nth_eq_percentile", "percentile_int_container",
    "sorted_precondition_necessary", "ctor_sorts_thresholds", "unsorted_thresholds_break_the_rule", "unsorted_values_break_the_rule",
    "mem_intRange", "intRange_pairwise", "expThresholds_pairwise_lt", "expScan_covers", "thresholdsFromExponents_spec",
    "histFromExponents_spec", "powSpec_real", "getExponent_bracket", "exponents_value_bracketed",
    "linSpacedAt_equidistant", "equidistant_list_props", "equidistantRatios_spec", "equidistantPercentiles_spec",
    "sum_sq_dev", "tvariance_two_pass", "tstdev_is_standard_error", "tstdev_small", "stdev_radicand_witness",
    "stats_fields_match", "load_store_roundtrip", "storeStats_one_and_none",
]]
TRUSTED = [
    "Lean 4.33.0 kernel; Mathlib modules imported by NanoVerif/Proofs/Stats.lean and NanoVerif/Props/C20.lean "
    "(Algebra.Order.Floor, Algebra.Order.Field.Basic, Tactic.Linarith/Ring/NormNum, Data.List lemmas)",
    "axioms: at most propext, Classical.choice, Quot.sound (audited per theorem on every run)",
    "hand-written model NanoVerif/Model/Stats.lean, StatsTyped.lean, StatsExp.lean of stats.h / histogram.h / histogram.cpp / "
    "machine/stats.cpp; regenerated from the source into NanoVerif/Gen/Stats.lean on every run: the body of detail::percentile "
    "(position formula, floor/ceil pair, midpoint; tied to the model by rfl theorems), the percentile list and slot layout of "
    "store_stats, the field names of stats_t and the order of load_stats; the texts of percentile / percentile_sorted / median / "
    "median_sorted are pinned by translate(); the rest is tied to the code by the correspondence run (harness/c20.cpp on the real code "
    "vs the compiled Lean driver at Float, bit-exact comparison except mean/stdev of store_stats)",
    "std::sort contract: a sorted permutation (parameter `sort` + SortSpec); std::nth_element contract: a permutation split at "
    "position k (parameter `nth` + NthSpec) - monitored at run time on every `pct unsorted` op (python nth_monitor on the range read back)",
    "std::log / std::pow / std::fabs = class Libm, bound to Float.log / Float.pow / Float.abs in the driver (same libm: make_from_exponents "
    "and LinSpaced are compared bit-exactly) and to Real.log, zpow, |.| in the theorems; Eigen 3.4 LinSpaced modelled as coded",
    "tools/props/c20.py generator + sorted-array reference oracle; harness/c20.cpp; g++/libstdc++/Eigen",
]
ASSUMPTIONS = [
    "theorems are about exact arithmetic (any linear ordered field with a floor function); the double computation "
    "position = p*(n-1)/100 agrees with it whenever p*(n-1) is exactly representable and p*(n-1)/100 is an integer or at "
    "least 1e-9 away from one (true for the generated grid k/8, for integer percentages, for n <= 500); for other percentages "
    "(make_equidistant_percentiles: 100*k/bins) the oracle accepts both neighbours' answers when the exact position is within "
    "1e-9 of an integer",
    "asserts are compiled out in the release build: ops violating an assert (empty range, percentage outside [0,100], no "
    "thresholds, ratios outside (0,1), percentiles outside (0,100)) are never generated; the model returns none there",
    "no NaN values or thresholds (std::sort would be undefined), no infinite values; infinite thresholds and NaN / infinite queries "
    "ARE generated (NaN query: valid index required, exact value compared with the model); no negative zeros",
    "make_from_exponents: modelled (log / floor / pow through Libm); the int conversion of the exponent is exact for base >= 1 + 2^-20 "
    "(generated bases >= 1.1); the python oracle checks the thresholds independently (each is +-base^e, contiguous exponents, covering "
    "the clamped values, tolerance 1e-9 at the bracket ends)",
    "make_equidistant_ratios/percentiles: modelled (LinSpaced as coded), compared bit-exactly for bins = 2..200 (quick) / 2..1000 "
    "(thorough); python oracle: k/bins, 100k/bins at rtol 1e-12, strictly inside the open interval, strictly increasing",
    "the double computation of the position p*(n-1)/100 with its floor/ceil is compared with the exact one EXHAUSTIVELY on the grid "
    "p = 0..100 x n = 1..500 (50 500 pairs, quick and thorough; ops `grid`), on p = k/8 for 40 random n (quick) / every n (thorough), "
    "and through the unsorted variant for n <= 120 (quick) / every n (thorough)",
    "tensor::stdev inside store_stats is modelled as the code computes it (sqrt((E[x^2]-mean^2)/(n-1))) = the standard error of the "
    "mean (theorem tstdev_is_standard_error) and compared model-vs-implementation; it is not part of the property statement",
]
RULE = ("corpus; the whole grid p = 0..100 x n = 1..500 (ops `grid`, 101 percentages per op); make_equidistant_* for every bins = 2..200; "
        "percentile_sorted on unsorted ranges (positional reading); exhaustive small lists (n = 1..6, several shapes with ties/negatives) x every percentage of the grid k/8 (k = 0..800); random "
        "lists of 1..500 integers or dyadic reals with ties and negatives, percentages on the grid biased to 0/100/integral positions, five "
        "container types; histograms through make_from_thresholds/ratios/percentiles/exponents and the equidistant overloads with 1..20 "
        "thresholds incl. duplicates and out-of-range ones, queries on/between/beyond thresholds, integer and non-integer; store_stats; "
        "a case is non-trivial when the list has >= 2 distinct values and (percentile) the position is fractional / (histogram) a threshold "
        "lies strictly inside the data range; distinct by op text")
FLAVOUR = {"quick": "plain", "thorough": "asan"}
EXHAUSTIVE = {"quick": False, "thorough": False}
TYPES = ["d", "f", "i", "l", "t"]
NEAR = Fraction(1, 10 ** 9)
STORE_PCTS = [1, 5, 10, 20, 50, 80, 90, 95, 99]   # from the field names of ml::stats_t (include/nano/machine/stats.h)


# ---------------------------------------------------------------------------------------------------------
# translate: include/nano/core/stats.h (detail::percentile body, the four wrappers), src/machine/stats.cpp (store_stats slots,
# load_stats order), include/nano/machine/stats.h (stats_t field names) -> NanoVerif/Gen/Stats.lean

def _strip(src):
    src = re.sub(r"/\*.*?\*/", " ", src, flags=re.S)
    return re.sub(r"//[^\n]*", " ", src)


def _norm(s):
    return re.sub(r"\s+", "", s)


def _body(src, head_regex, what):
    m = re.search(head_regex, src)
    if not m:
        raise Broken("translate", f"{what} not found")
    i = m.end(); depth = 1
    while depth:
        if i >= len(src):
            raise Broken("translate", f"{what}: unbalanced braces")
        depth += (src[i] == "{") - (src[i] == "}")
        i += 1
    return src[m.end():i - 1]


_TOK = re.compile(r"\s*(?:(\d+\.\d*|\.\d+|\d+)|(static_cast<double>)|([A-Za-z_][A-Za-z_0-9]*)|(<=|>=|&&|[-+*/()<>]))")


class _Expr:
    """C++ scalar expression (double arithmetic, comparisons joined by &&) -> Lean text; collects the literals"""
    def __init__(self, text, names, lits):
        self.toks = []
        i = 0
        text = text.strip()
        while i < len(text):
            m = _TOK.match(text, i)
            if not m:
                raise Broken("translate", f"cannot tokenize `{text[i:i + 30]}`")
            self.toks.append(m.group(m.lastindex)); i = m.end()
            if text[i:].strip() == "":
                break
        self.i = 0; self.names = names; self.lits = lits

    def peek(self):
        return self.toks[self.i] if self.i < len(self.toks) else None

    def eat(self, t=None):
        x = self.peek()
        if x is None or (t is not None and x != t):
            raise Broken("translate", f"expected {t!r}, found {x!r}")
        self.i += 1
        return x

    def done(self):
        if self.i != len(self.toks):
            raise Broken("translate", f"trailing tokens {self.toks[self.i:]}")

    def conj(self):
        a = self.cmp()
        while self.peek() == "&&":
            self.eat(); a = f"{a} ∧ {self.cmp()}"
        return a

    def cmp(self):
        a = self.sum()
        op = self.peek()
        if op in ("<=", ">=", "<", ">"):
            self.eat(); b = self.sum()
            return {"<=": f"{a} ≤ {b}", ">=": f"{b} ≤ {a}", "<": f"{a} < {b}", ">": f"{b} < {a}"}[op]
        return a

    def sum(self):
        a = self.term()
        while self.peek() in ("+", "-"):
            op = self.eat(); a = f"({a} {op} {self.term()})" if False else f"{a} {op} {self.term()}"
        return a

    def term(self):
        a = self.unary()
        while self.peek() in ("*", "/"):
            op = self.eat(); a = f"{a} {op} {self.unary()}"
        return a

    def unary(self):
        if self.peek() == "-":
            self.eat()
            return f"-{self.unary()}"
        return self.atom()

    def atom(self):
        t = self.eat()
        if t == "(":
            e = self.sum(); self.eat(")")
            return f"({e})"
        if t == "static_cast<double>":
            # an integer expression over `size`: only `size` and `size - k` (natural subtraction, size >= 1)
            self.eat("("); e = self.eat()
            if e != "size":
                raise Broken("translate", f"static_cast<double>({e} …): only `size [- k]` is understood")
            txt = "size"
            if self.peek() == "-":
                self.eat(); k = self.eat()
                if not k.isdigit():
                    raise Broken("translate", f"static_cast<double>(size - {k})")
                txt = f"size - {k}"
            self.eat(")")
            return f"ofNat ({txt})"
        if re.fullmatch(r"\d+\.\d*|\.\d+|\d+", t):
            v = float(t)
            if v != int(v):
                raise Broken("translate", f"non-integer literal {t} in detail::percentile")
            self.lits.add(int(v))
            return str(int(v))
        if t in self.names:
            return t
        raise Broken("translate", f"unknown identifier `{t}` in detail::percentile")


WRAPPERS = {
    # name -> (head regex, normalised body the model `Model/StatsTyped.lean` mirrors)
    "percentile": (r"auto\s+percentile\s*\(\s*titerator\s+begin\s*,\s*titerator\s+end\s*,\s*const\s+double\s+percentage\s*\)\s*noexcept\s*\{",
                   "constautofrom_position=[begin=begin,end=end](autopos){automiddle=begin;std::advance(middle,pos);"
                   "std::nth_element(begin,middle,end);returnstatic_cast<double>(*middle);};"
                   "returndetail::percentile(begin,end,percentage,from_position);"),
    "percentile_sorted": (r"auto\s+percentile_sorted\s*\(\s*titerator\s+begin\s*,\s*titerator\s+end\s*,\s*const\s+double\s+percentage\s*\)\s*noexcept\s*\{",
                          "assert(std::is_sorted(begin,end));constautofrom_position=[begin=begin](autopos){automiddle=begin;"
                          "std::advance(middle,pos);returnstatic_cast<double>(*middle);};"
                          "returndetail::percentile(begin,end,percentage,from_position);"),
    "median": (r"auto\s+median\s*\(\s*titerator\s+begin\s*,\s*titerator\s+end\s*\)\s*noexcept\s*\{", "returnpercentile(begin,end,50);"),
    "median_sorted": (r"auto\s+median_sorted\s*\(\s*titerator\s+begin\s*,\s*titerator\s+end\s*\)\s*noexcept\s*\{",
                      "returnpercentile_sorted(begin,end,50);"),
}


def translate_percentile():
    path = os.path.join(vlib.REPO, "include", "nano", "core", "stats.h")
    src = _strip(open(path).read())
    for name, (head, want) in WRAPPERS.items():
        got = _norm(_body(src, head, f"nano::{name} (stats.h)"))
        if got != want:
            raise Broken("translate", f"stats.h: the body of nano::{name} is no longer the text the model mirrors: {got[:160]}")
    body = _body(src, r"auto\s+percentile\s*\(\s*titerator\s+begin\s*,\s*titerator\s+end\s*,\s*const\s+double\s+percentage\s*,\s*"
                      r"const\s+toperator&\s+from_position\s*\)\s*noexcept\s*\{", "detail::percentile (stats.h)")
    stmts = " ".join(body.split())
    pat = (r"assert\((?P<guard>.+?)\); "
           r"const auto size = std::distance\(begin, end\); "
           r"const double position = (?P<pos>.+?); "
           r"const auto lpos = static_cast<decltype\(size\)>\(std::(?P<lf>floor|ceil)\(position\)\); "
           r"const auto rpos = static_cast<decltype\(size\)>\(std::(?P<rf>floor|ceil)\(position\)\); "
           r"if \(lpos == rpos\) \{ return from_position\(lpos\); \} "
           r"else \{ const auto lvalue = from_position\(lpos\); const auto rvalue = from_position\(rpos\); return (?P<mid>.+?); \}")
    m = re.fullmatch(pat, stmts)
    if not m:
        raise Broken("translate", "detail::percentile (stats.h) no longer has the statement structure the translator understands: "
                     + stmts[:200])
    lits = set()
    e = _Expr(m.group("guard"), {"percentage"}, lits); guard = e.conj(); e.done()
    e = _Expr(m.group("pos"), {"percentage"}, lits); pos = e.sum(); e.done()
    e = _Expr(m.group("mid"), {"lvalue", "rvalue"}, lits); mid = e.sum(); e.done()
    ofnats = " ".join(f"[OfNat α {k}]" for k in sorted(lits))
    return (
        "section\n"
        f"variable {{α : Type}} [Add α] [Sub α] [Mul α] [Div α] [Neg α] [LT α] [LE α] [DecidableLT α] [DecidableLE α] {ofnats}\n\n"
        "/-- stats.h `detail::percentile`: the condition of its `assert` -/\n"
        f"def percentileGuard (percentage : α) : Prop := {guard}\n\n"
        "instance (percentage : α) : Decidable (percentileGuard percentage) :=\n"
        f"  inferInstanceAs (Decidable ({guard}))\n\n"
        "/-- stats.h `detail::percentile`: the body after the assert. `ofNat` = `static_cast<double>` of an index, `floor` / `ceil` =\n"
        "    `static_cast<ptrdiff_t>(std::floor / std::ceil(·))`, `from_position` = the caller's accessor (`none`: outside the range) -/\n"
        "def percentileBody (ofNat : Nat → α) (floor ceil : α → Int) (from_position : Int → Option α) (size : Nat)\n"
        "    (percentage : α) : Option α :=\n"
        f"  let position := {pos}\n"
        f"  let lpos := {m.group('lf')} position\n"
        f"  let rpos := {m.group('rf')} position\n"
        "  if lpos = rpos then from_position lpos\n"
        "  else\n"
        "    match from_position lpos, from_position rpos with\n"
        f"    | some lvalue, some rvalue => some ({mid})\n"
        "    | _, _ => none\n\n"
        "end\n\n")


def translate_stats_t():
    hp = os.path.join(vlib.REPO, "include", "nano", "machine", "stats.h")
    hs = _strip(open(hp).read())
    body = _body(hs, r"struct\s+stats_t\s*\{", "struct stats_t (machine/stats.h)")
    fields = re.findall(r"scalar_t\s+(m_[A-Za-z0-9_]+)\s*\{[^}]*\}\s*;", body)
    if _norm(re.sub(r"scalar_t\s+m_[A-Za-z0-9_]+\s*\{[^}]*\}\s*;", "", body)) != "":
        raise Broken("translate", "struct stats_t has members other than `scalar_t m_x{…};`")
    cp = os.path.join(vlib.REPO, "src", "machine", "stats.cpp")
    cs = _strip(open(cp).read())
    lb = _norm(_body(cs, r"stats_t\s+nano::ml::load_stats\s*\([^)]*\)\s*\{", "ml::load_stats"))
    m = re.fullmatch(r"assert\(stats\.size\(\)==(\d+)\);return\{((?:stats\(\d+\),?)+)\};", lb)
    if not m:
        raise Broken("translate", f"ml::load_stats is no longer `assert(size == N); return {{stats(i), …}};`: {lb[:120]}")
    order = [int(k) for k in re.findall(r"stats\((\d+)\)", m.group(2))]
    return fields, int(m.group(1)), order


def translate():
    path = os.path.join(vlib.REPO, "src", "machine", "stats.cpp")
    src = open(path).read()
    m = re.search(r"void\s+nano::ml::store_stats\s*\([^)]*\)\s*\{(.*?)\n\}", src, re.S)
    if not m:
        raise Broken("translate", "store_stats not found in src/machine/stats.cpp")
    body = m.group(1)
    slots = {}
    for k, rhs in re.findall(r"stats\((\d+)\)\s*=\s*(.+?);", body):
        slots[int(k)] = rhs.strip()
    n = len(slots)
    if sorted(slots) != list(range(n)) or n < 4:
        raise Broken("translate", f"store_stats: slots are not 0..{n-1}: {sorted(slots)}")
    expect = {0: r"values\.mean\(\)", 1: r"values\.stdev\(\)", 2: r"static_cast<scalar_t>\(values\.size\(\)\)"}
    for k, pat in expect.items():
        if not re.fullmatch(pat, slots[k]):
            raise Broken("translate", f"store_stats: slot {k} is `{slots[k]}`, the model expects {pat}")
    pcts = []
    for k in range(3, n):
        mm = re.fullmatch(r"::percentile\(values,\s*([0-9.]+)\)", slots[k])
        if not mm:
            raise Broken("translate", f"store_stats: slot {k} is `{slots[k]}`, not ::percentile(values, <number>)")
        v = float(mm.group(1))
        if v != int(v):
            raise Broken("translate", f"store_stats: percentage {v} is not an integer (the generated list is List Nat)")
        pcts.append(int(v))
    hm = re.search(r"auto percentile\(const tensor1d_map_t& values, const double percentage\)\s*\{\s*return ::nano::percentile\("
                   r"std::begin\(values\), std::end\(values\), percentage\);", src)
    if not hm:
        raise Broken("translate", "the local percentile() helper of stats.cpp no longer forwards to nano::percentile")
    fields, nload, order = translate_stats_t()
    named = []
    for f in fields:
        mm = re.fullmatch(r"m_per(\d+)", f)
        if mm:
            named.append(int(mm.group(1)))
    text = ("-- GENERATED by tools/props/c20.py from include/nano/core/stats.h, src/machine/stats.cpp, include/nano/machine/stats.h — do not edit\n"
            "namespace NanoVerif.Gen.Stats\n\n"
            "/-- the percentages of `ml::store_stats`, in the order of the slots `stats(3)`, `stats(4)`, … -/\n"
            f"def storeStatsPercentiles : List Nat := [{', '.join(str(p) for p in pcts)}]\n\n"
            "/-- number of slots written by `ml::store_stats` -/\n"
            f"def storeStatsSlots : Nat := {n}\n\n"
            "/-- the fields of `ml::stats_t` in declaration order -/\n"
            f"def statsFields : List String := [{', '.join(chr(34) + f + chr(34) for f in fields)}]\n\n"
            "/-- the percentages announced by the NAMES of the fields `m_perNN`, in declaration order -/\n"
            f"def statsFieldPercents : List Nat := [{', '.join(str(p) for p in named)}]\n\n"
            "/-- `ml::load_stats`: the asserted size and the slot each field is initialised from, in declaration order -/\n"
            f"def loadStatsSize : Nat := {nload}\n"
            f"def loadStatsOrder : List Nat := [{', '.join(str(k) for k in order)}]\n\n"
            + translate_percentile() +
            "end NanoVerif.Gen.Stats\n")
    vlib.write_if_changed(os.path.join(vlib.LEAN, "NanoVerif", "Gen", "Stats.lean"), text)


# ---------------------------------------------------------------------------------------------------------
# generator

def fl(xs):
    return lst(xs, f2h)


def grid(rng):
    """a percentage on the grid k/8, biased to the ends"""
    c = rng.below(10)
    if c == 0:
        return 0.0
    if c == 1:
        return 100.0
    if c == 2:
        return float(rng.range(0, 100))
    return rng.range(0, 800) / 8.0


def values(rng, n, kind):
    """small integers or dyadic reals (exact in double and in float), with ties and negatives"""
    span = rng.choice([2, 5, 20, 100])
    if kind == "int":
        return [float(rng.range(-span, span)) for _ in range(n)]
    den = rng.choice([2, 4, 8])
    return [rng.range(-span * den, span * den) / den for _ in range(n)]


def queries_for(rng, thr, vals, nq):
    qs = []
    pool = [x for x in list(thr) + list(vals[:8]) if math.isfinite(x)]
    for _ in range(nq):
        base = rng.choice(pool) if pool else 0.0
        c = rng.below(8)
        if c == 0:
            q = base
        elif c == 1:
            q = base + rng.choice([0.25, 0.5, 0.75, 0.125])
        elif c == 2:
            q = base - rng.choice([0.25, 0.5, 0.75, 0.125])
        elif c == 3:
            q = float(math.floor(base))
        elif c == 4:
            q = math.floor(base) + rng.choice([0.7, 0.3, 0.1, 0.9])
        elif c == 5:
            q = rng.choice([-1.0e6, 1.0e6, -1234.5, 1234.5])
        elif c == 6:
            q = math.nextafter(base, rng.choice([-math.inf, math.inf]))
        else:
            q = rng.range(-800, 800) / 8.0
        if rng.below(40) == 0:
            q = rng.choice([math.inf, -math.inf, math.nan])     # non-finite queries
        qs.append(q + 0.0)
    return [0.0 if q == 0 else q for q in qs]


def thresholds_for(rng, vals, k):
    lo, hi = (min(vals), max(vals)) if vals else (-4.0, 4.0)
    ts = []
    for _ in range(k):
        c = rng.below(7)
        if c == 0 and ts:
            t = rng.choice(ts)                       # duplicate
        elif c == 1:
            t = lo - rng.range(0, 16) / 4.0          # at or below the range
        elif c == 2:
            t = hi + rng.range(0, 16) / 4.0          # at or above the range
        elif c == 3 and vals:
            t = rng.choice(vals)                     # on a value
        elif c == 4 and vals:
            t = rng.choice(vals) + rng.choice([0.5, -0.5, 0.25, -0.25])
        else:
            t = lo + (hi - lo) * rng.range(0, 16) / 16.0
        if rng.below(60) == 0:
            t = rng.choice([math.inf, -math.inf])               # non-finite thresholds (NaN: std::sort would be undefined)
        ts.append(0.0 if t == 0 else t)
    return ts


SMALL_SHAPES = [
    [3], [1, 2], [2, 2], [-1, 4], [1, 2, 3], [-3, -3, 5], [0, 0, 0], [1, 2, 3, 4], [-2, -1, -1, 7], [0.5, 1.25, 1.25, 4],
    [1, 2, 3, 4, 5], [-8, -2.5, 0, 0, 16], [1, 2, 3, 4, 5, 6], [-1.5, -1.5, 0.25, 3, 3, 9],
]


def gen(rng, tier):
    ops = []
    cp = os.path.join(vlib.VERIF, "corpus", "C20", "ops.txt")
    if os.path.exists(cp):
        ops += [l.strip() for l in open(cp) if l.strip() and not l.startswith("#")]
    quick = tier != "thorough"

    # exhaustive small: every percentage of the grid on short lists
    tcount = 0
    for xs in SMALL_SHAPES:
        xs = [float(x) for x in xs]
        ints = all(x == int(x) for x in xs)
        for k in range(0, 801):
            if quick and len(xs) > 4 and not rng.chance(0.25):
                continue
            tcount += 1
            ty = TYPES[tcount % 5]
            if ty in "il" and not ints:
                ty = "d"
            kind = "sorted" if tcount % 2 else "unsorted"
            ys = xs if kind == "sorted" else rng.shuffle(xs)
            ops.append(f"stats pct {kind} {ty} {fl(ys)} {f2h(k / 8.0)}")

    # the whole (p, n) grid of positions, p = 0..100, n = 1..500, EXHAUSTIVE in both tiers through the sorted variant (one op per n:
    # the 101 percentages on the list 0..n-1, the answer reveals floor and ceil of the position as the code computed them in
    # double; 50 500 pairs); the unsorted variant on the reversed list for n <= 120 (quick) / every n (thorough); the finer
    # grid k/8 for 40 random n (quick) / every n (thorough)
    for n in range(1, 501):
        ops.append(f"stats grid sorted {TYPES[n % 5]} {n} 1")
        if n <= 120 or not quick:
            ops.append(f"stats grid unsorted {TYPES[(n + 2) % 5]} {n} 1")
        if not quick:
            ops.append(f"stats grid sorted {TYPES[(n + 1) % 5]} {n} 8")
    if quick:
        for _ in range(40):
            ops.append(f"stats grid sorted {rng.choice(TYPES)} {rng.range(1, 500)} 8")
    # make_equidistant_ratios / percentiles
    for bins in range(2, 201 if quick else 1001):
        ops.append(f"stats linspaced ratios {bins}")
        ops.append(f"stats linspaced pcts {bins}")
    # percentile_sorted on unsorted ranges: the positional reading (the precondition is only an assert)
    for it in range(100 if quick else 1000):
        n = rng.range(2, 12)
        xs = values(rng, n, "int")
        ops.append(f"stats pct positional {rng.choice(TYPES)} {fl(xs)} {f2h(grid(rng))}")

    # random percentiles / medians
    nmax = 200 if quick else 500
    for it in range(4000 if quick else 40000):
        n = rng.choice([1, 2, 3, rng.range(1, 12), rng.range(1, 60), rng.range(1, nmax)])
        kind = rng.choice(["int", "dyadic"])
        xs = values(rng, n, kind)
        ty = rng.choice(TYPES if kind == "int" else ["d", "f", "t"])
        c = rng.below(6)
        if c == 0:
            ops.append(f"stats median {ty} {fl(xs)}")
            continue
        p = grid(rng)
        if c == 1 and n > 1:
            # a percentage whose position j is integral: p = 100 j / (n-1) when that is on the grid
            j = rng.range(0, n - 1)
            q = Fraction(100 * j, n - 1)
            if (q * 8).denominator == 1:
                p = float(q)
        if c >= 4:
            ops.append(f"stats pct sorted {ty} {fl(sorted(xs))} {f2h(p)}")
        else:
            ops.append(f"stats pct unsorted {ty} {fl(xs)} {f2h(p)}")

    # histograms
    for it in range(4000 if quick else 40000):
        n = rng.choice([0, 1, 2, rng.range(1, 10), rng.range(1, 40), rng.range(1, 120 if quick else 300)])
        kind = rng.choice(["int", "dyadic"])
        xs = values(rng, n, kind)
        k = rng.choice([1, 2, rng.range(1, 5), rng.range(1, 20)])
        c = rng.below(10)
        nq = rng.range(0, 12)
        if c <= 3 or n == 0:
            thr = thresholds_for(rng, xs, k)
            ops.append(f"stats hist thr {fl(xs)} {fl(thr)} {fl(queries_for(rng, thr, xs, nq))}")
        elif c == 4:
            den = rng.choice([8, 16, 10, 7])
            rs = [rng.range(1, den - 1) / den for _ in range(k)]
            lo, hi = min(xs), max(xs)
            thr = [lo + r * (hi - lo) for r in rs]
            ops.append(f"stats hist ratios {fl(xs)} {fl(rs)} {fl(queries_for(rng, thr, xs, nq))}")
        elif c == 5:
            bins = rng.range(2, 12)
            lo, hi = min(xs), max(xs)
            thr = [lo + (hi - lo) * j / bins for j in range(1, bins)]
            ops.append(f"stats hist eqratios {fl(xs)} {bins} {fl(queries_for(rng, thr, xs, nq))}")
        elif c == 6:
            ps = [rng.choice([rng.range(1, 799) / 8.0, float(rng.range(1, 99))]) for _ in range(k)]
            ops.append(f"stats hist pcts {fl(xs)} {fl(ps)} {fl(queries_for(rng, sorted(xs)[::max(1, n // 6)], xs, nq))}")
        elif c == 7:
            bins = rng.range(2, 12)
            ops.append(f"stats hist eqpcts {fl(xs)} {bins} {fl(queries_for(rng, sorted(xs)[::max(1, n // 6)], xs, nq))}")
        else:
            base = rng.choice([2.0, 10.0, 1.5, 3.0, math.e, 1.1, 7.0, 1.25, 100.0])
            eps = rng.choice([2.0 ** -52, 1e-6, 0.25, 1.0, 3.0])
            scale = rng.choice([1.0, 0.125, 16.0, 1e-3, 1e4, 1.0 / 3.0])
            ys = [x * scale for x in xs]
            pool = [s * base ** e for e in range(-3, 6) for s in (-1.0, 1.0)]
            ops.append(f"stats hist exp {fl(ys)} {f2h(base)} {f2h(eps)} {fl(queries_for(rng, pool, ys, nq))}")

    # store_stats
    for it in range(400 if quick else 4000):
        n = rng.choice([1, 2, rng.range(1, 12), rng.range(1, 101), rng.range(1, nmax)])
        xs = values(rng, n, rng.choice(["int", "dyadic"]))
        ops.append(f"stats store {fl(xs)}")
    return ops


# ---------------------------------------------------------------------------------------------------------
# parsing of ops (shared by the oracle, nontrivial, shrinking)

def parse(op):
    t = Toks(op)
    if t.s() != "stats":
        raise ValueError("family")
    o = t.s()
    d = dict(op=o)
    if o == "pct":
        d.update(kind=t.s(), type=t.s(), vals=t.fs(), p=t.f())
        if not t.done():
            if t.s() != "post":
                raise ValueError("post")
            d["post"] = t.fs()
    elif o == "grid":
        d.update(kind=t.s(), type=t.s(), n=t.int(), den=t.int(), vals=[])
    elif o == "linspaced":
        d.update(kind=t.s(), bins=t.int(), vals=[])
    elif o == "median":
        d.update(type=t.s(), vals=t.fs())
    elif o == "hist":
        d["ctor"] = c = t.s()
        d["vals"] = t.fs()
        if c in ("thr", "ratios", "pcts"):
            d["args"] = t.fs()
        elif c in ("eqratios", "eqpcts"):
            d["bins"] = t.int()
        elif c == "exp":
            d["base"] = t.f(); d["eps"] = t.f()
        else:
            raise ValueError("ctor")
        d["queries"] = t.fs()
        if not t.done():
            if t.s() != "aug":
                raise ValueError("aug")
            d["aug"] = t.fs()
    elif o == "store":
        d["vals"] = t.fs()
    else:
        raise ValueError("op")
    return d


def unparse(d):
    o = d["op"]
    if o == "pct":
        return f"stats pct {d['kind']} {d['type']} {fl(d['vals'])} {f2h(d['p'])}"
    if o == "median":
        return f"stats median {d['type']} {fl(d['vals'])}"
    if o == "store":
        return f"stats store {fl(d['vals'])}"
    if o == "grid":
        return f"stats grid {d['kind']} {d['type']} {d['n']} {d['den']}"
    if o == "linspaced":
        return f"stats linspaced {d['kind']} {d['bins']}"
    c = d["ctor"]
    mid = fl(d["args"]) if c in ("thr", "ratios", "pcts") else (str(d["bins"]) if c in ("eqratios", "eqpcts")
                                                              else f"{f2h(d['base'])} {f2h(d['eps'])}")
    return f"stats hist {c} {fl(d['vals'])} {mid} {fl(d['queries'])}"


def shrink_candidates(op):
    try:
        d = parse(op)
    except Exception:
        return
    d.pop("aug", None)
    d.pop("post", None)
    if d["op"] == "grid":
        # a failing grid line: the single (p, n) pairs as `pct` ops (p = k / den on the list 0 .. n-1)
        n, den = d["n"], d["den"]
        xs = [float(i) for i in range(n)]
        if d["kind"] == "unsorted":
            xs = xs[::-1]
        for k in range(100 * den + 1):
            yield f"stats pct {d['kind']} {d['type']} {fl(xs)} {f2h(k / den)}"
        return
    if d["op"] == "linspaced":
        return
    for key in ("queries", "vals", "args"):
        xs = d.get(key)
        if not xs:
            continue
        minlen = 1 if key in ("vals", "args") and not (key == "vals" and d.get("ctor") == "thr") else 0
        cands = []
        if len(xs) > 3:
            h = len(xs) // 2
            cands += [xs[:h], xs[h:]]
        cands += [xs[:i] + xs[i + 1:] for i in range(len(xs))]
        for c in cands:
            if len(c) < minlen:
                continue
            e = dict(d); e[key] = c
            yield unparse(e)
    # simpler numbers: halve integer-valued entries
    for key in ("vals", "queries", "args"):
        xs = d.get(key)
        if not xs or (key == "args" and d.get("ctor") != "thr"):
            continue
        for i, x in enumerate(xs):
            if abs(x) > 1 and x == int(x):
                zs = list(xs); zs[i] = float(math.trunc(x / 2))
                if d["op"] == "pct" and d.get("kind") == "sorted":
                    zs = sorted(zs)
                if d["op"] == "pct" and d.get("kind") == "positional":
                    continue
                e = dict(d); e[key] = zs
                yield unparse(e)


# ---------------------------------------------------------------------------------------------------------
# the sorted-array reference (the property statement, coded independently of the Lean model)

def ref_percentile(xs_sorted, p):
    """acceptable exact answers: value at position p(n-1)/100 of the sorted list, midpoint of the two neighbours when the
    position is fractional; when the exact position is within 1e-9 of an integer (never on the generated grid) both readings"""
    n = len(xs_sorted)
    q = Fraction(p) * (n - 1) / 100
    l, r = math.floor(q), math.ceil(q)
    a, b = xs_sorted[l], xs_sorted[r]
    acc = [(Fraction(a), abs(a))] if l == r else [((Fraction(a) + Fraction(b)) / 2, max(abs(a), abs(b)))]
    m = round(q)
    if q != m and abs(q - m) < NEAR and 0 <= m < n:
        acc.append((Fraction(xs_sorted[m]), abs(xs_sorted[m])))
    return acc


def nth_monitor(d):
    """run-time monitor of the std::nth_element contract (the oracle `nth` of the model, `NthSpec`): the caller's range after
    the call(s) is a permutation of the input and position k = ceil(p(n-1)/100) (the last call) splits it: everything before
    is <= range[k] <= everything after"""
    post = d.get("post")
    if post is None:
        return "nth-element-contract: the harness did not report the range after the call"
    xs = d["vals"]; n = len(xs)
    if sorted(post) != sorted(xs):
        return f"nth-element-contract: the range after percentile() is not a permutation of the input: {post[:8]}…"
    q = Fraction(d["p"]) * (n - 1) / 100
    cands = {math.ceil(q)}
    m = round(q)
    if abs(q - m) < NEAR:          # position within 1e-9 of an integer: the double computation may land on either side
        cands |= {m, m + 1, m - 1}
    for k in cands:
        if 0 <= k < n and all(x <= post[k] for x in post[:k]) and all(post[k] <= x for x in post[k + 1:]):
            return None
    return f"nth-element-contract: position {sorted(cands)} does not split the range after percentile(): {post[:12]}…"


def matches(got, acc):
    if got != got:
        return False
    g = Fraction(got)
    return any(abs(g - e) <= Fraction(1, 2 ** 51) * Fraction(mag) for e, mag in acc)


def show(acc):
    return "/".join(repr(float(e)) for e, _ in acc)


def isint(x):
    return x == x and abs(x) < 1e15 and x == math.floor(x)


def rule_bins(T, v):
    """the counting rule: all i with T[i-1] <= v < T[i] (sentinels -inf, +inf)"""
    k = len(T)
    return [i for i in range(k + 1) if (i == 0 or T[i - 1] <= v) and (i == k or v < T[i])]


def feq(a, b, rtol, scale=0.0):
    if a != a or b != b:
        return (a != a) and (b != b)
    return a == b or abs(a - b) <= rtol * max(abs(a), abs(b), scale)


def oracle(aug, res):
    d = parse(aug)
    r = Toks(res)
    if r.s() != "ok":
        return f"not-ok: implementation answered {res[:80]}"
    o = d["op"]
    if o == "pct":
        got = r.f()
        if d["kind"] == "positional":
            # percentile_sorted on an unsorted range (precondition violated, assert compiled out): the statement promises nothing;
            # the documented behaviour of the code is the positional reading of the range AS GIVEN (replay of the witness)
            acc = ref_percentile(d["vals"], d["p"])
            if not matches(got, acc):
                return f"percentile-positional: percentile_sorted({d['p']}) on an unsorted range = {got!r}, positional reading {show(acc)}"
            return None
        acc = ref_percentile(sorted(d["vals"]), d["p"])
        if not matches(got, acc):
            return (f"percentile-{d['kind']}: percentile({d['p']}) of {len(d['vals'])} values = {got!r}, sorted-array reference "
                    f"{show(acc)}")
        if d["kind"] == "unsorted":
            why = nth_monitor(d)
            if why:
                return why
        return None
    if o == "grid":
        got = r.fs()
        n, den = d["n"], d["den"]
        if len(got) != 100 * den + 1:
            return f"grid-shape: {len(got)} answers for {100 * den + 1} percentages"
        for k, g in enumerate(got):
            q = Fraction(k, den) * (n - 1) / 100
            l, rr = math.floor(q), math.ceil(q)
            want = Fraction(l + rr, 2)
            if g != g or Fraction(g) != want:
                return (f"percentile-{d['kind']}-grid: n = {n}, p = {k}/{den}: position {float(q)!r} (floor {l}, ceil {rr}), the list "
                        f"0..{n - 1} gives {float(want)!r}, got {g!r}")
        return None
    if o == "linspaced":
        got = r.fs()
        b = d["bins"]; top = 1.0 if d["kind"] == "ratios" else 100.0
        if len(got) != b - 1:
            return f"equidistant-{d['kind']}: {len(got)} values for {b} bins"
        for j, g in enumerate(got):
            if not feq(g, top * (j + 1) / b, 1e-12) or not (0.0 < g < top):
                return f"equidistant-{d['kind']}: element {j} of {b} bins = {g!r}, expected {top * (j + 1) / b!r} inside (0, {top})"
        if any(got[j] >= got[j + 1] for j in range(len(got) - 1)):
            return f"equidistant-{d['kind']}: not strictly increasing for {b} bins"
        return None
    if o == "median":
        a, b = r.f(), r.f()
        acc = ref_percentile(sorted(d["vals"]), 50.0)
        if not matches(a, acc):
            return f"median: median = {a!r}, sorted-array reference {show(acc)}"
        if not matches(b, acc):
            return f"median-sorted: median_sorted = {b!r}, sorted-array reference {show(acc)}"
        return None
    if o == "store":
        if r.t[r.i] == "load-mismatch":
            return "store-load: load_stats(store_stats(values)) does not put slot k into the k-th field of stats_t"
        st = r.fs()
        xs = sorted(d["vals"]); n = len(xs)
        if len(st) != 3 + len(STORE_PCTS):
            return f"store-size: {len(st)} slots"
        if not feq(st[0], math.fsum(xs) / n, 1e-12, max(abs(v) for v in xs)) or st[2] != float(n):
            return f"store-mean-count: mean {st[0]!r} count {st[2]!r} for {n} values with mean {math.fsum(xs) / n!r}"
        # slot 1 as the code documents itself through tensor::variance / stdev: sqrt(sum (x - mean)^2 / (n (n - 1))), 0 for n = 1
        mu = Fraction(sum(Fraction(x) for x in xs), n)
        ss = sum((Fraction(x) - mu) ** 2 for x in xs)
        want_sd = math.sqrt(ss / (n * (n - 1))) if n > 1 else 0.0
        # the one-pass formula cancels: absolute allowance 1e-7 of the magnitude of the data
        if not (abs(st[1] - want_sd) <= 1e-9 * want_sd + 1e-7 * max(abs(v) for v in xs) / max(1.0, math.sqrt(n - 1.0))):
            return f"store-stdev: slot 1 = {st[1]!r} for {n} values, sqrt(sum (x - mean)^2 / (n (n - 1))) = {want_sd!r}"
        for k, p in enumerate(STORE_PCTS):
            acc = ref_percentile(xs, float(p))
            if not matches(st[3 + k], acc):
                return f"store-percentile: slot {3 + k} (p = {p}) = {st[3 + k]!r}, sorted-array reference {show(acc)}"
        return None
    # histograms
    tok = r.s()
    if tok in ("accessor-mismatch",):
        return "hist-accessors: count(b)/mean(b)/median(b) differ from counts()/means()/medians()"
    r.i -= 1
    T = r.fs(); C = r.ints(); M = r.fs(); D = r.fs(); QD = r.ints(); QI = r.ints()
    V = sorted(d["vals"]); n = len(V); c = d["ctor"]
    k = len(T)
    if any(T[i] > T[i + 1] for i in range(k - 1)):
        return f"hist-thresholds: thresholds not ascending: {T}"
    if not (len(C) == len(M) == len(D) == k + 1):
        return f"hist-shape: {k} thresholds but {len(C)}/{len(M)}/{len(D)} bins"
    # where the thresholds come from
    if c == "thr":
        if T != sorted(d["args"]):
            return f"hist-thresholds: {T} is not the sorted threshold list"
    elif c in ("ratios", "eqratios"):
        rs = sorted(d["args"] if c == "ratios" else d["aug"])
        if c == "eqratios":
            b = d["bins"]
            if len(rs) != b - 1 or any(not feq(rs[j], (j + 1) / b, 1e-12) for j in range(b - 1)):
                return f"equidistant-ratios: {rs} for {b} bins"
        want = [V[0] + x * (V[-1] - V[0]) for x in rs]
        if len(T) != len(want) or any(not feq(a, b, 1e-12, max(abs(V[0]), abs(V[-1]))) for a, b in zip(T, sorted(want))):
            return f"ratio-thresholds: {T} != min + ratio*(max-min) = {want}"
    elif c in ("pcts", "eqpcts"):
        ps = sorted(d["args"] if c == "pcts" else d["aug"])
        if c == "eqpcts":
            b = d["bins"]
            if len(ps) != b - 1 or any(not feq(ps[j], 100.0 * (j + 1) / b, 1e-12) for j in range(b - 1)):
                return f"equidistant-percentiles: {ps} for {b} bins"
        if len(T) != len(ps):
            return f"percentile-thresholds: {len(T)} thresholds for {len(ps)} percentiles"
        # T is sorted again by the constructor; percentiles of a sorted list are monotone in p, so the order is kept
        for t, p in zip(T, ps):
            acc = ref_percentile(V, p)
            if not matches(t, acc):
                return f"percentile-thresholds: threshold {t!r} for p = {p!r}, sorted-array reference {show(acc)}"
    elif c == "exp":
        why = check_exponents(d, T, V)
        if why:
            return why
    # the bins partition the values; count / mean / median of each bin are those of its members
    if sum(C) != n:
        return f"hist-partition: counts {C} do not sum to {n}"
    for i in range(k + 1):
        mem = [v for v in V if (i == 0 or T[i - 1] <= v) and (i == k or v < T[i])]
        if C[i] != len(mem):
            return (f"hist-count: bin {i} = [{T[i - 1] if i else '-inf'}, {T[i] if i < k else '+inf'}) holds {len(mem)} values, "
                    f"count says {C[i]}")
        if not mem:
            if M[i] == M[i] or D[i] == D[i]:
                return f"hist-empty-bin: empty bin {i} has mean {M[i]!r} median {D[i]!r} (NaN expected)"
            continue
        if not feq(M[i], math.fsum(mem) / len(mem), 1e-12, max(abs(v) for v in mem)):
            return f"hist-mean: bin {i} mean {M[i]!r}, members' mean {math.fsum(mem) / len(mem)!r}"
        acc = ref_percentile(mem, 50.0)
        if not matches(D[i], acc):
            return f"hist-median: bin {i} median {D[i]!r}, members' median {show(acc)}"
    # bin(v) is the bin the counting rule assigns to v
    qs = d["queries"]
    if len(QD) != len(qs):
        return "hist-shape: number of query answers"
    for q, b in zip(qs, QD):
        if q != q:
            # NaN is not a real: the statement is silent; the code must still answer with a valid bin index (it answers with
            # the last bin: every comparison is false), the exact value is compared with the model
            if not (0 <= b <= k):
                return f"bin-nan-query: bin(NaN) = {b} is not a bin index (0..{k})"
            continue
        want = rule_bins(T, q)
        if want != [b]:
            key = "bin-integer-query" if isint(q) else "bin-noninteger-query"
            return f"{key}: thresholds {T}: bin({q!r}) = {b}, the counting rule assigns bin {want}"
    qi = [q for q in qs if isint(q)]
    if len(QI) != len(qi):
        return "hist-shape: number of integer query answers"
    for q, b in zip(qi, QI):
        want = rule_bins(T, q)
        if want != [b]:
            return f"bin-integer-overload: thresholds {T}: bin({int(q)}) = {b}, the counting rule assigns bin {want}"
    return None


def check_exponents(d, T, V):
    """sanity of make_from_exponents' thresholds (formula itself not modelled): every threshold is +-base^e with integer e,
    negative ones first with decreasing e, positive ones with increasing e, contiguous, and they cover the (clamped) values"""
    base, eps = d["base"], d["eps"]
    lb = math.log(base)
    neg = [t for t in T if t < 0]; pos = [t for t in T if t > 0]
    if len(neg) + len(pos) != len(T):
        return f"exp-thresholds: zero threshold in {T}"
    def exps(ts):
        es = []
        for t in ts:
            e = round(math.log(abs(t)) / lb)
            if not feq(abs(t), base ** e, 1e-9):
                return None
            es.append(e)
        return es
    en, ep = exps(neg), exps(pos)
    if en is None or ep is None:
        return f"exp-thresholds: a threshold of {T} is not +-{base}^e"
    if any(en[i] - 1 != en[i + 1] for i in range(len(en) - 1)) or any(ep[i] + 1 != ep[i + 1] for i in range(len(ep) - 1)):
        return f"exp-thresholds: exponents not contiguous: {en} {ep}"
    has_neg = any(v < 0 for v in V); has_pos = any(v >= 0 for v in V)
    if has_neg != bool(neg) or has_pos != bool(pos):
        return f"exp-thresholds: signs of thresholds {T} do not match the signs of the values"
    tol = 1e-9
    if pos:
        pv = [max(v, eps) for v in V if v >= 0]
        if not (pos[0] <= min(pv) * (1 + tol) and min(pv) < pos[0] * base * (1 + tol)):
            return f"exp-thresholds: smallest positive threshold {pos[0]} vs smallest value {min(pv)}"
        if not (pos[-1] <= max(pv) * (1 + tol) and max(pv) < pos[-1] * base * (1 + tol)):
            return f"exp-thresholds: largest positive threshold {pos[-1]} vs largest value {max(pv)}"
    if neg:
        nv = [max(-v, eps) for v in V if v < 0]
        if not (-neg[-1] <= min(nv) * (1 + tol) and min(nv) < -neg[-1] * base * (1 + tol)):
            return f"exp-thresholds: smallest negative threshold {neg[-1]} vs {min(nv)}"
        if not (-neg[0] <= max(nv) * (1 + tol) and max(nv) < -neg[0] * base * (1 + tol)):
            return f"exp-thresholds: largest negative threshold {neg[0]} vs {max(nv)}"
    return None


# ---------------------------------------------------------------------------------------------------------

def compare(aug, impl, model):
    """bit-exact, except mean (rtol 1e-12) and stdev (rtol 1e-9) of store_stats (Eigen reductions may re-associate)"""
    if impl == model:
        return True
    t = aug.split()
    if len(t) > 1 and t[1] == "store":
        a, b = impl.split(), model.split()
        if len(a) != len(b) or len(a) < 4:
            return False
        for i, (x, y) in enumerate(zip(a, b)):
            if x == y:
                continue
            if i in (2, 3) and vlib.is_hexf(x) and vlib.is_hexf(y):
                if not vlib.close(h2f(x), h2f(y), 1e-12 if i == 2 else 1e-9, 1e-12):
                    return False
            else:
                return False
        return True
    return False


RTOL = 0.0  # see compare(): only store_stats' mean (1e-12) / stdev (1e-9) carry a tolerance


def nontrivial(op):
    try:
        d = parse(op)
    except Exception:
        return False
    xs = d["vals"]
    if len(set(xs)) < 2:
        return False
    n = len(xs)
    if d["op"] == "pct":
        return (Fraction(d["p"]) * (n - 1) / 100).denominator != 1
    if d["op"] == "median":
        return n % 2 == 0
    if d["op"] == "store":
        return True
    if d["ctor"] == "thr":
        return any(min(xs) < t <= max(xs) for t in d["args"])
    return True


def distribution(ops):
    dist = {}
    for op in ops:
        t = op.split()
        k = t[1] + ("/" + t[2] if t[1] in ("pct", "hist") else "")
        dist[k] = dist.get(k, 0) + 1
        if t[1] == "hist":
            try:
                d = parse(op)
                ni = sum(1 for q in d["queries"] if not isint(q))
                dist["hist-queries-noninteger"] = dist.get("hist-queries-noninteger", 0) + ni
                dist["hist-queries-integer"] = dist.get("hist-queries-integer", 0) + len(d["queries"]) - ni
            except Exception:
                pass
    return dist


def classify(op, kind, detail):
    if kind == "oracle" and ":" in detail:
        return detail.split(":")[0]
    t = op.split()
    what = t[1] + ("-" + t[2] if len(t) > 2 and t[1] in ("pct", "hist") else "") if len(t) > 1 else "?"
    return f"{kind}-{what}"
