"""C05: C++ -> Lean translator for the penalty kernels and the scalar logic of the penalty / augmented-Lagrangian solvers
(DESIGN.md §2.3.a; tools/WORKER.md "Translation rounds").

Extracts, *by function name* from the current source text of the repository under check (vlib.REPO),

  Gen/PenaltyKernels.lean  <-  src/function/penalty.cpp
      ::penalty_vgrad                              the guard `eq || fc > 0.0` under which a constraint contributes
      linear_penalty_function_t::do_vgrad          value `penalty * |fc|`, gradient factor `penalty * (fc >= 0 ? +1 : -1)`
      quadratic_penalty_function_t::do_vgrad       value `penalty * fc * fc`, gradient factor `penalty * 2 * fc`
      augmented_lagrangian_function_t::do_vgrad    guard `eq || fc + mu/ro > 0`, value `0.5 * ro * (fc + mu/ro)^2`, factor `ro * (fc + mu/ro)`,
                                                   which multiplier vector an equality / inequality consumes
  Gen/AugLagStep.lean      <-  src/solver/augmented.cpp, src/solver/penalty.cpp, src/solver.cpp
      ::make_ro1                                   element map `max(g, 0)`, the scalar formula with its `std::max(…, 1e-6)`, `std::clamp`, the defaults
      ::make_criterion                             element maps under the two `lpNorm<Infinity>`, `std::max(hinf, Vinf)`
      solver_augmented_lagrangian_t::do_minimize   initial multipliers, `converged`, the guard of the best-state update, the `ro` update rule,
                                                   the multiplier updates `(lambda + ro h).max(lo).min(hi)`, `(miu + ro g).max(0).min(miu_max)`
      solver_penalty_t::minimize                   the `!iter_ok` branch, `converged`, the penalty growth rule
      solver_t::more_precise                       the epsilon schedule

Statement shapes are matched, in order, on the whitespace-normalised text (names of locals are captured, not fixed); scalar / boolean
expressions are parsed by the recursive-descent parser of tools/props/c01_translate.py (extended here by `std::clamp`, Eigen's
array `.max(e)` / `.min(e)`, and the proposition form of `c ? a : b`). Anything that does not have the expected shape raises
vlib.Broken("translate", …): the obligations `model_…_is_generated` then count as broken. Nothing is guessed.
"""
import os, re
import vlib
from props import c01_translate as T

TranslateError = T.TranslateError
OUT_K = os.path.join(vlib.LEAN, "NanoVerif", "Gen", "PenaltyKernels.lean")
OUT_S = os.path.join(vlib.LEAN, "NanoVerif", "Gen", "AugLagStep.lean")

PEN_CPP = "src/function/penalty.cpp"
AUG_CPP = "src/solver/augmented.cpp"
PSOL_CPP = "src/solver/penalty.cpp"
SOLVER_CPP = "src/solver.cpp"

PARENS = r"(?:[^()]|\((?:[^()]|\((?:[^()]|\([^()]*\))*\))*\))*"


def norm(s):
    """one blank between words, none around punctuation"""
    s = " ".join(s.split())
    return re.sub(r"\s*([^\w\s])\s*", r"\1", s)


def clean(body):
    """asserts and trace hooks take no part in the translated logic"""
    body = re.sub(r"\bassert\s*\(" + PARENS + r"\)\s*;", "", body)
    body = re.sub(r"\bNANO_VERIF_TRACE\s*\(" + PARENS + r"\)\s*;", "", body)
    return norm(body)


class Cur:
    """sequential matcher over normalised text"""

    def __init__(self, text, what):
        self.s = text; self.i = 0; self.what = what

    def fail(self, desc):
        raise TranslateError(f"{self.what}: expected {desc} at: `{self.s[self.i:self.i + 110]}`")

    def take(self, pattern, desc):
        m = re.compile(pattern).match(self.s, self.i)
        if not m:
            self.fail(desc)
        self.i = m.end()
        return m

    def maybe(self, pattern):
        m = re.compile(pattern).match(self.s, self.i)
        if m:
            self.i = m.end()
        return m

    def group(self, open_="(", close=")"):
        """the text of the bracketed group starting at the cursor"""
        if self.s[self.i:self.i + 1] != open_:
            self.fail(f"`{open_}`")
        inner = T.balanced(self.s, self.i + 1, self.what, open_, close)
        self.i += len(inner) + 2
        return inner

    def end(self):
        if self.s[self.i:].strip():
            self.fail("the end of the fragment")


# ---------------------------------------------------------------------------------------------------------------------
# expressions

def eigen_to_scalar(text):
    """element-wise reading of an Eigen array expression: `.array()` / `.matrix()` dropped, `R.max(e)` -> `std::max(R,e)`, same for min
    (Eigen's scalar_max_op is std::max on the coefficients)"""
    t = text.replace(".array()", "").replace(".matrix()", "")
    while True:
        m = re.search(r"\.(max|min)\(", t)
        if not m:
            return t
        # receiver: scan back over a balanced `(...)` suffix and the identifier chain before it
        j = m.start()
        k = j
        while k > 0:
            if t[k - 1] == ")":
                depth = 0
                while k > 0:
                    k -= 1
                    depth += (t[k] == ")") - (t[k] == "(")
                    if depth == 0:
                        break
                if depth != 0:
                    raise TranslateError("unbalanced receiver of ." + m.group(1) + " in " + text)
            elif re.match(r"[\w:.]", t[k - 1]):
                k -= 1
            else:
                break
        recv = t[k:j]
        if not recv:
            raise TranslateError("no receiver for ." + m.group(1) + " in " + text)
        arg = T.balanced(t, m.end(), text, "(", ")")
        t = t[:k] + f"std::{m.group(1)}({recv},{arg})" + t[m.end() + len(arg) + 1:]


def paren_balanced(s):
    d = 0
    for c in s:
        d += (c == "(") - (c == ")")
        if d < 0:
            return False
    return d == 0


class Parser(T.Parser):
    def ternary(self):
        c = self.orx()
        if self.peek()[1] == "?":
            self.eat()
            a = self.ternary(); self.eat(":"); b = self.ternary()
            if a[0] != b[0]:
                self.fail(f"branches of ?: have kinds {a[0]} / {b[0]}")
            cond = self.want(c, "bool")
            m = re.fullmatch(r"decide \((.*)\)", cond)
            if m and paren_balanced(m.group(1)):
                cond = m.group(1)      # a pure comparison is used as a proposition
            return (a[0], f"(if {cond} then {a[1]} else {b[1]})")
        return c

    def primary(self):
        k = self.peek()
        if k[0] == "id" and k[1] == "std::clamp":
            self.eat(); self.eat("(")
            v = self.want(self.ternary(), "scal"); self.eat(",")
            lo = self.want(self.ternary(), "scal"); self.eat(",")
            hi = self.want(self.ternary(), "scal"); self.eat(")")
            # [alg.clamp]: `comp(v, lo) ? lo : comp(hi, v) ? hi : v`
            return ("scal", f"(if {v} < {lo} then {lo} else if {hi} < {v} then {hi} else {v})")
        return super().primary()


def expr(text, bind, what, kind):
    text = re.sub(r"(?<![\w:])::nano::", "nano::", text)   # the tokenizer has no leading `::`
    e = Parser(text, bind, what).parse()
    if e[0] != kind:
        raise TranslateError(f"{what}: expected a {kind} expression, got {e[0]}: {text}")
    return e[1]


GCMARK = "GC§"


def factor_of(text, bind, gc, what):
    """`gx += F * gc;` -> F (a scalar expression in which gc does not occur)"""
    b = dict(bind); b[gc] = ("scal", GCMARK)
    e = expr(text, b, what, "scal")
    if not (e.startswith("(") and e.endswith(f" * {GCMARK})")):
        raise TranslateError(f"{what}: the gradient update is not of the form `gx += <scalar> * {gc}`: {text}")
    f = e[1:-len(f" * {GCMARK})")]
    if GCMARK in f:
        raise TranslateError(f"{what}: {gc} occurs in the scalar factor: {text}")
    return f


SCAL = lambda v: ("scal", v)
BOOL = lambda v: ("bool", v)
ID = r"([A-Za-z_]\w*)"
E = r"([^;{}]+)"


# ---------------------------------------------------------------------------------------------------------------------
# Gen/PenaltyKernels.lean

def gen_penalty_vgrad(src):
    what = "::penalty_vgrad"
    body, _ = T.body_of(src, "penalty_vgrad", PEN_CPP)
    c = Cur(clean(body), what)
    fx = c.take(r"auto " + ID + r"=function\.vgrad\(x,gx\);", "`auto fx = function.vgrad(x, gx);`").group(1)
    con = c.take(r"for\(const auto&" + ID + r":function\.constraints\(\)\)", "the loop over function.constraints()").group(1)
    loop = Cur(c.group("{", "}"), what)
    c.take(r"return " + re.escape(fx) + ";", f"`return {fx};`"); c.end()
    gc = loop.take(r"auto " + ID + r"=vector_t\{gx\.size\(\)\};", "`auto gc = vector_t{gx.size()};`").group(1)
    fc = loop.take(r"const auto " + ID + r"=::nano::vgrad\(" + con + ",x," + gc + r"\);", "`const auto fc = ::nano::vgrad(constraint, x, gc);`").group(1)
    eq = loop.take(r"const auto " + ID + r"=is_equality\(" + con + r"\);", "`const auto eq = is_equality(constraint);`").group(1)
    loop.take(r"if", "`if (…)`")
    cond = loop.group()
    blk = Cur(loop.group("{", "}"), what); loop.end()
    blk.take(re.escape(fx) + r"\+=op\(" + fc + "," + gc + r"\);", "`fx += op(fc, gc);`"); blk.end()
    lean = expr(cond, {eq: BOOL("eq"), fc: SCAL("fc")}, what + " guard", "bool")
    return (f"/-- `{what}` ({PEN_CPP}): the constraint with `fc = vgrad(constraint, x, gc)`, `eq = is_equality(constraint)` contributes "
            f"`op(fc, gc)` iff `{cond}` -/\ndef penaltyActive (eq : Bool) (fc : α) : Bool := {lean}\n")


def gen_penalty_op(src, cls, prefix):
    what = cls + "::do_vgrad"
    body, _ = T.body_of(src, what, PEN_CPP)
    c = Cur(clean(body), what)
    m = c.take(r"const auto " + ID + r"=\[&\]\(const scalar_t " + ID + r",const vector_t&" + ID + r"\)", "the lambda `op = [&](const scalar_t fc, const vector_t& gc)`")
    op, fc, gc = m.groups()
    lam = Cur(c.group("{", "}"), what)
    c.take(r";return penalty_vgrad\(function\(\),x,gx," + op + r"\);", "`return penalty_vgrad(function(), x, gx, op);`"); c.end()
    lam.take(r"if\(gx\.size\(\)==x\.size\(\)\)", "the guard `if (gx.size() == x.size())` of the gradient update")
    upd = Cur(lam.group("{", "}"), what)
    ftext = upd.take(r"gx\+=" + E + ";", "`gx += … * gc;`").group(1); upd.end()
    vtext = lam.take(r"return " + E + ";", "`return …;`").group(1); lam.end()
    bind = {fc: SCAL("fc"), "penalty()": SCAL("c")}
    f = factor_of(ftext, bind, gc, what)
    v = expr(vtext, bind, what + " value", "scal")
    return (f"/-- `{what}` ({PEN_CPP}): the lambda returns `{vtext}` (c = `penalty()`) -/\n"
            f"def {prefix}Value (c fc : α) : α := {v}\n\n"
            f"/-- `{what}`: `gx += {ftext};` under `gx.size() == x.size()`: the scalar factor of `{gc}` -/\n"
            f"def {prefix}Factor (c fc : α) : α := {f}\n")


def gen_al_vgrad(src):
    what = "augmented_lagrangian_function_t::do_vgrad"
    body, _ = T.body_of(src, what, PEN_CPP)
    c = Cur(clean(body), what)
    fx = c.take(r"auto " + ID + r"=function\(\)\.vgrad\(x,gx\);", "`auto fx = function().vgrad(x, gx);`").group(1)
    counters = []
    while True:
        m = c.maybe(r"auto " + ID + r"=tensor_size_t\{0\};")
        if not m:
            break
        counters.append(m.group(1))
    con = c.take(r"for\(const auto&" + ID + r":constraints\(\)\)", "the loop over constraints()").group(1)
    loop = Cur(c.group("{", "}"), what)
    c.take(r"return " + re.escape(fx) + ";", f"`return {fx};`"); c.end()
    # the declarations of the loop body, in any order, under any names
    decl = {}
    while True:
        m = loop.maybe(r"(?:const )?auto " + ID + r"=((?:[^;{}]|\{[^;{}]*\})+);")
        if not m:
            break
        decl[m.group(1)] = m.group(2)
    role = {}
    for n, rhs in decl.items():
        if rhs == "vector_t{gx.size()}":
            role["gc"] = n
        elif rhs == "penalty()":
            role["ro"] = n
        elif rhs == f"is_equality({con})":
            role["eq"] = n
    for n, rhs in decl.items():
        if n in role.values():
            continue
        if "gc" in role and rhs == f"::nano::vgrad({con},x,{role['gc']})":
            role["fc"] = n
            continue
        m = re.fullmatch(ID + r"\?m_lambda\(" + ID + r"\+\+\):m_miu\(" + ID + r"\+\+\)", rhs)
        if m and "eq" in role and m.group(1) == role["eq"] and m.group(2) != m.group(3) and {m.group(2), m.group(3)} == set(counters):
            role["mu"] = n
            continue
        raise TranslateError(f"{what}: declaration not translated: `auto {n} = {rhs};`")
    for r in ("gc", "ro", "eq", "fc", "mu"):
        if r not in role:
            raise TranslateError(f"{what}: the loop body lacks the declaration of `{r}` "
                                 "(gc = vector_t{gx.size()}, ro = penalty(), fc = ::nano::vgrad(constraint, x, gc), eq = is_equality(constraint), "
                                 "mu = eq ? m_lambda(i++) : m_miu(j++))")
    loop.take(r"if", "`if (…)`")
    cond = loop.group()
    blk = Cur(loop.group("{", "}"), what); loop.end()
    vtext = blk.take(re.escape(fx) + r"\+=" + E + ";", "`fx += …;`").group(1)
    blk.take(r"if\(gx\.size\(\)==x\.size\(\)\)", "the guard `if (gx.size() == x.size())` of the gradient update")
    upd = Cur(blk.group("{", "}"), what); blk.end()
    ftext = upd.take(r"gx\+=" + E + ";", "`gx += … * gc;`").group(1); upd.end()
    bind = {role["ro"]: SCAL("ro"), role["fc"]: SCAL("fc"), role["mu"]: SCAL("mu")}
    g = expr(cond, dict(bind, **{role["eq"]: BOOL("eq")}), what + " guard", "bool")
    v = expr(vtext, bind, what + " value", "scal")
    f = factor_of(ftext, bind, role["gc"], what)
    return (f"/-- `{what}` ({PEN_CPP}): with `ro = penalty()`, `mu = {decl[role['mu']]}` (equalities consume `m_lambda`, inequalities `m_miu`, "
            f"in order), the constraint contributes iff `{cond}` -/\n"
            f"def alActive (eq : Bool) (ro fc mu : α) : Bool := {g}\n\n"
            f"/-- `{what}`: `fx += {vtext};` -/\ndef alValue (ro fc mu : α) : α := {v}\n\n"
            f"/-- `{what}`: `gx += {ftext};` under `gx.size() == x.size()`: the scalar factor of `{role['gc']}` -/\n"
            f"def alFactor (ro fc mu : α) : α := {f}\n")


VARS3 = ("variable {α : Type} [Add α] [Sub α] [Mul α] [Div α] [Neg α] [LT α] [LE α] [DecidableLT α] [DecidableLE α]\n"
         "  [OfNat α 0] [OfNat α 1] [OfNat α 2]\n")

HEADER_K = f"""-- GENERATED by tools/props/c05.py (c05_translate.py) from {PEN_CPP} — do not edit
import NanoVerif.Model.Constraint
/-!
  The per-constraint kernels of libnano's penalty functions, re-translated from the C++ source text on every check
  (DESIGN.md §2.3.a). Core Lean only. Scalar-generic like `Model/Penalty.lean` (same classes): run at `Float` inside `driver_c05`
  through the model (`Proofs/PenaltyGen.lean`: `model_…_is_generated`), proved over ordered fields (Props/C05.lean).

  `std::fabs` ↦ `absv` (Model/Constraint.lean), `a > b` ↦ `decide (a > b)`, `c ? a : b` ↦ `if c then a else b`, numeric literals through
  `OfNat` and `/` only (`2.0` ↦ `(2 : α)`, `0.5` ↦ `((1 : α) / (2 : α))`). In `gx += F * gc` the definition is the scalar factor `F`.
-/
namespace NanoVerif.Gen.PenaltyKernels
open NanoVerif.Constraint
set_option linter.unusedVariables false
section
{VARS3}
"""


def generate_kernels(repo):
    src = T.read(repo, PEN_CPP)
    out = [HEADER_K,
           gen_penalty_vgrad(src),
           gen_penalty_op(src, "linear_penalty_function_t", "linear"),
           gen_penalty_op(src, "quadratic_penalty_function_t", "quadratic"),
           gen_al_vgrad(src),
           "end\nend NanoVerif.Gen.PenaltyKernels\n"]
    return "\n".join(out)


# ---------------------------------------------------------------------------------------------------------------------
# Gen/AugLagStep.lean

INF = ".lpNorm<Eigen::Infinity>()"


def gen_make_ro1(src):
    what = "::make_ro1"
    m = re.search(r"\bmake_ro1\s*\(\s*const\s+solver_state_t\s*&\s*state\s*,\s*const\s+scalar_t\s+(\w+)\s*=\s*([-+.\deE]+)\s*,"
                  r"\s*const\s+scalar_t\s+(\w+)\s*=\s*([-+.\deE]+)\s*\)\s*\{", src)
    if not m:
        raise TranslateError(f"{what}: signature `make_ro1(const solver_state_t& state, const scalar_t ro_min = …, const scalar_t ro_max = …)` not found")
    lo, lo_def, hi, hi_def = m.groups()
    c = Cur(clean(T.balanced(src, m.end(), what)), what)
    bind = {lo: SCAL("roMin"), hi: SCAL("roMax")}
    vec = {}          # C++ name of a vector -> role
    elem = None
    lets = []
    while True:
        d = c.maybe(r"const auto(?: |&)" + ID + "=" + E + ";")
        if not d:
            break
        n, rhs = d.groups()
        if rhs == "state.fx()":
            bind[n] = SCAL("f")
        elif rhs == "state.ceq()":
            vec[n] = "h"
        elif rhs == "state.cineq()":
            vec[n] = "g"
        elif ".array()" in rhs:
            # an element-wise image of the inequalities
            gname = [k for k, r in vec.items() if r == "g"]
            if not gname or elem is not None:
                raise TranslateError(f"{what}: array expression not translated: {rhs}")
            elem = (n, rhs, expr(eigen_to_scalar(rhs), {gname[0]: SCAL("g")}, what + " element map", "scal"))
            vec[n] = "G"
        else:
            for k, r in vec.items():
                bind[f"{k}.dot({k})"] = SCAL({"h": "hh", "g": "gg", "G": "GG"}[r])
            lets.append((n, rhs, expr(rhs, bind, what, "scal")))
            bind[n] = SCAL(n)
    for k, r in vec.items():
        bind[f"{k}.dot({k})"] = SCAL({"h": "hh", "g": "gg", "G": "GG"}[r])
    rtext = c.take(r"return " + E + ";", "`return …;`").group(1); c.end()
    if elem is None:
        raise TranslateError(f"{what}: the element-wise image `g.array().max(0.0)` was not found")
    ret = expr(rtext, bind, what, "scal")
    if "gg" in ret or any("gg" in l[2] for l in lets):
        raise TranslateError(f"{what}: the formula uses g.dot(g) of the raw inequalities — not translated")
    body = "".join(f"  let {n} := {e}\n" for n, _, e in lets) + f"  {ret}\n"
    quoted = " ".join(f"const auto {n} = {r};" for n, r, _ in lets) + f" return {rtext};"
    return (f"/-- `{what}` ({AUG_CPP}): `const auto {elem[0]} = {elem[1]};` element by element -/\n"
            f"def ro1Elem (g : α) : α := {elem[2]}\n\n"
            f"/-- `{what}`: `{quoted}` with `f = state.fx()`, `hh = h.dot(h)`, `GG = {elem[0]}.dot({elem[0]})` -/\n"
            f"def makeRo1 (f hh GG roMin roMax : α) : α :=\n{body}\n"
            f"/-- `{what}`: the default arguments `{lo} = {lo_def}`, `{hi} = {hi_def}` (the only call passes none) -/\n"
            f"def makeRo1Default (f hh GG : α) : α := makeRo1 f hh GG {T.lean_number(lo_def)} {T.lean_number(hi_def)}\n")


def gen_make_criterion(src):
    what = "::make_criterion"
    m = re.search(r"\bmake_criterion\s*\(\s*const\s+solver_state_t\s*&\s*state\s*,\s*const\s+vector_t\s*&\s*(\w+)\s*,\s*const\s+scalar_t\s+(\w+)\s*\)\s*\{", src)
    if not m:
        raise TranslateError(f"{what}: signature `make_criterion(const solver_state_t& state, const vector_t& miu, const scalar_t ro)` not found")
    miu, ro = m.groups()
    c = Cur(clean(T.balanced(src, m.end(), what)), what)
    norms = {}
    bind = {}
    while True:
        d = c.maybe(r"const auto " + ID + "=" + E + ";")
        if not d:
            break
        n, rhs = d.groups()
        if not rhs.endswith(INF):
            raise TranslateError(f"{what}: declaration not translated (expected `….lpNorm<Eigen::Infinity>()`): {rhs}")
        arr = rhs[:-len(INF)]
        uses_h, uses_g = "state.ceq()" in arr, "state.cineq()" in arr
        if uses_h == uses_g:
            raise TranslateError(f"{what}: cannot tell whether `{arr}` ranges over the equalities or the inequalities")
        e = expr(eigen_to_scalar(arr), {"state.ceq()": SCAL("h"), "state.cineq()": SCAL("g"), miu: SCAL("m"), ro: SCAL("ro")}, what, "scal")
        key = "eq" if uses_h else "ineq"
        if key in norms:
            raise TranslateError(f"{what}: two norms over the same constraint vector")
        norms[key] = (n, arr, e)
        bind[n] = SCAL("hinf" if uses_h else "vinf")
    rtext = c.take(r"return " + E + ";", "`return …;`").group(1); c.end()
    if set(norms) != {"eq", "ineq"}:
        raise TranslateError(f"{what}: expected one infinity norm over the equalities and one over the inequalities")
    ret = expr(rtext, bind, what, "scal")
    return (f"/-- `{what}` ({AUG_CPP}): `{norms['eq'][0]} = ({norms['eq'][1]}){INF}`: the element under the norm -/\n"
            f"def criterionEqElem (h : α) : α := {norms['eq'][2]}\n\n"
            f"/-- `{what}`: `{norms['ineq'][0]} = ({norms['ineq'][1]}){INF}`: the element under the norm (g = cineq(i), m = miu(i)) -/\n"
            f"def criterionIneqElem (g m ro : α) : α := {norms['ineq'][2]}\n\n"
            f"/-- `{what}`: `return {rtext};` -/\ndef criterionOf (hinf vinf : α) : α := {ret}\n")


def outer_loop(body, what):
    """(text before the `for (tensor_size_t outer = 0; outer < max_outers; ++outer)` loop, loop body, text after)"""
    m = re.search(r"for\(tensor_size_t (\w+)=0;\1<max_outers;\+\+\1\)\{", body)
    if not m:
        raise TranslateError(f"{what}: the loop `for (tensor_size_t outer = 0; outer < max_outers; ++outer)` was not found")
    inner = T.balanced(body, m.end(), what)
    return body[:m.start()], inner, body[m.end() + len(inner) + 1:], m.group(1)


def gen_al_minimize(src):
    what = "solver_augmented_lagrangian_t::do_minimize"
    body, _ = T.body_of(src, what, AUG_CPP)
    pre, loop, post, outer = outer_loop(clean(body), what)
    # before the loop: the initial multipliers and criterion
    m = re.search(r"auto bstate=solver_state_t\{function,x0\};auto ro=make_ro1\(bstate\);"
                  r"auto lambda=make_full_vector<scalar_t>\(bstate\.ceq\(\)\.size\(\)," + E + r"\);"
                  r"auto miu=make_full_vector<scalar_t>\(bstate\.cineq\(\)\.size\(\)," + E + r"\);"
                  r"auto old_criterion=make_criterion\(bstate,miu,ro\);"
                  r"auto penalty_function=augmented_lagrangian_function_t\{function,lambda,miu\};"
                  r"auto solver=make_solver\(penalty_function,epsilon0,max_evals\);$", pre)
    if not m:
        raise TranslateError(f"{what}: the initialisation before the loop (bstate, ro = make_ro1(bstate), lambda, miu = make_full_vector(…), "
                             f"old_criterion = make_criterion(bstate, miu, ro), penalty_function, solver) does not have the expected shape: `{pre[-300:]}`")
    lam0_text = m.group(1)
    lam0 = expr(m.group(1), {}, what + " lambda0", "scal")
    miu0 = expr(m.group(2), {}, what + " miu0", "scal")
    if not re.fullmatch(r"return bstate;", post):
        raise TranslateError(f"{what}: expected `return bstate;` after the loop, got `{post[:120]}`")
    c = Cur(loop, what)
    c.take(r"penalty_function\.penalty\(ro\);", "`penalty_function.penalty(ro);`")
    cs = c.take(r"const auto " + ID + r"=solver->minimize\(penalty_function,bstate\.x\(\),logger\);", "the inner solve started at bstate.x()").group(1)
    ok = c.take(r"const auto " + ID + "=" + cs + r"\.valid\(\);", "`const auto iter_ok = cstate.valid();`").group(1)
    crit = c.take(r"const auto " + ID + r"=make_criterion\(" + cs + r",miu,ro\);", "`const auto criterion = make_criterion(cstate, miu, ro);`").group(1)
    m = c.take(r"const auto " + ID + "=" + E + ";", "`const auto converged = …;`")
    conv, conv_text = m.groups()
    xconv_call = f"nano::converged(bstate,{cs},epsilon)"
    bind = {ok: BOOL("iterOk"), crit: SCAL("crit"), "epsilon": SCAL("eps"), "old_criterion": SCAL("oldCrit"), xconv_call: BOOL("xconv"),
            "tau": SCAL("tau"), "gamma": SCAL("gamma"), "ro": SCAL("ro")}
    l_conv = expr(conv_text, bind, what + " converged", "bool")
    c.take(r"if", "`if (…)`")
    imp_text = c.group()
    blk = Cur(c.group("{", "}"), what)
    blk.take(r"bstate\.update\(" + cs + r"\.x\(\),lambda,miu\);solver->more_precise\(epsilonK\);",
             "`bstate.update(cstate.x(), lambda, miu); solver->more_precise(epsilonK);`"); blk.end()
    l_imp = expr(imp_text, bind, what + " best-state guard", "bool")
    c.take(r"if\(done\(bstate," + ok + "," + conv + r",logger\)\)\{break;\}", "`if (done(bstate, iter_ok, converged, logger)) { break; }`")
    oldro = c.take(r"const auto " + ID + "=ro;", "`const auto old_ro = ro;`").group(1)
    c.take(r"if", "`if (…)`")
    ro_cond = c.group()
    blk = Cur(c.group("{", "}"), what)
    ro_new = blk.take(r"ro=" + E + ";", "`ro = …;`").group(1); blk.end()
    b2 = dict(bind); b2[outer + "_positive"] = BOOL("decide (0 < outer)")
    ro_cond_n, n = re.subn(r"\b" + outer + r">0(?![\w.])", outer + "_positive", ro_cond)
    l_rocond = expr(ro_cond_n, b2, what + " ro guard", "bool")
    l_ronew = expr(ro_new, bind, what + " ro update", "scal")
    oc = c.take(r"old_criterion=" + E + ";", "`old_criterion = criterion;`").group(1)
    l_oc = expr(oc, bind, what + " old_criterion", "scal")
    b3 = {"lambda": SCAL("l"), "miu": SCAL("m"), oldro: SCAL("oldRo"), cs + ".ceq()": SCAL("h"), cs + ".cineq()": SCAL("g"),
          "lambda_min": SCAL("lambdaMin"), "lambda_max": SCAL("lambdaMax"), "miu_max": SCAL("miuMax")}
    lt = c.take(r"lambda\.array\(\)=" + E + ";", "`lambda.array() = …;`").group(1)
    mt = c.take(r"miu\.array\(\)=" + E + ";", "`miu.array() = …;`").group(1); c.end()
    l_l = expr(eigen_to_scalar(lt), b3, what + " lambda update", "scal")
    l_m = expr(eigen_to_scalar(mt), b3, what + " miu update", "scal")
    return (f"/-- `{what}` ({AUG_CPP}): the initial value of every `lambda(j)` (`make_full_vector<scalar_t>(bstate.ceq().size(), {lam0_text})`) -/\n"
            f"def lambdaInit : α := {lam0}\n\n"
            f"/-- `{what}`: the initial value of every `miu(i)` -/\ndef miuInit : α := {miu0}\n\n"
            f"/-- `{what}`: `const auto {conv} = {conv_text};` with `crit = make_criterion(cstate, miu, ro)`, `xconv = {xconv_call}` -/\n"
            f"def alConverged (iterOk : Bool) (crit eps : α) (xconv : Bool) : Bool := {l_conv}\n\n"
            f"/-- `{what}`: the guard `{imp_text}` of `bstate.update(cstate.x(), lambda, miu); solver->more_precise(epsilonK);` -/\n"
            f"def alImproved (iterOk : Bool) (crit oldCrit : α) : Bool := {l_imp}\n\n"
            f"/-- `{what}`: after `done(…)` returned false: `if ({ro_cond}) {{ ro = {ro_new}; }}` (`outer` = the loop counter) -/\n"
            f"def roNext (outer : Nat) (crit tau oldCrit gamma ro : α) : α := if {l_rocond} then {l_ronew} else ro\n\n"
            f"/-- `{what}`: `old_criterion = {oc};` -/\ndef oldCritNext (crit : α) : α := {l_oc}\n\n"
            f"/-- `{what}`: `lambda.array() = {lt};` element by element, `{oldro}` = `ro` before its update -/\n"
            f"def lambdaNext (l oldRo h lambdaMin lambdaMax : α) : α := {l_l}\n\n"
            f"/-- `{what}`: `miu.array() = {mt};` element by element -/\n"
            f"def miuNext (m oldRo g miuMax : α) : α := {l_m}\n")


def gen_pen_minimize(src):
    what = "solver_penalty_t::minimize"
    body, _ = T.body_of(src, what, PSOL_CPP)
    pre, loop, post, outer = outer_loop(clean(body), what)
    if not re.search(r"auto penalty=penalty0;auto solver=make_solver\(penalty_function,epsilon0,max_evals\);"
                     r"auto bstate=solver_state_t\{penalty_function\.function\(\),x0\};$", pre):
        raise TranslateError(f"{what}: the initialisation before the loop (penalty = penalty0, solver = make_solver(penalty_function, epsilon0, "
                             f"max_evals), bstate = solver_state_t{{penalty_function.function(), x0}}) does not have the expected shape: `{pre[-220:]}`")
    if not re.fullmatch(r"return bstate;", post):
        raise TranslateError(f"{what}: expected `return bstate;` after the loop, got `{post[:120]}`")
    c = Cur(loop, what)
    c.take(r"penalty_function\.penalty\(penalty\);", "`penalty_function.penalty(penalty);`")
    cs = c.take(r"const auto " + ID + r"=solver->minimize\(penalty_function,bstate\.x\(\),logger\);", "the inner solve started at bstate.x()").group(1)
    ok = c.take(r"const auto " + ID + "=" + cs + r"\.valid\(\);", "`const auto iter_ok = cstate.valid();`").group(1)
    c.take(r"if", "`if (…)`")
    fail_cond = c.group()
    blk = Cur(c.group("{", "}"), what)
    fm = blk.take(r"penalty(\*=|\+=|-=|/=|=)" + E + r";continue;", "`penalty *= eta; continue;`"); blk.end()
    m = c.take(r"const auto " + ID + "=" + E + ";", "`const auto converged = …;`")
    conv, conv_text = m.groups()
    c.take(r"bstate\.update\(" + cs + r"\.x\(\)\);", "`bstate.update(cstate.x());`")
    c.take(r"if\(done\(bstate," + ok + "," + conv + r",logger\)\)\{break;\}", "`if (done(bstate, iter_ok, converged, logger)) { break; }`")
    gm = c.take(r"penalty(\*=|\+=|-=|/=|=)" + E + r";", "`penalty *= eta;`")
    c.take(r"solver->more_precise\(epsilonK\);", "`solver->more_precise(epsilonK);`"); c.end()
    xconv_call = f"nano::converged(bstate,{cs},epsilon)"
    bind = {ok: BOOL("iterOk"), xconv_call: BOOL("xconv"), "penalty": SCAL("penalty"), "eta": SCAL("eta")}

    def assigned(mm, w):
        e = expr(mm.group(2), bind, what + w, "scal")
        return e if mm.group(1) == "=" else f"(penalty {mm.group(1)[0]} {e})"

    return (f"/-- `{what}` ({PSOL_CPP}): the guard `{fail_cond}` of the branch `penalty {fm.group(1)} {fm.group(2)}; continue;` -/\n"
            f"def penFailed (iterOk : Bool) : Bool := {expr(fail_cond, bind, what + ' failure guard', 'bool')}\n\n"
            f"/-- `{what}`: `penalty {fm.group(1)} {fm.group(2)};` in that branch -/\n"
            f"def penaltyOnFail (penalty eta : α) : α := {assigned(fm, ' failure branch')}\n\n"
            f"/-- `{what}`: `const auto {conv} = {conv_text};` with `xconv = {xconv_call}` -/\n"
            f"def penConverged (iterOk xconv : Bool) : Bool := {expr(conv_text, bind, what + ' converged', 'bool')}\n\n"
            f"/-- `{what}`: after `done(…)` returned false: `penalty {gm.group(1)} {gm.group(2)};` (then `solver->more_precise(epsilonK)`) -/\n"
            f"def penaltyNext (penalty eta : α) : α := {assigned(gm, ' growth rule')}\n")


def gen_more_precise(src):
    what = "solver_t::more_precise"
    body, m0 = T.body_of(src, what, SOLVER_CPP)
    pm = re.search(r"\(\s*const\s+scalar_t\s+(\w+)\s*\)", m0.group(0))
    if not pm:
        raise TranslateError(f"{what}: signature `(const scalar_t epsilon_factor)` not found")
    c = Cur(clean(body), what)
    t = c.take(r'parameter\("solver::epsilon"\)=' + E + ";", '`parameter("solver::epsilon") = …;`').group(1); c.end()
    cur = 'parameter("solver::epsilon").value<scalar_t>()'
    if cur not in t:
        raise TranslateError(f"{what}: the new value does not read the current `solver::epsilon`: {t}")
    e = expr(t.replace(cur, "current_epsilon"), {"current_epsilon": SCAL("eps"), pm.group(1): SCAL("factor")}, what, "scal")
    return (f"/-- `{what}` ({SOLVER_CPP}): `parameter(\"solver::epsilon\") = {t};` (eps = the solver's current `solver::epsilon`) -/\n"
            f"def morePrecise (eps factor : α) : α := {e}\n")


HEADER_S = f"""-- GENERATED by tools/props/c05.py (c05_translate.py) from {AUG_CPP}, {PSOL_CPP}, {SOLVER_CPP} — do not edit
import NanoVerif.Model.Constraint
/-!
  The scalar logic of the outer loops of libnano's augmented-Lagrangian and penalty solvers, re-translated from the C++ source text
  on every check (DESIGN.md §2.3.a). Core Lean only. Scalar-generic: run at `Float` inside `driver_c05` through the model
  (`Proofs/PenaltyGen.lean`: `model_…_is_generated` state that `Model/Penalty.lean` / `Model/PenaltySolver.lean` ARE these formulas).

  `std::fabs` ↦ `absv`, `std::max(a, b)` and Eigen's `a.max(b)` ↦ `cmax a b`, `std::min` / `.min` ↦ `cmin` (Model/Constraint.lean),
  `std::clamp(v, lo, hi)` ↦ `if v < lo then lo else if hi < v then hi else v`, `a > b` ↦ `decide (a > b)`, `x *= e` ↦ `x * e`,
  numeric literals through `OfNat` and `/` only (`1e-6` ↦ `((1 : α) / (1000000 : α))`). Array statements are translated element by element.
-/
namespace NanoVerif.Gen.AugLagStep
open NanoVerif.Constraint
set_option linter.unusedVariables false
section
variable {{α : Type}} [Add α] [Sub α] [Mul α] [Div α] [Neg α] [LT α] [LE α] [DecidableLT α] [DecidableLE α] [∀ n, OfNat α n]

"""


def generate_step(repo):
    aug = T.read(repo, AUG_CPP)
    out = [HEADER_S,
           gen_make_ro1(aug),
           gen_make_criterion(aug),
           gen_al_minimize(aug),
           gen_pen_minimize(T.read(repo, PSOL_CPP)),
           gen_more_precise(T.read(repo, SOLVER_CPP)),
           "end\nend NanoVerif.Gen.AugLagStep\n"]
    return "\n".join(out)


def translate():
    try:
        k = generate_kernels(vlib.REPO)
    except TranslateError as ex:
        raise vlib.Broken("translate", f"Gen/PenaltyKernels.lean: {ex}")
    vlib.write_if_changed(OUT_K, k)
    try:
        s = generate_step(vlib.REPO)
    except TranslateError as ex:
        raise vlib.Broken("translate", f"Gen/AugLagStep.lean: {ex}")
    vlib.write_if_changed(OUT_S, s)
    return k + s
