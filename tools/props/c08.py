"""C08 — all dataset views agree with the stored feature values, including missing ones (DESIGN.md §4 C08).

One op line = one self-contained history on a harness-defined in-memory datasource (format: harness/c08.cpp). The stored
values and the missing mask are a function of the seed in the line (`mix`), re-implemented here, in the harness and in the
Lean driver, so all three sides know what is stored.
"""
import math, os
import vlib
from vlib import Toks, lst, h2f

ID = "C08"
LEVEL = "proof"
HARNESS = "c08"
LEAN_MODULES = ["NanoVerif.Props.C08", "NanoVerif.Proofs.DatasetGradientField"]
NS = "NanoVerif.Dataset."
OBLIGATIONS = [NS + t for t in [
    "gradient_dims_spec", "gradient_features_count", "gradient_descriptor_spec", "gradient_pixel_spec", "gradient_kernel_spec",
    "gradient_select_spec", "gradient_missing_spec", "gradient_history_view", "gradient_nondegenerate_iff", "selectUnwritten_iff",
    "weights_normalised", "gx_gy_are_correlations", "gradient_of_affine", "magnitude_is_norm",
    "custom_fit_spec", "custom_select_spec", "custom_descriptor_spec",
    "getbit_setbit", "ranges_disjoint_tile", "storage_refines", "stored_never_set",
    "flatten_eq_encode_select", "identity_eq_stored", "missing_marked",
    "targets_spec", "product_spec", "columns_total", "column2feature_spec",
    "history_view", "history_restore", "shuffle_is_reported_bijection",
    "shuffled_reports", "index_out_of_range_rejected", "empty_index_list_accepted", "wf_reachable",
]]
TRUSTED = [
    "Lean 4.33.0 kernel; Props/C08.lean and its Proofs/Dataset*.lean are core Lean only; the four field-level kernel theorems "
    "(Proofs/DatasetGradientField.lean) import Mathlib.Tactic.Ring/FieldSimp/NormNum, Algebra.Order.Field.Basic, Analysis.Real.Sqrt",
    "axioms: at most propext, Classical.choice, Quot.sound (audited per theorem on every run)",
    "hand-written model NanoVerif/Model/Mask.lean + Model/Dataset.lean + Model/DatasetGenGradient.lean (on top of the C16 tensor "
    "model Model/Tensor.lean) of mask.h, datasource.h/.cpp, datasource/iterator.h, storage.h, generator/select.h, elemwise*.h, "
    "gradient.h, elemwise_gradient.h/.cpp, pairwise*.h/.cpp, generator.cpp, dataset.cpp; "
    "tied to the code by the history differential (harness/c08.cpp on the real library vs the compiled Lean driver, exact comparison)",
    "tools/props/c08.py: generator + the independent python oracle (views recomputed from the seed formula and the documented "
    "encodings); harness/c08.cpp; g++/libstdc++/Eigen",
    "oracle of the model: std::shuffle returns some permutation; it is read back through dataset_t::shuffled(f, 0..N-1) right after "
    "every shuffle() and checked to be a bijection of the samples on every case",
]
ASSUMPTIONS = [
    "stored values are small integers (|v| <= 40), exactly representable in all ten storage types and in scalar_t: the conversions "
    "between storage types are not exercised for rounding; the model stores Int",
    "generator_t keeps ONE flag byte per generated feature (0 default / 1 dropped / 2 shuffled): the last drop()/shuffle() call on a "
    "feature wins (dropping a shuffled feature replaces the shuffle and vice versa) and both undrop() and unshuffle() clear every "
    "flag; modelled as coded, the oracle follows the same rule",
    "dataset_t::shuffled(f, samples) on a feature that is not currently shuffled dereferences an empty map (assert only): a "
    "precondition, never generated; column2feature(column) has no range check (columns are not sample or feature indices): only "
    "valid columns are asked; feature subsets passed to a generator's constructor are valid input-feature indices (assert only)",
    "asserts are compiled out in the release build; the model returns none where an assert would fire and the theorems are stated "
    "under the asserted conditions (sample < samples(), feature < features())",
    "the gradient generator is inside the Lean model (Model/DatasetGenGradient.lean + the `.gradient` kind of Model/Dataset.lean) and "
    "compared bit for bit (same order of the binary64 operations; sqrt / atan2 are the same libm functions on both sides); the python "
    "oracle evaluates the full 3x3 correlation in exact rational arithmetic and compares at 1e-12 (angles modulo 2*pi, and not at all "
    "where the exact gradient is (0, 0) under the prewitt kernel, whose 1/3 is not a binary64 number)",
    "open finding gradient-1x1-select-unwritten is modelled as coded: Dataset.selectUnwritten marks the scalar select of a gradient "
    "feature derived from a 3x3 image, the driver prints wildcards for the unwritten buffer and `compare` accepts anything there",
    "the generator templates elemwise_generator_t / pairwise_generator_t are modelled for every (input kind(s), generated kind) "
    "combination (GKind.custom); the correspondence runs the 10 + 10 combinations harness/c08.cpp instantiates (every generated kind "
    "through both templates, every input kind, 7 of the 16 pair selections) with fixed value functions (summary, mod 3, parity, "
    "squares: small integers, exact in binary64); the theorems do not unfold the value functions",
    "the flatten/targets iterators are modelled at scaling = none (NaN -> 0 by dataset/stats.cpp nan2zero, as coded)",
    "oracle relaxations (nothing is read in either case): select_iterator_t::loop over a kind of feature the dataset does not have "
    "accepts an out-of-range sample list; targets_iterator_t::loop on an unsupervised dataset with an empty sample list does not throw",
    "hypotheses of the theorems: Storage.WF / Dataset.WF (proved for everything built by resize, set, add and any history: "
    "wf_reachable, sets_wf, adds_wf, run_keeps) and ClassValuesOk (stored labels / hits are non-negative: classValuesOk_resize/_set); "
    "the reported permutation being a bijection is a hypothesis of shuffle_is_reported_bijection and is checked on every case",
    "memory safety is observed by the ASan/UBSan flavour of the thorough tier only",
]
RULE = ("corpus; boundary schemas (samples in {1,7,8,9,15,16,17,...}, class counts {1,2,3,255,256,257,300}, all-missing and never-missing "
        "features, every storage type) then random schemas of 1..12 features over the 12 feature types, dims <= 3x3x2 (images up to 6x7x3 for "
        "the gradient generator), samples 1..200, 2500 (quick) / 12000 (thorough) random cases, target of any type or absent, generator stacks (identity x4, product with one or two "
        "lists, gradient with every kernel on images up to 6x7x3, harness-defined computers through both generator templates, feature "
        "subsets with repeats), 180 (quick) / 720 (thorough) function-level gradient3x3 cases (kernel x mode x input type) and histories of 4..14 ops (flatten/select/targets/iterators with index lists: "
        "all, reversed, repeats, N-1, N, -1, empty; descriptors; drop/undrop/shuffle/unshuffle/shuffled; invalid feature indices; wrong "
        "overloads), 1..4 threads (quick) / 1..16 (thorough). A case is non-trivial when the schema uses >= 2 storage types, has >= 1 missing "
        "value and some index list of the history has a repeat; distinct by op text")
FLAVOUR = {"quick": "plain", "thorough": "asan"}
HARNESS_TIMEOUT = 1800

# further op classes that were defects of the unchanged tree (fixed in /repo by cace01b and 767882d): generated by default
GEN_SHUFFLED_OUT_OF_RANGE = True
GEN_PRODUCT_TWO_LISTS = True
# gradient generator on 3x3 images: the generated 1x1x1 feature is described as scalar but only the struct select is implemented
# (dataset_t::select returns the unwritten buffer): KNOWN_FINDINGS.json key gradient-1x1-select-unwritten; generated at a low rate
GEN_GRADIENT_3x3 = True
GEN_GRADIENT_3x3_RATE = 0.15      # of the gradient stacks

M64 = (1 << 64) - 1
NAN = float("nan")
TYPE_NAMES = ["int8", "int16", "int32", "int64", "uint8", "uint16", "uint32", "uint64", "float32", "float64", "sclass", "mclass"]


def mix(seed, f, s, j):
    z = (seed * 0x9E3779B97F4A7C15 + f * 0xBF58476D1CE4E5B9 + s * 0x94D049BB133111EB + j * 0xD6E8FEB86659FD93 + 0x1234567) & M64
    z = ((z ^ (z >> 30)) * 0xBF58476D1CE4E5B9) & M64
    z = ((z ^ (z >> 27)) * 0x94D049BB133111EB) & M64
    return z ^ (z >> 31)


# ---------------------------------------------------------------------------------------------------------
# op <-> structure

class Case:
    """parsed op line"""
    def __init__(self, line):
        t = Toks(line)
        assert t.s() == "dataset" and t.s() == "hist"
        self.N = t.int(); self.seed = t.int(); self.threads = t.int()
        nf = t.int()
        self.specs = []
        for _ in range(nf):
            ty = t.int(); a = t.int(); b = t.int(); c = t.int(); mk = t.int()
            self.specs.append((ty, a, b, c, mk))
        self.target = t.int()
        ng = t.int()
        self.gens = []
        for _ in range(ng):
            k = t.int(); l1 = t.ints()
            l2 = t.ints() if k in (5, 9) else t.int() if k == 7 else None      # 7: the kernel type follows the list
            if k == 8:
                l2 = (t.int(), None, t.int())                 # (input kind, -, generated kind)
            elif k == 9:
                l2 = (l2, t.int(), t.int(), t.int())          # (list2, input kind 1, input kind 2, generated kind)
            self.gens.append((k, l1, l2))
        nh = t.int()
        self.hist = []
        for _ in range(nh):
            op = t.s()
            if op in ("flatten", "targets"):
                self.hist.append((op, t.ints()))
            elif op in ("iflatten", "itargets", "iselect", "tselect", "shuffled"):
                a0 = t.int(); self.hist.append((op, a0, t.ints()))
            elif op == "select":
                a0 = t.int(); a1 = t.int(); self.hist.append((op, a0, a1, t.ints()))
            elif op in ("feature", "c2f", "drop", "shuffle"):
                self.hist.append((op, t.int()))
            elif op in ("undrop", "unshuffle"):
                self.hist.append((op,))
            else:
                raise ValueError("history op " + op)
        self.perms = None
        if not t.done():
            assert t.s() == "perms"
            k = t.int()
            self.perms = [t.ints() for _ in range(k)]
        assert t.done()

    # -- what is stored ------------------------------------------------------------------------------------
    def comps(self, f):
        ty, a, b, c, _ = self.specs[f]
        return 1 if ty == 10 else a if ty == 11 else a * b * c

    def stored(self, f, s):
        """None = missing, else the list of component values"""
        ty, a, b, c, mk = self.specs[f]
        if mk != 0 and mix(self.seed, f, s, 0xFFFF) % mk == 0:
            return None
        if ty == 10:
            return [mix(self.seed, f, s, 0) % a]
        if ty == 11:
            return [mix(self.seed, f, s, j) % 2 for j in range(a)]
        uns = 4 <= ty <= 7
        return [(mix(self.seed, f, s, j) % 41) - (0 if uns else 20) for j in range(a * b * c)]

    def inputs(self):
        """storage indices of the input features (the target is not an input)"""
        return [f for f in range(len(self.specs)) if f != self.target]

    def kind_of(self, f):
        ty, a, b, c, _ = self.specs[f]
        return "sclass" if ty == 10 else "mclass" if ty == 11 else "scalar" if a * b * c == 1 else "struct"

    def render(self, with_perms=False):
        w = ["dataset", "hist", self.N, self.seed, self.threads, len(self.specs)]
        for sp in self.specs:
            w += list(sp)
        w += [self.target, len(self.gens)]
        for k, l1, l2 in self.gens:
            w += [k, lst(l1)]
            if k == 5:
                w += [lst(l2)]
            elif k == 7:
                w += [l2]
            elif k == 8:
                w += [l2[0], l2[2]]
            elif k == 9:
                w += [lst(l2[0]), l2[1], l2[2], l2[3]]
        w += [len(self.hist)]
        for h in self.hist:
            w.append(h[0])
            for x in h[1:]:
                w.append(lst(x) if isinstance(x, list) else x)
        return " ".join(str(x) for x in w)


# ---------------------------------------------------------------------------------------------------------
# the documented bookkeeping: which features a generator stack produces (used by the generator to pick feature indices and by
# the oracle as the expectation)

GRAD_MODES = ["gx", "gy", "gg", "theta"]
CUSTOM_NAMES = ["lab", "hit", "sum", "pow"]


def summary(v):
    """what the harness computers reduce an input value to"""
    return sum((j + 1) * x for j, x in enumerate(v))


def custom_value(e, v1, v2):
    """the documented value functions of the harness computers (harness/c08.cpp)"""
    s1 = summary(v1); s2 = summary(v2) if e["pair"] else s1
    t = s1 + 2 * s2 if e["pair"] else s1
    return [[t % 3], [1 if t % 2 == 0 else 0, 1 if t % 3 == 0 else 0], [t], [s1 * s1, s1 * s2, s2 * s2]][e["out"]]

KERNEL_NAMES = ["sobel", "scharr", "prewitt"]
# the documented kernels: smoothing weights (numerators, denominator) applied across the direction of the derivative
KERNEL_WEIGHTS = [((1, 2, 1), 4), ((3, 10, 3), 16), ((1, 1, 1), 3)]


def kernel_of(k, l2):
    return 0 if k == 6 else l2


def kernel_matrices(kernel):
    """the two 3x3 correlation masks as integer numerators over the kernel's denominator: KX[i][j] = w[i] * (-1, 0, +1)[j],
    KY = KX transposed"""
    (a, b, c), den = KERNEL_WEIGHTS[kernel]
    w = [a, b, c]
    d = [-1, 0, 1]
    kx = [[w[i] * d[j] for j in range(3)] for i in range(3)]
    ky = [[kx[j][i] for j in range(3)] for i in range(3)]
    return kx, ky, den


KERNEL_MATRICES = [kernel_matrices(k) for k in range(3)]


def gradient_exact(kernel, img, r, q):
    """exact (gx, gy) at output pixel (r, q) as (numerator x, numerator y, denominator): the 3x3 correlation of the image
    with the two masks"""
    kx, ky, den = KERNEL_MATRICES[kernel]
    nx = sum(kx[i][j] * img[r + i][q + j] for i in range(3) for j in range(3))
    ny = sum(ky[i][j] * img[r + i][q + j] for i in range(3) for j in range(3))
    return nx, ny, den


def gradient_feature(kernel, mode, g):
    """-> (value, loose): loose = the value is numerically undetermined (angle of a zero gradient under an inexact kernel);
    int / int is correctly rounded in python"""
    nx, ny, den = g
    if mode == 0:
        return nx / den, False
    if mode == 1:
        return ny / den, False
    if mode == 2:
        return math.sqrt((nx * nx + ny * ny) / (den * den)), False
    return math.atan2(ny / den, nx / den), (kernel == 2 and nx == 0 and ny == 0)


def same_grad(mode, got, want, loose, tol=1e-12):
    if loose:
        return got == got
    if mode == 3 and got == got and want == want:
        d = abs(got - want) % (2.0 * math.pi)
        return min(d, 2.0 * math.pi - d) <= 1e-9
    return same(got, want, tol)


def expected_features(case):
    """list of dicts: kind, src (storage indices), name(s), type code, dims, classes, cols"""
    inp = case.inputs()
    E = []

    def pick(lst_, pred):
        idx = lst_ if lst_ else list(range(len(inp)))
        return [i for i in idx if pred(inp[i])]

    for k, l1, l2 in case.gens:
        if k in (0, 1, 2, 3):
            want = ["sclass", "mclass", "scalar", "struct"][k]
            for i in pick(l1, lambda f: case.kind_of(f) == want):
                f = inp[i]
                ty, a, b, c, _ = case.specs[f]
                if want == "sclass":
                    E.append(dict(kind=want, src=(f,), names=[f"f{f}"], type=10, dims=(1, 1, 1), classes=a, cols=a - 1))
                elif want == "mclass":
                    E.append(dict(kind=want, src=(f,), names=[f"f{f}"], type=11, dims=(1, 1, 1), classes=a, cols=a))
                else:
                    E.append(dict(kind=want, src=(f,), names=[f"f{f}"], type=ty, dims=(a, b, c), classes=0, cols=a * b * c))
        elif k in (4, 5):
            s1 = pick(l1, lambda f: case.kind_of(f) == "scalar")
            s2 = pick(l1 if k == 4 else l2, lambda f: case.kind_of(f) == "scalar")
            pairs = {}
            for x in s1:
                for y in s2:
                    pairs.setdefault((min(x, y), max(x, y)), (x, y))
            for key in sorted(pairs):
                x, y = pairs[key]
                fx, fy = inp[x], inp[y]
                E.append(dict(kind="product", src=(fx, fy), names=[f"product(f{fx},f{fy})", f"product(f{fy},f{fx})"],
                              type=9, dims=(1, 1, 1), classes=0, cols=1))
        elif k in (8, 9):
            # a computer plugged into elemwise_generator_t / pairwise_generator_t: features by input kind(s), descriptors by
            # generated kind: 3 labels / 2 labels / scalar / (3,1,1)
            kinds = ["sclass", "mclass", "scalar", "struct"]
            out = l2[2] if k == 8 else l2[3]
            ty, dims, classes, cols = [(10, (1, 1, 1), 3, 2), (11, (1, 1, 1), 2, 2), (9, (1, 1, 1), 0, 1), (9, (3, 1, 1), 0, 3)][out]
            nm = CUSTOM_NAMES[out]
            if k == 8:
                for i in pick(l1, lambda f: case.kind_of(f) == kinds[l2[0]]):
                    f = inp[i]
                    E.append(dict(kind="custom", out=out, src=(f,), pair=False, names=[f"{nm}(f{f})"], type=ty, dims=dims,
                                  classes=classes, cols=cols))
            else:
                s1 = pick(l1, lambda f: case.kind_of(f) == kinds[l2[1]])
                s2 = pick(l2[0], lambda f: case.kind_of(f) == kinds[l2[2]])
                pairs = {}
                for x in s1:
                    for y in s2:
                        pairs.setdefault((min(x, y), max(x, y)), (x, y))
                for key in sorted(pairs):
                    x, y = pairs[key]
                    fx, fy = inp[x], inp[y]
                    E.append(dict(kind="custom", out=out, src=(fx, fy), pair=True, names=[f"{nm}(f{fx},f{fy})"], type=ty,
                                  dims=dims, classes=classes, cols=cols))
        elif k in (6, 7):
            kernel = kernel_of(k, l2)
            for i in pick(l1, lambda f: case.kind_of(f) == "struct"):
                f = inp[i]
                ty, a, b, c, _ = case.specs[f]
                if b >= 3 and c >= 3:
                    for ch in range(a):
                        for mode in range(4):
                            E.append(dict(kind="gradient", src=(f,), channel=ch, mode=mode, kernel=kernel,
                                          names=[f"{KERNEL_NAMES[kernel]}::{GRAD_MODES[mode]}(f{f}[channel::{ch}])"], type=9,
                                          dims=(1, b - 2, c - 2), classes=0, cols=(b - 2) * (c - 2)))
    return E


def select_kind(e):
    """which select overload serves the feature (by its descriptor)"""
    if e["kind"] in ("sclass", "mclass"):
        return e["kind"]
    if e["kind"] == "custom" and e["out"] < 2:
        return ["sclass", "mclass"][e["out"]]
    return "scalar" if e["dims"][0] * e["dims"][1] * e["dims"][2] == 1 else "struct"


def gradient_values(case, e, vals):
    """list of (value, loose) per output pixel, row-major"""
    f = e["src"][0]
    _, a, b, c, _ = case.specs[f]
    ch = e["channel"]
    img = [[vals[ch * b * c + r * c + q] for q in range(c)] for r in range(b)]
    out = []
    for r in range(b - 2):
        for q in range(c - 2):
            out.append(gradient_feature(e["kernel"], e["mode"], gradient_exact(e["kernel"], img, r, q)))
    return out


def feature_value(case, e, s):
    """the value of generated feature e for stored sample s: None = missing, else list of numbers"""
    if e["kind"] == "product":
        x = case.stored(e["src"][0], s); y = case.stored(e["src"][1], s)
        return None if x is None or y is None else [float(x[0]) * float(y[0])]
    if e["kind"] == "custom":
        x = case.stored(e["src"][0], s)
        y = case.stored(e["src"][1], s) if e["pair"] else x
        return None if x is None or y is None else custom_value(e, x, y)
    v = case.stored(e["src"][0], s)
    if v is None:
        return None
    if e["kind"] == "gradient":
        return gradient_values(case, e, v)
    return v


def view_rows(case, e, flag, samples):
    """per position of the sample list: None (missing) or the value; flag = None | 'drop' | permutation"""
    if flag == "drop":
        return [None] * len(samples)
    if isinstance(flag, list):
        samples = [flag[s] for s in samples]
    return [feature_value(case, e, s) for s in samples]


def num(x):
    return float(x[0]) if isinstance(x, tuple) else float(x)


def loose(x):
    return isinstance(x, tuple) and x[1]


def encode_flatten(e, v):
    """the documented dense encoding of one value (gradient values stay (value, loose) pairs)"""
    if v is None:
        return [NAN] * e["cols"]
    if e["kind"] == "gradient":
        return list(v)
    if select_kind(e) == "sclass":
        return [1.0 if k == v[0] else -1.0 for k in range(e["classes"] - 1)]      # one-hot +-1 with C-1 columns
    if select_kind(e) == "mclass":
        return [2.0 * h - 1.0 for h in v]
    return [float(x) for x in v]


def same(a, b, tol=0.0):
    if a != a or b != b:
        return a != a and b != b
    return a == b or abs(a - b) <= tol * max(abs(a), abs(b), 1.0)


# ---------------------------------------------------------------------------------------------------------
# oracle

class Bad(Exception):
    def __init__(self, key, why):
        super().__init__(why)
        self.key, self.why = key, why


def split_result(res):
    parts = [p.split() for p in res.split(" ; ")]
    return parts[0], parts[1:]


def samples_valid(case, l):
    return all(0 <= s < case.N for s in l)


def invalid_key(case, l, where):
    if case.N in l and all(0 <= s <= case.N for s in l):
        return "sample-index-eq-N" if where != "shuffled" else "shuffled-sample-index-unchecked"
    return "sample-index-out-of-range" if where != "shuffled" else "shuffled-sample-index-unchecked"


def check_header(case, E, head):
    r = Toks(" ".join(head))
    if r.s() != "ok":
        raise Bad("valid-datasource-rejected" if head[:1] == ["throw"] else "header",
                  f"implementation did not answer ok: {' '.join(head)[:80]}")
    if r.s() != "H":
        raise Bad("header", "no header")
    nfeat = r.int(); ncols = r.int()
    descs = []
    for _ in range(nfeat):
        descs.append((r.s(), r.int(), (r.int(), r.int(), r.int()), r.int()))
    has2 = any(k == 5 for k, _, _ in case.gens)
    got = [d[0] for d in descs]
    if nfeat != len(E):
        raise Bad("product-two-lists-wrong-pairs" if has2 else "feature-count",
                  f"features() = {nfeat} ({got}), the generator stack documents {len(E)} ({[e['names'][0] for e in E]})")
    for i, (e, d) in enumerate(zip(E, descs)):
        if d[0] not in e["names"] or d[1] != e["type"] or d[2] != tuple(e["dims"]) or d[3] != e["classes"]:
            raise Bad("product-two-lists-wrong-pairs" if (has2 and e["kind"] == "product") else "descriptor",
                      f"feature({i}) = {d}, expected {e['names'][0]} type {e['type']} dims {e['dims']} classes {e['classes']}")
    want_cols = sum(e["cols"] for e in E)
    if ncols != want_cols:
        raise Bad("columns-total", f"columns() = {ncols}, the features need {want_cols}")
    if r.s() != "M":
        raise Bad("header", "no column map")
    c2f = r.ints()
    want = [i for i, e in enumerate(E) for _ in range(e["cols"])]
    if c2f != want:
        raise Bad("column2feature", f"column2feature = {c2f[:40]}, expected consecutive blocks {want[:40]}")
    if r.s() != "G":
        raise Bad("header", "no target descriptor")
    td = (r.s(), r.int(), (r.int(), r.int(), r.int()), r.int())
    tdims = (r.int(), r.int(), r.int()); task = r.int()
    if case.target < 0:
        if td[0] != "-" or tdims != (0, 0, 0) or task != 3:
            raise Bad("target-descriptor", f"no target given, but target() = {td}, dims {tdims}, task {task}")
    else:
        ty, a, b, c, _ = case.specs[case.target]
        if ty >= 10:
            want_td = (f"f{case.target}", ty, (1, 1, 1), a); want_dims = (a, 1, 1); want_task = 1 if ty == 10 else 2
        else:
            want_td = (f"f{case.target}", ty, (a, b, c), 0); want_dims = (a, b, c); want_task = 0
        if td != want_td or tdims != want_dims or task != want_task:
            raise Bad("target-descriptor", f"target() = {td} dims {tdims} task {task}, expected {want_td} {want_dims} {want_task}")
    return descs


def parse_view(r):
    """-> (kind, n, shape, values)"""
    tag = r.s()
    if tag == "S0":
        n = r.int(); return "sclass", n, (), [r.int() for _ in range(n)]
    if tag == "S1":
        n = r.int(); c = r.int(); return "mclass", n, (c,), [r.int() for _ in range(n * c)]
    if tag == "S2":
        n = r.int(); return "scalar", n, (), [r.f() for _ in range(n)]
    if tag == "S3":
        n = r.int(); d = (r.int(), r.int(), r.int()); return "struct", n, d, [r.f() for _ in range(n * d[0] * d[1] * d[2])]
    raise Bad("format", f"unknown view tag {tag}")


def check_view(case, e, flag, samples, view, what):
    kind, n, shape, vals = view
    tol = 1e-12 if e["kind"] == "gradient" else 0.0
    if kind != select_kind(e) or n != len(samples):
        raise Bad("select-shape", f"{what}: view kind {kind} rows {n}, expected {select_kind(e)} rows {len(samples)}")
    rows = view_rows(case, e, flag, samples)
    if kind == "sclass":
        want = [-1 if v is None else v[0] for v in rows]
    elif kind == "mclass":
        if shape != (e["classes"],):
            raise Bad("select-shape", f"{what}: {shape} classes, expected {e['classes']}")
        want = [x for v in rows for x in ([-1] * e["classes"] if v is None else v)]
    elif kind == "scalar":
        want = [NAN if v is None else v[0] for v in rows]
    else:
        if shape != tuple(e["dims"]):
            raise Bad("select-shape", f"{what}: dims {shape}, expected {e['dims']}")
        want = [x for v in rows for x in ([NAN] * e["cols"] if v is None else list(v))]
    mode = e.get("mode", 0) if e["kind"] == "gradient" else 0
    eq = lambda a, b: same_grad(mode, float(a), num(b), loose(b), tol) if e["kind"] == "gradient" else same(float(a), num(b), tol)
    if len(vals) != len(want) or not all(eq(a, b) for a, b in zip(vals, want)):
        k = next((i for i, (a, b) in enumerate(zip(vals, want)) if not eq(a, b)), -1)
        want = [num(x) for x in want]
        missing = k >= 0 and (want[k] != want[k] or want[k] == -1)
        key = KNOWN_KEY if (e["kind"] == "gradient" and tuple(e["dims"]) == (1, 1, 1) and kind == "scalar" and flag != "drop") else \
              "drop-view" if flag == "drop" else "shuffle-view" if isinstance(flag, list) else \
              "product-view" if e["kind"] == "product" else "missing-marker" if missing else \
              "gradient-view" if e["kind"] == "gradient" else "custom-view" if e["kind"] == "custom" else "select-view"
        raise Bad(key, f"{what}: the view differs from the stored values at position {k}: got {vals[k] if k >= 0 else '?'}, "
                       f"expected {want[k] if k >= 0 else '?'} (feature {e['names'][0]}, flag {'perm' if isinstance(flag, list) else flag})")


def check_matrix(r, tag, n):
    if r.s() != tag:
        raise Bad("format", f"expected {tag}")
    rows = r.int()
    if rows != n:
        raise Bad("view-shape", f"{tag}: {rows} rows for {n} samples")
    return rows


KNOWN_KEY = "gradient-1x1-select-unwritten"


def is_grad3(op):
    return op.startswith("dataset grad3 ")


def parse_grad3(op):
    t = Toks(op)
    assert t.s() == "dataset" and t.s() == "grad3"
    kernel = t.int(); mode = t.int(); ity = t.int(); rows = t.int(); cols = t.int(); px = t.ints()
    assert len(px) == rows * cols and rows >= 3 and cols >= 3
    return kernel, mode, ity, rows, cols, px


def render_grad3(kernel, mode, ity, rows, cols, px):
    return f"dataset grad3 {kernel} {mode} {ity} {rows} {cols} {lst(px)}"


def oracle_grad3(op, res):
    """gradient3x3 against the definition: output (rows-2, cols-2); each pixel the 3x3 correlation with the documented masks"""
    kernel, mode, ity, rows, cols, px = parse_grad3(op)
    r = Toks(res)
    if r.s() != "ok" or r.s() != "K":
        return f"[grad3-rejected] gradient3x3 on a {rows}x{cols} image did not answer: {res[:80]}"
    got_k = [r.f(), r.f(), r.f()]
    (a, b, c), den = KERNEL_WEIGHTS[kernel]
    want_k = [a / den, b / den, c / den]
    if not all(same(x, y, 1e-15) for x, y in zip(got_k, want_k)):
        return f"[grad3-kernel] make_kernel3x3({KERNEL_NAMES[kernel]}) = {got_k}, documented {want_k}"
    if abs(sum(got_k) - 1.0) > 1e-15:
        return f"[grad3-kernel] the {KERNEL_NAMES[kernel]} kernel is not normalised: {got_k}"
    if r.s() != "O":
        return "[format] grad3"
    orows = r.int(); ocols = r.int(); n = r.int()
    if (orows, ocols, n) != (rows - 2, cols - 2, (rows - 2) * (cols - 2)):
        return f"[grad3-dims] output {orows}x{ocols} ({n} values) for a {rows}x{cols} input, expected {rows - 2}x{cols - 2}"
    vals = [r.f() for _ in range(n)]
    img = [[px[i * cols + j] for j in range(cols)] for i in range(rows)]
    for i in range(orows):
        for j in range(ocols):
            g = gradient_exact(kernel, img, i, j)
            want, lo = gradient_feature(kernel, mode, g)
            got = vals[i * ocols + j]
            if not same_grad(mode, got, want, lo):
                return (f"[grad3-pixel] {KERNEL_NAMES[kernel]}::{GRAD_MODES[mode]} at output ({i},{j}) = {got!r}, the 3x3 correlation gives "
                        f"{want!r} (gx = {g[0]}/{g[2]}, gy = {g[1]}/{g[2]})")
    return None


def oracle(op, res):
    """first violation found; the known finding (KNOWN_FINDINGS.json) is reported only when nothing else is wrong with the line"""
    if is_grad3(op):
        try:
            return oracle_grad3(op, res)
        except Exception as ex:
            return f"[format] grad3: {ex!r}"
    soft = []
    try:
        why = _oracle(op, res, soft)
    except Bad as b:
        return f"[{b.key}] {b.why}"
    if why:
        return why
    return f"[{soft[0].key}] {soft[0].why}" if soft else None


def _oracle(op, res, soft):
    case = Case(op)
    # the target cannot be optional (datasource_t::load)
    if case.target >= 0 and any(case.stored(case.target, s) is None for s in range(case.N)):
        return None if res == "throw critical" else "[optional-target] a target with missing values was not rejected by load()"
    head, parts = split_result(res)
    E = expected_features(case)
    check_header(case, E, head)
    F = len(E); C = sum(e["cols"] for e in E)
    if len(parts) != len(case.hist):
        raise Bad("format", f"{len(parts)} results for {len(case.hist)} history ops")
    flags = [None] * F
    perms = list(case.perms or [])
    for h, part in zip(case.hist, parts):
        r = Toks(" ".join(part))
        name = h[0]
        threw = part == ["X"]
        l = h[-1] if isinstance(h[-1], list) else None
        what = f"{name} {h[1:]}"[:120]
        if l is not None and not samples_valid(case, l):
            if name == "iselect" and not any(select_kind(e) == ["sclass", "mclass", "scalar", "struct"][h[1]] for e in E):
                continue                   # no feature of that kind: nothing is selected, nothing is read
            if not threw:
                raise Bad(invalid_key(case, l, name), f"{what}: an index outside [0, {case.N}) was accepted instead of rejected")
            continue
        # from here on the sample list (if any) is valid; an empty list is a valid (empty) list
        def must_not_throw():
            if threw:
                raise Bad("empty-index-list" if l == [] else "valid-call-rejected", f"{what}: a valid call was rejected with an exception")
        if name in ("flatten", "iflatten"):
            must_not_throw()
            n = check_matrix(r, "F", len(l)); cols = r.int()
            if cols != C:
                raise Bad("view-shape", f"{what}: {cols} columns, columns() = {C}")
            vals = [r.f() for _ in range(n * cols)]
            col = 0
            for i, e in enumerate(E):
                rows = view_rows(case, e, flags[i], l)
                tol = 1e-12 if e["kind"] == "gradient" else 0.0
                for k, v in enumerate(rows):
                    want = encode_flatten(e, v)
                    if name == "iflatten":
                        want = [0.0 if (not isinstance(x, tuple) and x != x) else x for x in want]
                    got = vals[k * cols + col:k * cols + col + e["cols"]]
                    if e["kind"] == "gradient":
                        ok = all(same_grad(e["mode"], a, num(b), loose(b), tol) for a, b in zip(got, want))
                        want = [num(x) for x in want]
                    else:
                        ok = all(same(a, b, tol) for a, b in zip(got, want))
                    if not ok:
                        key = "drop-view" if flags[i] == "drop" else "shuffle-view" if isinstance(flags[i], list) else \
                              "flatten-sclass" if e["kind"] == "sclass" else "product-view" if e["kind"] == "product" else \
                              "gradient-flatten" if e["kind"] == "gradient" else \
                              "custom-flatten" if e["kind"] == "custom" else "flatten-view"
                        raise Bad(key, f"{what}: row {k} (sample {l[k]}) columns [{col},{col + e['cols']}) of {e['names'][0]} = "
                                       f"{got[:8]}, the documented encoding of the stored value is {want[:8]}")
                col += e["cols"]
        elif name == "select":
            f, o = h[1], h[2]
            if not (0 <= f < F):
                if not threw:
                    raise Bad("feature-index-out-of-range", f"{what}: feature index outside [0, {F}) accepted")
                continue
            e = E[f]
            kinds = ["sclass", "mclass", "scalar", "struct"]
            if o >= 0 and kinds[o] != select_kind(e):
                if not threw:
                    raise Bad("select-wrong-kind", f"{what}: a {kinds[o]} view of a {select_kind(e)} feature was not rejected")
                continue
            must_not_throw()
            try:
                check_view(case, e, flags[f], l, parse_view(r), what)
            except Bad as b:
                if b.key != KNOWN_KEY:
                    raise
                soft.append(b)
        elif name == "iselect":
            must_not_throw()
            kinds = ["sclass", "mclass", "scalar", "struct"]
            if r.s() != "I":
                raise Bad("format", "iselect")
            k = r.int()
            want_f = [i for i, e in enumerate(E) if select_kind(e) == kinds[h[1]]]
            got_f = []
            for _ in range(k):
                f = r.int(); got_f.append(f)
                view = parse_view(r)
                if 0 <= f < F:
                    try:
                        check_view(case, E[f], flags[f], l, view, what + f" feature {f}")
                    except Bad as b:
                        if b.key != KNOWN_KEY:
                            raise
                        soft.append(b)
            if got_f != want_f:
                raise Bad("iselect-features", f"{what}: visited features {got_f}, the {kinds[h[1]]} features are {want_f}")
        elif name == "tselect":
            o = h[1]
            tk = None if case.target < 0 else case.kind_of(case.target)
            kinds = ["sclass", "mclass", "scalar", "struct"]
            if tk is None or (o >= 0 and kinds[o] != tk):
                if not threw:
                    raise Bad("target-wrong-kind", f"{what}: target view of the wrong kind / without target not rejected")
                continue
            must_not_throw()
            ty, a, b, c, _ = case.specs[case.target]
            e = dict(kind=tk, src=(case.target,), names=[f"f{case.target}"], type=ty, dims=(1, 1, 1) if ty >= 10 else (a, b, c),
                     classes=a if ty >= 10 else 0, cols=case.comps(case.target))
            check_view(case, e, None, l, parse_view(r), what)
        elif name in ("targets", "itargets"):
            if case.target < 0:
                if name == "itargets" and l == []:
                    continue               # no batch at all: nothing is called
                if not threw:
                    raise Bad("targets-unsupervised", f"{what}: targets of an unsupervised dataset not rejected")
                continue
            must_not_throw()
            n = check_matrix(r, "T", len(l))
            dims = (r.int(), r.int(), r.int())
            ty, a, b, c, _ = case.specs[case.target]
            want_dims = (a, 1, 1) if ty >= 10 else (a, b, c)
            if dims != want_dims:
                raise Bad("targets-shape", f"{what}: dims {dims}, expected {want_dims}")
            size = dims[0] * dims[1] * dims[2]
            vals = [r.f() for _ in range(n * size)]
            for k, s in enumerate(l):
                v = case.stored(case.target, s)
                if ty == 10:
                    want = [1.0 if j == v[0] else -1.0 for j in range(a)]
                elif ty == 11:
                    want = [2.0 * x - 1.0 for x in v]
                else:
                    want = [float(x) for x in v]
                got = vals[k * size:(k + 1) * size]
                if not all(same(x, y) for x, y in zip(got, want)):
                    raise Bad("targets-view", f"{what}: row {k} (sample {s}) = {got[:8]}, stored target encodes to {want[:8]}")
        elif name == "feature":
            f = h[1]
            if not (0 <= f < F):
                if not threw:
                    raise Bad("feature-index-out-of-range", f"{what}: feature index outside [0, {F}) accepted")
                continue
            must_not_throw()
            if r.s() != "D":
                raise Bad("format", "feature")
            d = (r.s(), r.int(), (r.int(), r.int(), r.int()), r.int())
            e = E[f]
            if d[0] not in e["names"] or d[1] != e["type"] or d[2] != tuple(e["dims"]) or d[3] != e["classes"]:
                raise Bad("descriptor", f"{what}: {d}, expected {e['names'][0]} {e['type']} {e['dims']} {e['classes']}")
        elif name == "c2f":
            must_not_throw()
            if r.s() != "C":
                raise Bad("format", "c2f")
            want = [i for i, e in enumerate(E) for _ in range(e["cols"])]
            got = r.int()
            if got != want[h[1]]:
                raise Bad("column2feature", f"{what}: {got}, expected {want[h[1]]}")
        elif name in ("drop", "shuffle"):
            f = h[1]
            perm = perms.pop(0) if name == "shuffle" and perms else None
            if not (0 <= f < F):
                if not threw:
                    raise Bad("feature-index-out-of-range", f"{what}: feature index outside [0, {F}) accepted")
                continue
            must_not_throw()
            if name == "drop":
                flags[f] = "drop"
            else:
                if perm is None or sorted(perm) != list(range(case.N)):
                    raise Bad("shuffle-not-bijection", f"{what}: the reported permutation {perm} is not a bijection of 0..{case.N - 1}")
                flags[f] = perm
        elif name in ("undrop", "unshuffle"):
            must_not_throw()
            flags = [None] * F            # one flag per feature; both calls clear every flag (see ASSUMPTIONS)
        elif name == "shuffled":
            f = h[1]
            if not (0 <= f < F):
                if not threw:
                    raise Bad("feature-index-out-of-range", f"{what}: feature index outside [0, {F}) accepted")
                continue
            if not isinstance(flags[f], list):
                continue                   # precondition (assert only): never generated
            must_not_throw()
            if r.s() != "P":
                raise Bad("format", "shuffled")
            got = r.ints()
            want = [flags[f][s] for s in l]
            if got != want:
                raise Bad("shuffled-report", f"{what}: {got}, the permutation read back after shuffle() gives {want}")
        else:
            raise Bad("format", f"unknown history op {name}")
    return None


# ---------------------------------------------------------------------------------------------------------
# generator

N_BOUNDARY = [1, 2, 7, 8, 9, 15, 16, 17, 23, 24, 25]
# (input kind, generated kind) / (input kind 1, input kind 2, generated kind) instantiated by harness/c08.cpp
CUSTOM_ELEMWISE = [(0, 0), (0, 2), (1, 1), (1, 2), (2, 0), (2, 1), (2, 2), (2, 3), (3, 2), (3, 3)]
CUSTOM_PAIRWISE = [(0, 0, 2), (0, 1, 2), (1, 2, 2), (2, 3, 2), (3, 0, 2), (2, 2, 0), (2, 2, 1), (2, 2, 2), (2, 2, 3), (3, 3, 3)]
SCLASS_COUNTS = [1, 2, 3, 5, 255, 256, 257, 300]
MCLASS_COUNTS = [1, 2, 3, 4, 7]


def rand_spec(rng, ty=None, image=False):
    ty = rng.below(12) if ty is None else ty
    mk = rng.choice([0, 0, 1, 2, 3, 5, 9])
    if ty == 10:
        return (10, rng.choice(SCLASS_COUNTS), 1, 1, mk)
    if ty == 11:
        return (11, rng.choice(MCLASS_COUNTS), 1, 1, mk)
    if image:
        while True:
            b, c = (rng.range(3, 4), rng.range(3, 4)) if rng.chance(0.5) else (rng.range(3, 6), rng.range(3, 7))
            if (b, c) != (3, 3):
                return (ty, rng.range(1, 3), b, c, mk)
    if rng.chance(0.5):
        return (ty, 1, 1, 1, mk)
    while True:
        a, b, c = rng.range(1, 3), rng.range(1, 3), rng.range(1, 3)
        if 1 < a * b * c <= 18:
            return (ty, a, b, c, mk)


def sample_list(rng, N, allow_invalid=True):
    """index lists: all, reversed, repeats, N-1, N, -1, empty, beyond"""
    r = rng.below(100)
    if r < 14:
        return list(range(N))
    if r < 22:
        return list(range(N - 1, -1, -1))
    if r < 30:
        return []
    if r < 38:
        return [N - 1]
    if allow_invalid:
        if r < 44:
            return [N]
        if r < 48:
            return [-1]
        if r < 51:
            return rng.shuffle(list(range(min(N, 6))) + [N])
        if r < 53:
            return [0, N + rng.range(1, 9)]
        if r < 55:
            return [rng.below(N), -1 - rng.below(3), rng.below(N)]
    k = rng.range(1, min(2 * N + 2, 24))
    l = [rng.below(N) for _ in range(k)]
    if rng.chance(0.5) and k >= 2:
        l[rng.below(k)] = N - 1
        l[rng.below(k)] = l[0]           # a repeat on purpose
    return l


def make_case(rng, tier, N=None, specs=None, boundary=False):
    if N is None:
        N = rng.choice(N_BOUNDARY) if rng.chance(0.7) else rng.range(1, 200 if (tier != "quick" or rng.chance(0.15)) else 60)
    want_gradient = rng.chance(0.16)
    if want_gradient and N > 40 and specs is None:
        N = rng.range(1, 40)             # images make long rows: keep the views of the gradient cases moderate
    if specs is None:
        nf = rng.range(1, 12) if rng.chance(0.3) else rng.range(1, 6)
        specs = [rand_spec(rng) for _ in range(nf)]
        if want_gradient:
            specs[rng.below(nf)] = rand_spec(rng, rng.below(10), image=True)
            if rng.chance(0.3):          # a second image, or one below 3x3 in one direction (yields no gradient feature)
                specs[rng.below(nf)] = rand_spec(rng, rng.below(10), image=True) if rng.chance(0.6) else \
                    (rng.below(10), rng.range(1, 2), rng.choice([2, 5]), rng.choice([2, 4]), rng.choice([0, 3]))
            g33 = GEN_GRADIENT_3x3 and rng.chance(GEN_GRADIENT_3x3_RATE)
            if g33:
                specs[rng.below(nf)] = (rng.below(10), rng.range(1, 2), 3, 3, rng.choice([0, 2, 3]))
            else:   # a random 3x3 image would hit the known finding: make it 3x2
                specs = [(ty, a, b, 2, mk) if (ty < 10 and b == 3 and c == 3) else (ty, a, b, c, mk) for ty, a, b, c, mk in specs]
    nf = len(specs)
    # big class counts and many samples together make long lines: keep the product bounded
    target = rng.below(nf) if rng.chance(0.6) else -1
    if target >= 0 and not rng.chance(0.03):
        specs[target] = specs[target][:4] + (0,)       # the target cannot be optional
    seed = rng.below(1 << 31)
    threads = 1 if rng.chance(0.6) else rng.range(2, 4 if tier == "quick" else 16)
    ninp = nf - (1 if target >= 0 else 0)

    def sub():
        if ninp == 0 or rng.chance(0.55):
            return []
        return [rng.below(ninp) for _ in range(rng.range(1, min(ninp + 1, 5)))]

    gens = []
    kinds = [0, 1, 2, 3, 4]
    if rng.chance(0.85):
        for k in rng.shuffle(kinds)[:rng.range(1, 5)]:
            gens.append((k, sub(), None))
    else:
        for _ in range(rng.range(0, 3)):
            gens.append((rng.below(5), sub(), None))
    if GEN_PRODUCT_TWO_LISTS and rng.chance(0.15):
        gens.append((5, sub(), sub()))
    if rng.chance(0.22):                 # computers through the two generator templates (the combinations harness/c08.cpp instantiates)
        kinds_ = ["sclass", "mclass", "scalar", "struct"]
        tmp = Case("dataset hist 1 0 1 0 -1 0 0"); tmp.specs, tmp.target = specs, target
        present = {kinds_.index(tmp.kind_of(f)) for f in tmp.inputs()}
        for _ in range(rng.range(1, 2)):
            if rng.chance(0.5):
                good = [x for x in CUSTOM_ELEMWISE if x[0] in present]
                i, o = rng.choice(good if good and rng.chance(0.85) else CUSTOM_ELEMWISE)
                gens.insert(rng.below(len(gens) + 1), (8, sub() if rng.chance(0.5) else [], (i, None, o)))
            else:
                good = [x for x in CUSTOM_PAIRWISE if x[0] in present and x[1] in present]
                i1, i2, o = rng.choice(good if good and rng.chance(0.85) else CUSTOM_PAIRWISE)
                gens.insert(rng.below(len(gens) + 1), (9, sub() if rng.chance(0.5) else [], (sub() if rng.chance(0.5) else [], i1, i2, o)))
    if want_gradient:
        gl = sub() if rng.chance(0.3) else []
        gens.insert(rng.below(len(gens) + 1), (6, gl, None) if rng.chance(0.3) else (7, gl, rng.below(3)))
    # keep the number of scalar products moderate
    case = Case("dataset hist 1 0 1 0 -1 0 0")
    case.N, case.seed, case.threads, case.specs, case.target, case.gens, case.hist = N, seed, threads, specs, target, gens, []
    E = expected_features(case)
    while len(E) > 40 or sum(e["cols"] for e in E) > 700:
        k = next((i for i in range(len(gens) - 1, -1, -1) if gens[i][0] not in (6, 7)), len(gens) - 1) if want_gradient else len(gens) - 1
        gens.pop(k)
        E = expected_features(case)
    F = len(E); C = sum(e["cols"] for e in E)

    grad_feats = [i for i, e in enumerate(E) if e["kind"] == "gradient"]

    def feat(invalid_ok=True):
        if invalid_ok and rng.chance(0.06):
            return rng.choice([-1, F, F + 3])
        if grad_feats and rng.chance(0.5):
            return rng.choice(grad_feats)    # the history (drop / shuffle / select) goes through the gradient generator
        return rng.below(F) if F > 0 else rng.choice([-1, 0])

    hist = []
    flags = [0] * F                     # as coded: one flag per feature, undrop/unshuffle clear all
    nh = rng.range(4, 14)
    for _ in range(nh):
        r = rng.below(100)
        if r < 26:
            hist.append(("flatten", sample_list(rng, N)))
        elif r < 48:
            hist.append(("select", feat(), -1 if rng.chance(0.93) else rng.below(4), sample_list(rng, N)))
        elif r < 53:
            hist.append(("iselect", rng.below(4), sample_list(rng, N, allow_invalid=rng.chance(0.3))))
        elif r < 57:
            hist.append(("tselect", -1 if rng.chance(0.8) else rng.below(4), sample_list(rng, N)))
        elif r < 64:
            hist.append(("targets", sample_list(rng, N)))
        elif r < 67:
            hist.append(("itargets", rng.range(1, 9), sample_list(rng, N, allow_invalid=rng.chance(0.2))))
        elif r < 72:
            hist.append(("iflatten", rng.range(1, 9), sample_list(rng, N, allow_invalid=rng.chance(0.2))))
        elif r < 75:
            hist.append(("feature", feat()))
        elif r < 77 and C > 0:
            hist.append(("c2f", rng.below(C)))
        elif r < 84:
            f = feat(); hist.append(("drop", f))
            if 0 <= f < F:
                flags[f] = 1
                if rng.chance(0.6):
                    hist.append(("select", f, -1, sample_list(rng, N, allow_invalid=False)))
        elif r < 87:
            hist.append(("undrop",)); flags = [0] * F
        elif r < 94:
            f = feat(); hist.append(("shuffle", f))
            if 0 <= f < F:
                flags[f] = 2
                if rng.chance(0.5):
                    hist.append(("shuffled", f, sample_list(rng, N, allow_invalid=GEN_SHUFFLED_OUT_OF_RANGE)))
                if rng.chance(0.6):
                    hist.append(("select", f, -1, sample_list(rng, N, allow_invalid=False)))
        elif r < 97:
            hist.append(("unshuffle",)); flags = [0] * F
        else:
            sh = [f for f in range(F) if flags[f] == 2]
            if sh:
                hist.append(("shuffled", rng.choice(sh), sample_list(rng, N, allow_invalid=GEN_SHUFFLED_OUT_OF_RANGE)))
            else:
                hist.append(("flatten", sample_list(rng, N)))
    case.hist = hist
    return case.render()


def boundary_cases(rng, tier):
    ops = []
    # every storage type x every N boundary: one identity stack, views with N-1 / N / -1 / empty
    for N in [1, 7, 8, 9, 16, 17]:
        specs = [(ty, 1, 1, 1, 3) for ty in range(10)] + [(10, 2, 1, 1, 2), (11, 3, 1, 1, 2)]
        h = [("flatten", list(range(N))), ("flatten", [N - 1]), ("flatten", [N]), ("flatten", [-1]), ("flatten", []),
             ("select", 0, -1, [N - 1, 0, N - 1]), ("select", 0, -1, [N]), ("select", 0, -1, []), ("iselect", 2, list(range(N)))]
        c = Case("dataset hist 1 0 1 0 -1 0 0")
        c.N, c.seed, c.threads, c.specs, c.target, c.hist = N, 11 + N, 1, specs, -1, h
        c.gens = [(2, [], None), (0, [], None), (1, [], None)]
        ops.append(c.render())
    # class counts at the storage-type thresholds, all-missing / never-missing
    for classes in [1, 2, 256, 257, 300]:
        for mk in [0, 1, 2]:
            N = 9
            c = Case("dataset hist 1 0 1 0 -1 0 0")
            c.N, c.seed, c.threads, c.target = N, classes * 7 + mk, 1, 2
            c.specs = [(10, classes, 1, 1, mk), (11, min(classes, 5), 1, 1, mk), (10, classes, 1, 1, 0), (2, 2, 1, 3, mk)]
            c.gens = [(0, [], None), (1, [], None), (3, [], None)]
            c.hist = [("flatten", [0, 8, 8, 3]), ("select", 0, -1, list(range(N))), ("targets", [8, 0]), ("tselect", -1, [4, 4]),
                      ("drop", 0), ("flatten", [0, 8]), ("undrop",), ("shuffle", 1), ("select", 1, -1, list(range(N))),
                      ("flatten", list(range(N))), ("unshuffle",), ("flatten", [N])]
            ops.append(c.render())
    return ops


def grad3_cases(rng, tier):
    """function level: every kernel x mode x input type; constant / ramp / impulse / random images of 3..9 rows and columns"""
    ops = []
    def image(kind, rows, cols, lo, hi):
        if kind == 0:
            v = rng.range(lo, hi); return [v] * (rows * cols)
        if kind == 1:                    # horizontal / vertical / diagonal ramp: gx, gy known in closed form
            a, b = rng.range(-3, 3), rng.range(-3, 3)
            return [max(lo, min(hi, a * j + b * i)) for i in range(rows) for j in range(cols)]
        if kind == 2:
            px = [0] * (rows * cols); px[rng.below(rows * cols)] = rng.range(max(lo, 1), hi); return px
        return [rng.range(lo, hi) for _ in range(rows * cols)]
    sizes = [(3, 3), (3, 4), (4, 3), (3, 7), (5, 3), (4, 4)]
    for kernel in range(3):
        for mode in range(4):
            for ity in range(5):
                reps = 3 if tier == "quick" else 12
                for rep in range(reps):
                    rows, cols = sizes[rep] if rep < len(sizes) and rng.chance(0.6) else (rng.range(3, 9), rng.range(3, 9))
                    lo, hi = (0, 100) if ity == 4 else (-100, 100) if ity == 2 else (-1000, 1000)
                    ops.append(render_grad3(kernel, mode, ity, rows, cols, image(rng.below(4) if rep else 3, rows, cols, lo, hi)))
    return ops


def gradient_boundary_cases(rng, tier):
    """every kernel on a fixed schema: 2-channel 4x5 image with missing samples, a 2x5 one (no features), a scalar; views, drop / shuffle histories through the gradient features"""
    ops = []
    for kernel in range(3):
        for N in (1, 9):
            c = Case("dataset hist 1 0 1 0 -1 0 0")
            c.N, c.seed, c.threads, c.target = N, 77 + kernel + N, 1, -1
            c.specs = [(rng.below(10), 2, 4, 5, 3), (2, 1, 2, 5, 0), (8, 1, 1, 1, 2)]
            c.gens = [(2, [], None), (7, [], kernel), (3, [], None)]
            all_ = list(range(N))
            c.hist = [("flatten", all_), ("select", 1, -1, all_ + [N - 1]), ("select", 4, -1, all_), ("select", 7, 3, [N - 1, 0]),
                      ("iselect", 3, all_), ("drop", 3), ("select", 3, -1, all_), ("flatten", all_), ("undrop",), ("shuffle", 6),
                      ("select", 6, -1, all_), ("shuffled", 6, all_), ("flatten", all_[::-1]), ("unshuffle",), ("select", 6, -1, all_),
                      ("select", 1, 2, all_), ("select", 2, -1, [N]), ("feature", 16), ("feature", 17), ("iflatten", 4, all_)]
            ops.append(c.render())
    return ops


def gen(rng, tier):
    ops = []
    cp = os.path.join(vlib.VERIF, "corpus", "C08", "ops.txt")
    if os.path.exists(cp):
        ops += [l.strip() for l in open(cp) if l.strip() and not l.startswith("#")]
    ops += boundary_cases(rng, tier)
    ops += gradient_boundary_cases(rng, tier)
    ops += grad3_cases(rng, tier)
    for _ in range(2500 if tier == "quick" else 12000):
        ops.append(make_case(rng, tier))
    return ops


# ---------------------------------------------------------------------------------------------------------
# bookkeeping for check.py

def compare(aug, impl, model):
    """exact token-wise comparison; `?` on the model side = contents not specified by the model (unwritten buffer of the
    known finding gradient-1x1-select-unwritten)"""
    if impl == model:
        return True
    a, b = impl.split(), model.split()
    return len(a) == len(b) and all(x == y or y == "?" for x, y in zip(a, b))


def nontrivial(op):
    if is_grad3(op):
        try:
            px = parse_grad3(op)[5]
            return len(set(px)) > 1
        except Exception:
            return False
    try:
        c = Case(op)
    except Exception:
        return False
    pools = set()
    for ty, a, b, cc, mk in c.specs:
        pools.add(4 if ty == 11 else (4 if a <= 256 else 5) if ty == 10 else ty)
    missing = any(c.stored(f, s) is None for f in range(len(c.specs)) for s in range(c.N))
    repeat = any(isinstance(h[-1], list) and len(set(h[-1])) < len(h[-1]) for h in c.hist)
    return len(pools) >= 2 and missing and repeat


def distribution(ops):
    d = {}
    def inc(k):
        d[k] = d.get(k, 0) + 1
    for op in ops:
        if is_grad3(op):
            try:
                k, m, ity, rows, cols, _ = parse_grad3(op)
                inc(f"grad3:{KERNEL_NAMES[k]}::{GRAD_MODES[m]}"); inc(f"grad3:input-type-{ity}")
                inc("grad3:image:" + ("3x3" if (rows, cols) == (3, 3) else "3xN" if 3 in (rows, cols) else "larger"))
            except Exception:
                inc("unparsed")
            continue
        try:
            c = Case(op)
        except Exception:
            inc("unparsed"); continue
        inc("samples:" + ("1" if c.N == 1 else "mult8" if c.N % 8 == 0 else "other"))
        inc("threads:" + ("1" if c.threads == 1 else ">1"))
        inc("target:" + ("none" if c.target < 0 else TYPE_NAMES[c.specs[c.target][0]]))
        for k, _, l2 in c.gens:
            inc("gen:" + ["sclass", "mclass", "scalar", "struct", "product", "product2", "gradient", "gradient-kernel",
                          "custom-elemwise", "custom-pairwise"][k])
            if k == 8:
                inc(f"custom:elemwise:{l2[0]}->{l2[2]}")
            if k == 9:
                inc(f"custom:pairwise:{l2[1]}x{l2[2]}->{l2[3]}")
            if k in (6, 7):
                inc("gradient-kernel:" + KERNEL_NAMES[kernel_of(k, l2)])
        try:
            E = expected_features(c)
        except Exception:
            E = []
        ge = [e for e in E if e["kind"] == "gradient"]
        if ge:
            inc("gradient:stacks-with-features")
            if any(e["cols"] > 1 for e in ge):
                inc("gradient:output>1x1")
            gi = {i for i, e in enumerate(E) if e["kind"] == "gradient"}
            for h in c.hist:
                if h[0] in ("drop", "shuffle", "select") and h[1] in gi:
                    inc("gradient:" + h[0])
        for h in c.hist:
            inc("op:" + h[0])
            if isinstance(h[-1], list):
                l = h[-1]
                inc("list:" + ("empty" if not l else "has-N" if c.N in l else "negative" if min(l) < 0 else "beyond" if max(l) > c.N else
                               "repeat" if len(set(l)) < len(l) else "plain"))
    return d


def _old_pairing_hazard(case):
    """would the pre-767882d make_pairwise index a mapping out of bounds / pair wrongly for this stack?"""
    inp = case.inputs()
    for k, l1, l2 in case.gens:
        if k != 5:
            continue
        pick = lambda l: [i for i in (l if l else range(len(inp))) if case.kind_of(inp[i]) == "scalar"]
        s1, s2 = pick(l1), pick(l2)
        for i1, x in enumerate(s1):
            for i2, y in enumerate(s2):
                if x > y and (i2 >= len(s1) or i1 >= len(s2)):
                    return True
    return False


def classify(op, kind, detail):
    if kind == "oracle" and detail.startswith("["):
        return detail[1:detail.index("]")]
    if is_grad3(op):
        return "grad3-crash" if kind == "crash" else "corr:grad3"
    try:
        c = Case(op)
    except Exception:
        return "unparsed"
    if kind == "crash":
        lists = [(h[0], h[-1]) for h in c.hist if isinstance(h[-1], list)]
        if _old_pairing_hazard(c):
            return "product-two-lists-oob"
        if any(n == "shuffled" and not samples_valid(c, l) for n, l in lists):
            return "shuffled-sample-index-unchecked"
        if any(l and (min(l) < 0 or max(l) > c.N) for _, l in lists):
            return "sample-index-out-of-range"
        if any(c.N in l for _, l in lists):
            return "sample-index-eq-N"
        if any(l == [] for _, l in lists):
            return "empty-index-list"
        return "crash"
    return "corr:" + ",".join(sorted({h[0] for h in c.hist}))[:80]


def preconditions_ok(c):
    """the preconditions (asserts) of the API that the generator respects: `shuffled` only on a currently shuffled feature,
    `c2f` only on a valid column"""
    try:
        E = expected_features(c)
    except Exception:
        return False
    F = len(E); C = sum(e["cols"] for e in E)
    flags = [0] * F
    for h in c.hist:
        if h[0] == "drop" and 0 <= h[1] < F:
            flags[h[1]] = 1
        elif h[0] == "shuffle" and 0 <= h[1] < F:
            flags[h[1]] = 2
        elif h[0] in ("undrop", "unshuffle"):
            flags = [0] * F
        elif h[0] == "shuffled" and 0 <= h[1] < F and flags[h[1]] != 2:
            return False
        elif h[0] == "c2f" and not (0 <= h[1] < C):
            return False
    return True


def shrink_candidates(op):
    for cand in _shrink_candidates(op):
        try:
            if is_grad3(cand) or preconditions_ok(Case(cand)):
                yield cand
        except Exception:
            continue


def _shrink_grad3(op):
    try:
        kernel, mode, ity, rows, cols, px = parse_grad3(op)
    except Exception:
        return
    img = [px[i * cols:(i + 1) * cols] for i in range(rows)]
    if rows > 3:
        for cut in (img[1:], img[:-1]):
            yield render_grad3(kernel, mode, ity, rows - 1, cols, [x for r in cut for x in r])
    if cols > 3:
        for cut in ([r[1:] for r in img], [r[:-1] for r in img]):
            yield render_grad3(kernel, mode, ity, rows, cols - 1, [x for r in cut for x in r])
    for i, x in enumerate(px):
        if x != 0:
            yield render_grad3(kernel, mode, ity, rows, cols, px[:i] + [0] + px[i + 1:])


def _shrink_candidates(op):
    if is_grad3(op):
        yield from _shrink_grad3(op)
        return
    try:
        c = Case(op)
    except Exception:
        return
    c.perms = None
    base = (c.specs[:], c.gens[:], c.hist[:])
    for i in range(len(c.hist)):                               # drop one history op
        c.hist = base[2][:i] + base[2][i + 1:]
        yield c.render()
    c.hist = base[2][:]
    for i in range(len(c.gens)):                               # drop one generator
        c.gens = base[1][:i] + base[1][i + 1:]
        yield c.render()
    c.gens = base[1][:]
    for i, h in enumerate(c.hist):                             # halve an index list
        if isinstance(h[-1], list) and len(h[-1]) > 1:
            for half in (h[-1][:len(h[-1]) // 2], h[-1][len(h[-1]) // 2:]):
                c.hist = base[2][:i] + [h[:-1] + (half,)] + base[2][i + 1:]
                yield c.render()
    c.hist = base[2][:]
    if c.threads > 1:
        t = c.threads; c.threads = 1
        yield c.render()
        c.threads = t
