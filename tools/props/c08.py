"""C08 — all dataset views agree with the stored feature values, including missing ones (DESIGN.md §4 C08).

One op line = one self-contained history on a harness-defined in-memory datasource (format: harness/c08.cpp). The stored
values and the missing mask are a function of the seed in the line (`mix`), re-implemented here, in the harness and in the
Lean driver, so all three sides know what is stored.
"""
import math, os
import vlib
from vlib import Toks, lst, h2f

ID = "C08"
LEVEL = "proof"
HARNESS = "c08"
LEAN_MODULES = ["NanoVerif.Props.C08"]
NS = "NanoVerif.Dataset."
OBLIGATIONS = [NS + t for t in [
    "getbit_setbit", "ranges_disjoint_tile", "storage_refines", "stored_never_set",
    "flatten_eq_encode_select", "identity_eq_stored", "missing_marked",
    "targets_spec", "product_spec", "columns_total", "column2feature_spec",
    "history_view", "history_restore", "shuffle_is_reported_bijection",
    "shuffled_reports", "index_out_of_range_rejected", "empty_index_list_accepted", "wf_reachable",
]]
TRUSTED = [
    "Lean 4.33.0 kernel (core library only for this property; no Mathlib import)",
    "axioms: at most propext, Classical.choice, Quot.sound (audited per theorem on every run)",
    "hand-written model NanoVerif/Model/Mask.lean + Model/Dataset.lean (on top of the C16 tensor model Model/Tensor.lean) of mask.h, "
    "datasource.h/.cpp, datasource/iterator.h, storage.h, generator/select.h, elemwise*.h, pairwise*.h/.cpp, generator.cpp, dataset.cpp; "
    "tied to the code by the history differential (harness/c08.cpp on the real library vs the compiled Lean driver, exact comparison)",
    "tools/props/c08.py: generator + the independent python oracle (views recomputed from the seed formula and the documented "
    "encodings); harness/c08.cpp; g++/libstdc++/Eigen",
    "oracle of the model: std::shuffle returns some permutation; it is read back through dataset_t::shuffled(f, 0..N-1) right after "
    "every shuffle() and checked to be a bijection of the samples on every case",
]
ASSUMPTIONS = [
    "stored values are small integers (|v| <= 40), exactly representable in all ten storage types and in scalar_t: the conversions "
    "between storage types are not exercised for rounding; the model stores Int",
    "generator_t keeps ONE flag byte per generated feature (0 default / 1 dropped / 2 shuffled): the last drop()/shuffle() call on a "
    "feature wins (dropping a shuffled feature replaces the shuffle and vice versa) and both undrop() and unshuffle() clear every "
    "flag; modelled as coded, the oracle follows the same rule",
    "dataset_t::shuffled(f, samples) on a feature that is not currently shuffled dereferences an empty map (assert only): a "
    "precondition, never generated; column2feature(column) has no range check (columns are not sample or feature indices): only "
    "valid columns are asked; feature subsets passed to a generator's constructor are valid input-feature indices (assert only)",
    "asserts are compiled out in the release build; the model returns none where an assert would fire and the theorems are stated "
    "under the asserted conditions (sample < samples(), feature < features())",
    "the gradient generator (image kernels) is outside the Lean model: its op lines are checked by the python oracle only "
    "(model_skip); the flatten/targets iterators are modelled at scaling = none (NaN -> 0 by dataset/stats.cpp nan2zero, as coded)",
    "oracle relaxations (nothing is read in either case): select_iterator_t::loop over a kind of feature the dataset does not have "
    "accepts an out-of-range sample list; targets_iterator_t::loop on an unsupervised dataset with an empty sample list does not throw",
    "hypotheses of the theorems: Storage.WF / Dataset.WF (proved for everything built by resize, set, add and any history: "
    "wf_reachable, sets_wf, adds_wf, run_keeps) and ClassValuesOk (stored labels / hits are non-negative: classValuesOk_resize/_set); "
    "the reported permutation being a bijection is a hypothesis of shuffle_is_reported_bijection and is checked on every case",
    "memory safety is observed by the ASan/UBSan flavour of the thorough tier only",
]
RULE = ("corpus; boundary schemas (samples in {1,7,8,9,15,16,17,...}, class counts {1,2,3,255,256,257,300}, all-missing and never-missing "
        "features, every storage type) then random schemas of 1..12 features over the 12 feature types, dims <= 3x3x2 (a few 4x4 images for "
        "the gradient generator), samples 1..200, 2500 (quick) / 12000 (thorough) random cases, target of any type or absent, generator stacks (identity x4, product with one or two "
        "lists, gradient, feature subsets with repeats) and histories of 4..14 ops (flatten/select/targets/iterators with index lists: "
        "all, reversed, repeats, N-1, N, -1, empty; descriptors; drop/undrop/shuffle/unshuffle/shuffled; invalid feature indices; wrong "
        "overloads), 1..4 threads (quick) / 1..16 (thorough). A case is non-trivial when the schema uses >= 2 storage types, has >= 1 missing "
        "value and some index list of the history has a repeat; distinct by op text")
FLAVOUR = {"quick": "plain", "thorough": "asan"}
HARNESS_TIMEOUT = 1800

# further op classes that were defects of the unchanged tree (fixed in /repo by cace01b and 767882d): generated by default
GEN_SHUFFLED_OUT_OF_RANGE = True
GEN_PRODUCT_TWO_LISTS = True
# gradient generator on 3x3 images: the generated 1x1x1 feature is described as scalar but only the struct select is implemented
# (dataset_t::select returns the unwritten buffer): KNOWN_FINDINGS.json key gradient-1x1-select-unwritten; generated at a low rate
GEN_GRADIENT_3x3 = True
GEN_GRADIENT_3x3_RATE = 0.15      # of the gradient stacks

M64 = (1 << 64) - 1
NAN = float("nan")
TYPE_NAMES = ["int8", "int16", "int32", "int64", "uint8", "uint16", "uint32", "uint64", "float32", "float64", "sclass", "mclass"]


def mix(seed, f, s, j):
    z = (seed * 0x9E3779B97F4A7C15 + f * 0xBF58476D1CE4E5B9 + s * 0x94D049BB133111EB + j * 0xD6E8FEB86659FD93 + 0x1234567) & M64
    z = ((z ^ (z >> 30)) * 0xBF58476D1CE4E5B9) & M64
    z = ((z ^ (z >> 27)) * 0x94D049BB133111EB) & M64
    return z ^ (z >> 31)


# ---------------------------------------------------------------------------------------------------------
# op <-> structure

class Case:
    """parsed op line"""
    def __init__(self, line):
        t = Toks(line)
        assert t.s() == "dataset" and t.s() == "hist"
        self.N = t.int(); self.seed = t.int(); self.threads = t.int()
        nf = t.int()
        self.specs = []
        for _ in range(nf):
            ty = t.int(); a = t.int(); b = t.int(); c = t.int(); mk = t.int()
            self.specs.append((ty, a, b, c, mk))
        self.target = t.int()
        ng = t.int()
        self.gens = []
        for _ in range(ng):
            k = t.int(); l1 = t.ints()
            l2 = t.ints() if k == 5 else None
            self.gens.append((k, l1, l2))
        nh = t.int()
        self.hist = []
        for _ in range(nh):
            op = t.s()
            if op in ("flatten", "targets"):
                self.hist.append((op, t.ints()))
            elif op in ("iflatten", "itargets", "iselect", "tselect", "shuffled"):
                a0 = t.int(); self.hist.append((op, a0, t.ints()))
            elif op == "select":
                a0 = t.int(); a1 = t.int(); self.hist.append((op, a0, a1, t.ints()))
            elif op in ("feature", "c2f", "drop", "shuffle"):
                self.hist.append((op, t.int()))
            elif op in ("undrop", "unshuffle"):
                self.hist.append((op,))
            else:
                raise ValueError("history op " + op)
        self.perms = None
        if not t.done():
            assert t.s() == "perms"
            k = t.int()
            self.perms = [t.ints() for _ in range(k)]
        assert t.done()

    # -- what is stored ------------------------------------------------------------------------------------
    def comps(self, f):
        ty, a, b, c, _ = self.specs[f]
        return 1 if ty == 10 else a if ty == 11 else a * b * c

    def stored(self, f, s):
        """None = missing, else the list of component values"""
        ty, a, b, c, mk = self.specs[f]
        if mk != 0 and mix(self.seed, f, s, 0xFFFF) % mk == 0:
            return None
        if ty == 10:
            return [mix(self.seed, f, s, 0) % a]
        if ty == 11:
            return [mix(self.seed, f, s, j) % 2 for j in range(a)]
        uns = 4 <= ty <= 7
        return [(mix(self.seed, f, s, j) % 41) - (0 if uns else 20) for j in range(a * b * c)]

    def inputs(self):
        """storage indices of the input features (the target is not an input)"""
        return [f for f in range(len(self.specs)) if f != self.target]

    def kind_of(self, f):
        ty, a, b, c, _ = self.specs[f]
        return "sclass" if ty == 10 else "mclass" if ty == 11 else "scalar" if a * b * c == 1 else "struct"

    def render(self, with_perms=False):
        w = ["dataset", "hist", self.N, self.seed, self.threads, len(self.specs)]
        for sp in self.specs:
            w += list(sp)
        w += [self.target, len(self.gens)]
        for k, l1, l2 in self.gens:
            w += [k, lst(l1)]
            if k == 5:
                w += [lst(l2)]
        w += [len(self.hist)]
        for h in self.hist:
            w.append(h[0])
            for x in h[1:]:
                w.append(lst(x) if isinstance(x, list) else x)
        return " ".join(str(x) for x in w)


# ---------------------------------------------------------------------------------------------------------
# the documented bookkeeping: which features a generator stack produces (used by the generator to pick feature indices and by
# the oracle as the expectation)

SOBEL = (0.25, 0.5, 0.25)
GRAD_MODES = ["gx", "gy", "gg", "theta"]


def expected_features(case):
    """list of dicts: kind, src (storage indices), name(s), type code, dims, classes, cols"""
    inp = case.inputs()
    E = []

    def pick(lst_, pred):
        idx = lst_ if lst_ else list(range(len(inp)))
        return [i for i in idx if pred(inp[i])]

    for k, l1, l2 in case.gens:
        if k in (0, 1, 2, 3):
            want = ["sclass", "mclass", "scalar", "struct"][k]
            for i in pick(l1, lambda f: case.kind_of(f) == want):
                f = inp[i]
                ty, a, b, c, _ = case.specs[f]
                if want == "sclass":
                    E.append(dict(kind=want, src=(f,), names=[f"f{f}"], type=10, dims=(1, 1, 1), classes=a, cols=a - 1))
                elif want == "mclass":
                    E.append(dict(kind=want, src=(f,), names=[f"f{f}"], type=11, dims=(1, 1, 1), classes=a, cols=a))
                else:
                    E.append(dict(kind=want, src=(f,), names=[f"f{f}"], type=ty, dims=(a, b, c), classes=0, cols=a * b * c))
        elif k in (4, 5):
            s1 = pick(l1, lambda f: case.kind_of(f) == "scalar")
            s2 = pick(l1 if k == 4 else l2, lambda f: case.kind_of(f) == "scalar")
            pairs = {}
            for x in s1:
                for y in s2:
                    pairs.setdefault((min(x, y), max(x, y)), (x, y))
            for key in sorted(pairs):
                x, y = pairs[key]
                fx, fy = inp[x], inp[y]
                E.append(dict(kind="product", src=(fx, fy), names=[f"product(f{fx},f{fy})", f"product(f{fy},f{fx})"],
                              type=9, dims=(1, 1, 1), classes=0, cols=1))
        elif k == 6:
            for i in pick(l1, lambda f: case.kind_of(f) == "struct"):
                f = inp[i]
                ty, a, b, c, _ = case.specs[f]
                if b >= 3 and c >= 3:
                    for ch in range(a):
                        for mode in range(4):
                            E.append(dict(kind="gradient", src=(f,), channel=ch, mode=mode,
                                          names=[f"sobel::{GRAD_MODES[mode]}(f{f}[channel::{ch}])"], type=9,
                                          dims=(1, b - 2, c - 2), classes=0, cols=(b - 2) * (c - 2)))
    return E


def select_kind(e):
    """which select overload serves the feature (by its descriptor)"""
    if e["kind"] in ("sclass", "mclass"):
        return e["kind"]
    return "scalar" if e["dims"][0] * e["dims"][1] * e["dims"][2] == 1 else "struct"


def gradient_values(case, e, vals):
    f = e["src"][0]
    _, a, b, c, _ = case.specs[f]
    ch = e["channel"]
    img = [[float(vals[ch * b * c + r * c + q]) for q in range(c)] for r in range(b)]
    out = []
    k0, k1, k2 = SOBEL
    for r in range(b - 2):
        for q in range(c - 2):
            gx = k0 * (img[r][q + 2] - img[r][q]) + k1 * (img[r + 1][q + 2] - img[r + 1][q]) + k2 * (img[r + 2][q + 2] - img[r + 2][q])
            gy = k0 * (img[r + 2][q] - img[r][q]) + k1 * (img[r + 2][q + 1] - img[r][q + 1]) + k2 * (img[r + 2][q + 2] - img[r][q + 2])
            out.append([gx, gy, math.sqrt(gx * gx + gy * gy), math.atan2(gy, gx)][e["mode"]])
    return out


def feature_value(case, e, s):
    """the value of generated feature e for stored sample s: None = missing, else list of numbers"""
    if e["kind"] == "product":
        x = case.stored(e["src"][0], s); y = case.stored(e["src"][1], s)
        return None if x is None or y is None else [float(x[0]) * float(y[0])]
    v = case.stored(e["src"][0], s)
    if v is None:
        return None
    if e["kind"] == "gradient":
        return gradient_values(case, e, v)
    return v


def view_rows(case, e, flag, samples):
    """per position of the sample list: None (missing) or the value; flag = None | 'drop' | permutation"""
    if flag == "drop":
        return [None] * len(samples)
    if isinstance(flag, list):
        samples = [flag[s] for s in samples]
    return [feature_value(case, e, s) for s in samples]


def encode_flatten(e, v):
    """the documented dense encoding of one value"""
    if v is None:
        return [NAN] * e["cols"]
    if e["kind"] == "sclass":
        return [1.0 if k == v[0] else -1.0 for k in range(e["classes"] - 1)]      # one-hot +-1 with C-1 columns
    if e["kind"] == "mclass":
        return [2.0 * h - 1.0 for h in v]
    return [float(x) for x in v]


def same(a, b, tol=0.0):
    if a != a or b != b:
        return a != a and b != b
    return a == b or abs(a - b) <= tol * max(abs(a), abs(b), 1.0)


# ---------------------------------------------------------------------------------------------------------
# oracle

class Bad(Exception):
    def __init__(self, key, why):
        super().__init__(why)
        self.key, self.why = key, why


def split_result(res):
    parts = [p.split() for p in res.split(" ; ")]
    return parts[0], parts[1:]


def samples_valid(case, l):
    return all(0 <= s < case.N for s in l)


def invalid_key(case, l, where):
    if case.N in l and all(0 <= s <= case.N for s in l):
        return "sample-index-eq-N" if where != "shuffled" else "shuffled-sample-index-unchecked"
    return "sample-index-out-of-range" if where != "shuffled" else "shuffled-sample-index-unchecked"


def check_header(case, E, head):
    r = Toks(" ".join(head))
    if r.s() != "ok":
        raise Bad("valid-datasource-rejected" if head[:1] == ["throw"] else "header",
                  f"implementation did not answer ok: {' '.join(head)[:80]}")
    if r.s() != "H":
        raise Bad("header", "no header")
    nfeat = r.int(); ncols = r.int()
    descs = []
    for _ in range(nfeat):
        descs.append((r.s(), r.int(), (r.int(), r.int(), r.int()), r.int()))
    has2 = any(k == 5 for k, _, _ in case.gens)
    got = [d[0] for d in descs]
    if nfeat != len(E):
        raise Bad("product-two-lists-wrong-pairs" if has2 else "feature-count",
                  f"features() = {nfeat} ({got}), the generator stack documents {len(E)} ({[e['names'][0] for e in E]})")
    for i, (e, d) in enumerate(zip(E, descs)):
        if d[0] not in e["names"] or d[1] != e["type"] or d[2] != tuple(e["dims"]) or d[3] != e["classes"]:
            raise Bad("product-two-lists-wrong-pairs" if (has2 and e["kind"] == "product") else "descriptor",
                      f"feature({i}) = {d}, expected {e['names'][0]} type {e['type']} dims {e['dims']} classes {e['classes']}")
    want_cols = sum(e["cols"] for e in E)
    if ncols != want_cols:
        raise Bad("columns-total", f"columns() = {ncols}, the features need {want_cols}")
    if r.s() != "M":
        raise Bad("header", "no column map")
    c2f = r.ints()
    want = [i for i, e in enumerate(E) for _ in range(e["cols"])]
    if c2f != want:
        raise Bad("column2feature", f"column2feature = {c2f[:40]}, expected consecutive blocks {want[:40]}")
    if r.s() != "G":
        raise Bad("header", "no target descriptor")
    td = (r.s(), r.int(), (r.int(), r.int(), r.int()), r.int())
    tdims = (r.int(), r.int(), r.int()); task = r.int()
    if case.target < 0:
        if td[0] != "-" or tdims != (0, 0, 0) or task != 3:
            raise Bad("target-descriptor", f"no target given, but target() = {td}, dims {tdims}, task {task}")
    else:
        ty, a, b, c, _ = case.specs[case.target]
        if ty >= 10:
            want_td = (f"f{case.target}", ty, (1, 1, 1), a); want_dims = (a, 1, 1); want_task = 1 if ty == 10 else 2
        else:
            want_td = (f"f{case.target}", ty, (a, b, c), 0); want_dims = (a, b, c); want_task = 0
        if td != want_td or tdims != want_dims or task != want_task:
            raise Bad("target-descriptor", f"target() = {td} dims {tdims} task {task}, expected {want_td} {want_dims} {want_task}")
    return descs


def parse_view(r):
    """-> (kind, n, shape, values)"""
    tag = r.s()
    if tag == "S0":
        n = r.int(); return "sclass", n, (), [r.int() for _ in range(n)]
    if tag == "S1":
        n = r.int(); c = r.int(); return "mclass", n, (c,), [r.int() for _ in range(n * c)]
    if tag == "S2":
        n = r.int(); return "scalar", n, (), [r.f() for _ in range(n)]
    if tag == "S3":
        n = r.int(); d = (r.int(), r.int(), r.int()); return "struct", n, d, [r.f() for _ in range(n * d[0] * d[1] * d[2])]
    raise Bad("format", f"unknown view tag {tag}")


def check_view(case, e, flag, samples, view, what):
    kind, n, shape, vals = view
    tol = 1e-12 if e["kind"] == "gradient" else 0.0
    if kind != select_kind(e) or n != len(samples):
        raise Bad("select-shape", f"{what}: view kind {kind} rows {n}, expected {select_kind(e)} rows {len(samples)}")
    rows = view_rows(case, e, flag, samples)
    if kind == "sclass":
        want = [-1 if v is None else v[0] for v in rows]
    elif kind == "mclass":
        if shape != (e["classes"],):
            raise Bad("select-shape", f"{what}: {shape} classes, expected {e['classes']}")
        want = [x for v in rows for x in ([-1] * e["classes"] if v is None else v)]
    elif kind == "scalar":
        want = [NAN if v is None else float(v[0]) for v in rows]
    else:
        if shape != tuple(e["dims"]):
            raise Bad("select-shape", f"{what}: dims {shape}, expected {e['dims']}")
        want = [x for v in rows for x in ([NAN] * e["cols"] if v is None else [float(y) for y in v])]
    if len(vals) != len(want) or not all(same(float(a), float(b), tol) for a, b in zip(vals, want)):
        k = next((i for i, (a, b) in enumerate(zip(vals, want)) if not same(float(a), float(b), tol)), -1)
        missing = k >= 0 and (want[k] != want[k] or want[k] == -1)
        key = KNOWN_KEY if (e["kind"] == "gradient" and tuple(e["dims"]) == (1, 1, 1) and kind == "scalar" and flag != "drop") else \
              "drop-view" if flag == "drop" else "shuffle-view" if isinstance(flag, list) else \
              "product-view" if e["kind"] == "product" else "missing-marker" if missing else "select-view"
        raise Bad(key, f"{what}: the view differs from the stored values at position {k}: got {vals[k] if k >= 0 else '?'}, "
                       f"expected {want[k] if k >= 0 else '?'} (feature {e['names'][0]}, flag {'perm' if isinstance(flag, list) else flag})")


def check_matrix(r, tag, n):
    if r.s() != tag:
        raise Bad("format", f"expected {tag}")
    rows = r.int()
    if rows != n:
        raise Bad("view-shape", f"{tag}: {rows} rows for {n} samples")
    return rows


KNOWN_KEY = "gradient-1x1-select-unwritten"


def oracle(op, res):
    """first violation found; the known finding (KNOWN_FINDINGS.json) is reported only when nothing else is wrong with the line"""
    soft = []
    try:
        why = _oracle(op, res, soft)
    except Bad as b:
        return f"[{b.key}] {b.why}"
    if why:
        return why
    return f"[{soft[0].key}] {soft[0].why}" if soft else None


def _oracle(op, res, soft):
    case = Case(op)
    # the target cannot be optional (datasource_t::load)
    if case.target >= 0 and any(case.stored(case.target, s) is None for s in range(case.N)):
        return None if res == "throw critical" else "[optional-target] a target with missing values was not rejected by load()"
    head, parts = split_result(res)
    E = expected_features(case)
    check_header(case, E, head)
    F = len(E); C = sum(e["cols"] for e in E)
    if len(parts) != len(case.hist):
        raise Bad("format", f"{len(parts)} results for {len(case.hist)} history ops")
    flags = [None] * F
    perms = list(case.perms or [])
    for h, part in zip(case.hist, parts):
        r = Toks(" ".join(part))
        name = h[0]
        threw = part == ["X"]
        l = h[-1] if isinstance(h[-1], list) else None
        what = f"{name} {h[1:]}"[:120]
        if l is not None and not samples_valid(case, l):
            if name == "iselect" and not any(select_kind(e) == ["sclass", "mclass", "scalar", "struct"][h[1]] for e in E):
                continue                   # no feature of that kind: nothing is selected, nothing is read
            if not threw:
                raise Bad(invalid_key(case, l, name), f"{what}: an index outside [0, {case.N}) was accepted instead of rejected")
            continue
        # from here on the sample list (if any) is valid; an empty list is a valid (empty) list
        def must_not_throw():
            if threw:
                raise Bad("empty-index-list" if l == [] else "valid-call-rejected", f"{what}: a valid call was rejected with an exception")
        if name in ("flatten", "iflatten"):
            must_not_throw()
            n = check_matrix(r, "F", len(l)); cols = r.int()
            if cols != C:
                raise Bad("view-shape", f"{what}: {cols} columns, columns() = {C}")
            vals = [r.f() for _ in range(n * cols)]
            col = 0
            for i, e in enumerate(E):
                rows = view_rows(case, e, flags[i], l)
                tol = 1e-12 if e["kind"] == "gradient" else 0.0
                for k, v in enumerate(rows):
                    want = encode_flatten(e, v)
                    if name == "iflatten":
                        want = [0.0 if x != x else x for x in want]
                    got = vals[k * cols + col:k * cols + col + e["cols"]]
                    if not all(same(a, b, tol) for a, b in zip(got, want)):
                        key = "drop-view" if flags[i] == "drop" else "shuffle-view" if isinstance(flags[i], list) else \
                              "flatten-sclass" if e["kind"] == "sclass" else "product-view" if e["kind"] == "product" else "flatten-view"
                        raise Bad(key, f"{what}: row {k} (sample {l[k]}) columns [{col},{col + e['cols']}) of {e['names'][0]} = "
                                       f"{got[:8]}, the documented encoding of the stored value is {want[:8]}")
                col += e["cols"]
        elif name == "select":
            f, o = h[1], h[2]
            if not (0 <= f < F):
                if not threw:
                    raise Bad("feature-index-out-of-range", f"{what}: feature index outside [0, {F}) accepted")
                continue
            e = E[f]
            kinds = ["sclass", "mclass", "scalar", "struct"]
            if o >= 0 and kinds[o] != select_kind(e):
                if not threw:
                    raise Bad("select-wrong-kind", f"{what}: a {kinds[o]} view of a {select_kind(e)} feature was not rejected")
                continue
            must_not_throw()
            try:
                check_view(case, e, flags[f], l, parse_view(r), what)
            except Bad as b:
                if b.key != KNOWN_KEY:
                    raise
                soft.append(b)
        elif name == "iselect":
            must_not_throw()
            kinds = ["sclass", "mclass", "scalar", "struct"]
            if r.s() != "I":
                raise Bad("format", "iselect")
            k = r.int()
            want_f = [i for i, e in enumerate(E) if select_kind(e) == kinds[h[1]]]
            got_f = []
            for _ in range(k):
                f = r.int(); got_f.append(f)
                view = parse_view(r)
                if 0 <= f < F:
                    try:
                        check_view(case, E[f], flags[f], l, view, what + f" feature {f}")
                    except Bad as b:
                        if b.key != KNOWN_KEY:
                            raise
                        soft.append(b)
            if got_f != want_f:
                raise Bad("iselect-features", f"{what}: visited features {got_f}, the {kinds[h[1]]} features are {want_f}")
        elif name == "tselect":
            o = h[1]
            tk = None if case.target < 0 else case.kind_of(case.target)
            kinds = ["sclass", "mclass", "scalar", "struct"]
            if tk is None or (o >= 0 and kinds[o] != tk):
                if not threw:
                    raise Bad("target-wrong-kind", f"{what}: target view of the wrong kind / without target not rejected")
                continue
            must_not_throw()
            ty, a, b, c, _ = case.specs[case.target]
            e = dict(kind=tk, src=(case.target,), names=[f"f{case.target}"], type=ty, dims=(1, 1, 1) if ty >= 10 else (a, b, c),
                     classes=a if ty >= 10 else 0, cols=case.comps(case.target))
            check_view(case, e, None, l, parse_view(r), what)
        elif name in ("targets", "itargets"):
            if case.target < 0:
                if name == "itargets" and l == []:
                    continue               # no batch at all: nothing is called
                if not threw:
                    raise Bad("targets-unsupervised", f"{what}: targets of an unsupervised dataset not rejected")
                continue
            must_not_throw()
            n = check_matrix(r, "T", len(l))
            dims = (r.int(), r.int(), r.int())
            ty, a, b, c, _ = case.specs[case.target]
            want_dims = (a, 1, 1) if ty >= 10 else (a, b, c)
            if dims != want_dims:
                raise Bad("targets-shape", f"{what}: dims {dims}, expected {want_dims}")
            size = dims[0] * dims[1] * dims[2]
            vals = [r.f() for _ in range(n * size)]
            for k, s in enumerate(l):
                v = case.stored(case.target, s)
                if ty == 10:
                    want = [1.0 if j == v[0] else -1.0 for j in range(a)]
                elif ty == 11:
                    want = [2.0 * x - 1.0 for x in v]
                else:
                    want = [float(x) for x in v]
                got = vals[k * size:(k + 1) * size]
                if not all(same(x, y) for x, y in zip(got, want)):
                    raise Bad("targets-view", f"{what}: row {k} (sample {s}) = {got[:8]}, stored target encodes to {want[:8]}")
        elif name == "feature":
            f = h[1]
            if not (0 <= f < F):
                if not threw:
                    raise Bad("feature-index-out-of-range", f"{what}: feature index outside [0, {F}) accepted")
                continue
            must_not_throw()
            if r.s() != "D":
                raise Bad("format", "feature")
            d = (r.s(), r.int(), (r.int(), r.int(), r.int()), r.int())
            e = E[f]
            if d[0] not in e["names"] or d[1] != e["type"] or d[2] != tuple(e["dims"]) or d[3] != e["classes"]:
                raise Bad("descriptor", f"{what}: {d}, expected {e['names'][0]} {e['type']} {e['dims']} {e['classes']}")
        elif name == "c2f":
            must_not_throw()
            if r.s() != "C":
                raise Bad("format", "c2f")
            want = [i for i, e in enumerate(E) for _ in range(e["cols"])]
            got = r.int()
            if got != want[h[1]]:
                raise Bad("column2feature", f"{what}: {got}, expected {want[h[1]]}")
        elif name in ("drop", "shuffle"):
            f = h[1]
            perm = perms.pop(0) if name == "shuffle" and perms else None
            if not (0 <= f < F):
                if not threw:
                    raise Bad("feature-index-out-of-range", f"{what}: feature index outside [0, {F}) accepted")
                continue
            must_not_throw()
            if name == "drop":
                flags[f] = "drop"
            else:
                if perm is None or sorted(perm) != list(range(case.N)):
                    raise Bad("shuffle-not-bijection", f"{what}: the reported permutation {perm} is not a bijection of 0..{case.N - 1}")
                flags[f] = perm
        elif name in ("undrop", "unshuffle"):
            must_not_throw()
            flags = [None] * F            # one flag per feature; both calls clear every flag (see ASSUMPTIONS)
        elif name == "shuffled":
            f = h[1]
            if not (0 <= f < F):
                if not threw:
                    raise Bad("feature-index-out-of-range", f"{what}: feature index outside [0, {F}) accepted")
                continue
            if not isinstance(flags[f], list):
                continue                   # precondition (assert only): never generated
            must_not_throw()
            if r.s() != "P":
                raise Bad("format", "shuffled")
            got = r.ints()
            want = [flags[f][s] for s in l]
            if got != want:
                raise Bad("shuffled-report", f"{what}: {got}, the permutation read back after shuffle() gives {want}")
        else:
            raise Bad("format", f"unknown history op {name}")
    return None


# ---------------------------------------------------------------------------------------------------------
# generator

N_BOUNDARY = [1, 2, 7, 8, 9, 15, 16, 17, 23, 24, 25]
SCLASS_COUNTS = [1, 2, 3, 5, 255, 256, 257, 300]
MCLASS_COUNTS = [1, 2, 3, 4, 7]


def rand_spec(rng, ty=None, image=False):
    ty = rng.below(12) if ty is None else ty
    mk = rng.choice([0, 0, 1, 2, 3, 5, 9])
    if ty == 10:
        return (10, rng.choice(SCLASS_COUNTS), 1, 1, mk)
    if ty == 11:
        return (11, rng.choice(MCLASS_COUNTS), 1, 1, mk)
    if image:
        while True:
            b, c = rng.range(3, 4), rng.range(3, 4)
            if (b, c) != (3, 3):
                return (ty, rng.range(1, 2), b, c, mk)
    if rng.chance(0.5):
        return (ty, 1, 1, 1, mk)
    while True:
        a, b, c = rng.range(1, 3), rng.range(1, 3), rng.range(1, 3)
        if 1 < a * b * c <= 18:
            return (ty, a, b, c, mk)


def sample_list(rng, N, allow_invalid=True):
    """index lists: all, reversed, repeats, N-1, N, -1, empty, beyond"""
    r = rng.below(100)
    if r < 14:
        return list(range(N))
    if r < 22:
        return list(range(N - 1, -1, -1))
    if r < 30:
        return []
    if r < 38:
        return [N - 1]
    if allow_invalid:
        if r < 44:
            return [N]
        if r < 48:
            return [-1]
        if r < 51:
            return rng.shuffle(list(range(min(N, 6))) + [N])
        if r < 53:
            return [0, N + rng.range(1, 9)]
        if r < 55:
            return [rng.below(N), -1 - rng.below(3), rng.below(N)]
    k = rng.range(1, min(2 * N + 2, 24))
    l = [rng.below(N) for _ in range(k)]
    if rng.chance(0.5) and k >= 2:
        l[rng.below(k)] = N - 1
        l[rng.below(k)] = l[0]           # a repeat on purpose
    return l


def make_case(rng, tier, N=None, specs=None, boundary=False):
    if N is None:
        N = rng.choice(N_BOUNDARY) if rng.chance(0.7) else rng.range(1, 200 if (tier != "quick" or rng.chance(0.15)) else 60)
    want_gradient = rng.chance(0.08)
    if specs is None:
        nf = rng.range(1, 12) if rng.chance(0.3) else rng.range(1, 6)
        specs = [rand_spec(rng) for _ in range(nf)]
        if want_gradient:
            specs[rng.below(nf)] = rand_spec(rng, rng.below(10), image=True)
            g33 = GEN_GRADIENT_3x3 and rng.chance(GEN_GRADIENT_3x3_RATE)
            if g33:
                specs[rng.below(nf)] = (rng.below(10), rng.range(1, 2), 3, 3, rng.choice([0, 2, 3]))
            else:   # a random 3x3 image would hit the known finding: make it 3x2
                specs = [(ty, a, b, 2, mk) if (ty < 10 and b == 3 and c == 3) else (ty, a, b, c, mk) for ty, a, b, c, mk in specs]
    nf = len(specs)
    # big class counts and many samples together make long lines: keep the product bounded
    target = rng.below(nf) if rng.chance(0.6) else -1
    if target >= 0 and not rng.chance(0.03):
        specs[target] = specs[target][:4] + (0,)       # the target cannot be optional
    seed = rng.below(1 << 31)
    threads = 1 if rng.chance(0.6) else rng.range(2, 4 if tier == "quick" else 16)
    ninp = nf - (1 if target >= 0 else 0)

    def sub():
        if ninp == 0 or rng.chance(0.55):
            return []
        return [rng.below(ninp) for _ in range(rng.range(1, min(ninp + 1, 5)))]

    gens = []
    kinds = [0, 1, 2, 3, 4]
    if rng.chance(0.85):
        for k in rng.shuffle(kinds)[:rng.range(1, 5)]:
            gens.append((k, sub(), None))
    else:
        for _ in range(rng.range(0, 3)):
            gens.append((rng.below(5), sub(), None))
    if GEN_PRODUCT_TWO_LISTS and rng.chance(0.15):
        gens.append((5, sub(), sub()))
    if want_gradient:
        gens.insert(rng.below(len(gens) + 1), (6, sub() if rng.chance(0.3) else [], None))
    # keep the number of scalar products moderate
    case = Case("dataset hist 1 0 1 0 -1 0 0")
    case.N, case.seed, case.threads, case.specs, case.target, case.gens, case.hist = N, seed, threads, specs, target, gens, []
    E = expected_features(case)
    while len(E) > 40 or sum(e["cols"] for e in E) > 700:
        gens.pop()
        E = expected_features(case)
    F = len(E); C = sum(e["cols"] for e in E)

    def feat(invalid_ok=True):
        if invalid_ok and rng.chance(0.06):
            return rng.choice([-1, F, F + 3])
        return rng.below(F) if F > 0 else rng.choice([-1, 0])

    hist = []
    flags = [0] * F                     # as coded: one flag per feature, undrop/unshuffle clear all
    nh = rng.range(4, 14)
    for _ in range(nh):
        r = rng.below(100)
        if r < 26:
            hist.append(("flatten", sample_list(rng, N)))
        elif r < 48:
            hist.append(("select", feat(), -1 if rng.chance(0.93) else rng.below(4), sample_list(rng, N)))
        elif r < 53:
            hist.append(("iselect", rng.below(4), sample_list(rng, N, allow_invalid=rng.chance(0.3))))
        elif r < 57:
            hist.append(("tselect", -1 if rng.chance(0.8) else rng.below(4), sample_list(rng, N)))
        elif r < 64:
            hist.append(("targets", sample_list(rng, N)))
        elif r < 67:
            hist.append(("itargets", rng.range(1, 9), sample_list(rng, N, allow_invalid=rng.chance(0.2))))
        elif r < 72:
            hist.append(("iflatten", rng.range(1, 9), sample_list(rng, N, allow_invalid=rng.chance(0.2))))
        elif r < 75:
            hist.append(("feature", feat()))
        elif r < 77 and C > 0:
            hist.append(("c2f", rng.below(C)))
        elif r < 84:
            f = feat(); hist.append(("drop", f))
            if 0 <= f < F:
                flags[f] = 1
                if rng.chance(0.6):
                    hist.append(("select", f, -1, sample_list(rng, N, allow_invalid=False)))
        elif r < 87:
            hist.append(("undrop",)); flags = [0] * F
        elif r < 94:
            f = feat(); hist.append(("shuffle", f))
            if 0 <= f < F:
                flags[f] = 2
                if rng.chance(0.5):
                    hist.append(("shuffled", f, sample_list(rng, N, allow_invalid=GEN_SHUFFLED_OUT_OF_RANGE)))
                if rng.chance(0.6):
                    hist.append(("select", f, -1, sample_list(rng, N, allow_invalid=False)))
        elif r < 97:
            hist.append(("unshuffle",)); flags = [0] * F
        else:
            sh = [f for f in range(F) if flags[f] == 2]
            if sh:
                hist.append(("shuffled", rng.choice(sh), sample_list(rng, N, allow_invalid=GEN_SHUFFLED_OUT_OF_RANGE)))
            else:
                hist.append(("flatten", sample_list(rng, N)))
    case.hist = hist
    return case.render()


def boundary_cases(rng, tier):
    ops = []
    # every storage type x every N boundary: one identity stack, views with N-1 / N / -1 / empty
    for N in [1, 7, 8, 9, 16, 17]:
        specs = [(ty, 1, 1, 1, 3) for ty in range(10)] + [(10, 2, 1, 1, 2), (11, 3, 1, 1, 2)]
        h = [("flatten", list(range(N))), ("flatten", [N - 1]), ("flatten", [N]), ("flatten", [-1]), ("flatten", []),
             ("select", 0, -1, [N - 1, 0, N - 1]), ("select", 0, -1, [N]), ("select", 0, -1, []), ("iselect", 2, list(range(N)))]
        c = Case("dataset hist 1 0 1 0 -1 0 0")
        c.N, c.seed, c.threads, c.specs, c.target, c.hist = N, 11 + N, 1, specs, -1, h
        c.gens = [(2, [], None), (0, [], None), (1, [], None)]
        ops.append(c.render())
    # class counts at the storage-type thresholds, all-missing / never-missing
    for classes in [1, 2, 256, 257, 300]:
        for mk in [0, 1, 2]:
            N = 9
            c = Case("dataset hist 1 0 1 0 -1 0 0")
            c.N, c.seed, c.threads, c.target = N, classes * 7 + mk, 1, 2
            c.specs = [(10, classes, 1, 1, mk), (11, min(classes, 5), 1, 1, mk), (10, classes, 1, 1, 0), (2, 2, 1, 3, mk)]
            c.gens = [(0, [], None), (1, [], None), (3, [], None)]
            c.hist = [("flatten", [0, 8, 8, 3]), ("select", 0, -1, list(range(N))), ("targets", [8, 0]), ("tselect", -1, [4, 4]),
                      ("drop", 0), ("flatten", [0, 8]), ("undrop",), ("shuffle", 1), ("select", 1, -1, list(range(N))),
                      ("flatten", list(range(N))), ("unshuffle",), ("flatten", [N])]
            ops.append(c.render())
    return ops


def gen(rng, tier):
    ops = []
    cp = os.path.join(vlib.VERIF, "corpus", "C08", "ops.txt")
    if os.path.exists(cp):
        ops += [l.strip() for l in open(cp) if l.strip() and not l.startswith("#")]
    ops += boundary_cases(rng, tier)
    for _ in range(2500 if tier == "quick" else 12000):
        ops.append(make_case(rng, tier))
    return ops


# ---------------------------------------------------------------------------------------------------------
# bookkeeping for check.py

def model_skip(aug):
    try:
        return any(k == 6 for k, _, _ in Case(aug).gens)
    except Exception:
        return False


def nontrivial(op):
    try:
        c = Case(op)
    except Exception:
        return False
    pools = set()
    for ty, a, b, cc, mk in c.specs:
        pools.add(4 if ty == 11 else (4 if a <= 256 else 5) if ty == 10 else ty)
    missing = any(c.stored(f, s) is None for f in range(len(c.specs)) for s in range(c.N))
    repeat = any(isinstance(h[-1], list) and len(set(h[-1])) < len(h[-1]) for h in c.hist)
    return len(pools) >= 2 and missing and repeat


def distribution(ops):
    d = {}
    def inc(k):
        d[k] = d.get(k, 0) + 1
    for op in ops:
        try:
            c = Case(op)
        except Exception:
            inc("unparsed"); continue
        inc("samples:" + ("1" if c.N == 1 else "mult8" if c.N % 8 == 0 else "other"))
        inc("threads:" + ("1" if c.threads == 1 else ">1"))
        inc("target:" + ("none" if c.target < 0 else TYPE_NAMES[c.specs[c.target][0]]))
        for k, _, _ in c.gens:
            inc("gen:" + ["sclass", "mclass", "scalar", "struct", "product", "product2", "gradient"][k])
        for h in c.hist:
            inc("op:" + h[0])
            if isinstance(h[-1], list):
                l = h[-1]
                inc("list:" + ("empty" if not l else "has-N" if c.N in l else "negative" if min(l) < 0 else "beyond" if max(l) > c.N else
                               "repeat" if len(set(l)) < len(l) else "plain"))
    return d


def _old_pairing_hazard(case):
    """would the pre-767882d make_pairwise index a mapping out of bounds / pair wrongly for this stack?"""
    inp = case.inputs()
    for k, l1, l2 in case.gens:
        if k != 5:
            continue
        pick = lambda l: [i for i in (l if l else range(len(inp))) if case.kind_of(inp[i]) == "scalar"]
        s1, s2 = pick(l1), pick(l2)
        for i1, x in enumerate(s1):
            for i2, y in enumerate(s2):
                if x > y and (i2 >= len(s1) or i1 >= len(s2)):
                    return True
    return False


def classify(op, kind, detail):
    if kind == "oracle" and detail.startswith("["):
        return detail[1:detail.index("]")]
    try:
        c = Case(op)
    except Exception:
        return "unparsed"
    if kind == "crash":
        lists = [(h[0], h[-1]) for h in c.hist if isinstance(h[-1], list)]
        if _old_pairing_hazard(c):
            return "product-two-lists-oob"
        if any(n == "shuffled" and not samples_valid(c, l) for n, l in lists):
            return "shuffled-sample-index-unchecked"
        if any(l and (min(l) < 0 or max(l) > c.N) for _, l in lists):
            return "sample-index-out-of-range"
        if any(c.N in l for _, l in lists):
            return "sample-index-eq-N"
        if any(l == [] for _, l in lists):
            return "empty-index-list"
        return "crash"
    return "corr:" + ",".join(sorted({h[0] for h in c.hist}))[:80]


def preconditions_ok(c):
    """the preconditions (asserts) of the API that the generator respects: `shuffled` only on a currently shuffled feature,
    `c2f` only on a valid column"""
    try:
        E = expected_features(c)
    except Exception:
        return False
    F = len(E); C = sum(e["cols"] for e in E)
    flags = [0] * F
    for h in c.hist:
        if h[0] == "drop" and 0 <= h[1] < F:
            flags[h[1]] = 1
        elif h[0] == "shuffle" and 0 <= h[1] < F:
            flags[h[1]] = 2
        elif h[0] in ("undrop", "unshuffle"):
            flags = [0] * F
        elif h[0] == "shuffled" and 0 <= h[1] < F and flags[h[1]] != 2:
            return False
        elif h[0] == "c2f" and not (0 <= h[1] < C):
            return False
    return True


def shrink_candidates(op):
    for cand in _shrink_candidates(op):
        try:
            if preconditions_ok(Case(cand)):
                yield cand
        except Exception:
            continue


def _shrink_candidates(op):
    try:
        c = Case(op)
    except Exception:
        return
    c.perms = None
    base = (c.specs[:], c.gens[:], c.hist[:])
    for i in range(len(c.hist)):                               # drop one history op
        c.hist = base[2][:i] + base[2][i + 1:]
        yield c.render()
    c.hist = base[2][:]
    for i in range(len(c.gens)):                               # drop one generator
        c.gens = base[1][:i] + base[1][i + 1:]
        yield c.render()
    c.gens = base[1][:]
    for i, h in enumerate(c.hist):                             # halve an index list
        if isinstance(h[-1], list) and len(h[-1]) > 1:
            for half in (h[-1][:len(h[-1]) // 2], h[-1][len(h[-1]) // 2:]):
                c.hist = base[2][:i] + [h[:-1] + (half,)] + base[2][i + 1:]
                yield c.render()
    c.hist = base[2][:]
    if c.threads > 1:
        t = c.threads; c.threads = 1
        yield c.render()
        c.threads = t
