"""C17 — thread pool: every task exactly once, completion, clean shutdown (DESIGN.md §4 C17).

One op line = one scenario on a fresh pool (see harness/c17.cpp for the format). The harness records the raw hook trace
(schedule fuzzing with seeded delays and spurious notify_all's at every synchronisation event); the Lean driver checks the
lock discipline on the raw trace, folds every critical section into one event of the protocol model and checks that the
folded trace is a path of `Pool.step` ending in a quiescent-complete state. Because schedules are not deterministic the two
result lines are schedule-independent verdicts plus counts that both sides derive from the same execution.
"""
import os
import re
import vlib
from props import c17_translate

ID = "C17"
LEVEL = "proof"
HARNESS = "c17"
LEAN_MODULES = ["NanoVerif.Props.C17", "NanoVerif.Proofs.PoolMonPos"]
NS = "NanoVerif.Pool."
OBLIGATIONS = [NS + t for t in [
    "task_bookkeeping", "executed_at_most_once", "done_implies_executed_once", "tnum_lt_size", "tnum_exclusive",
    "seq_runs_each_once_in_order", "map_returns_after_all_done", "raise_rethrows", "chunks_tile", "chunks_get",
    "no_lost_wakeup", "quiescent_complete",
    # gap-closing round: section_t's lifetime, task shape, pool size, m_stop without the mutex, liveness
    "map_exit_implies_all_ready", "exit_refines_cReturn", "swapped_section_exits_with_unfinished_task",
    "every_index_invoked_once_even_if_some_throw", "pool_size_bounds", "stop_without_lock_loses_wakeup", "deadlock_free",
    "progress_measure_decreases", "run_without_new_calls_bounded", "position_iff_ranges", "nops_eq_ranges_length",
    "reachable2_invs", "ready_stable", "waiting_stable", "constructed_pool_quiescent_complete",
    "locked_fine_grained_no_lost_wakeup", "fine_refines_atomic",
    # round 5: lock scopes regenerated from the source (Gen/PoolScopes.lean)
    "Scopes.model_pool_scopes_is_generated", "Scopes.shared_state_only_under_lock", "Scopes.enqueue_no_lock_called_under_lock",
    "Scopes.never_blocks_or_runs_under_lock", "Scopes.wake_up_after_publication", "Scopes.every_access_classified",
]]


def translate():
    """Gen/PoolScopes.lean: per function of parallel.cpp / parallel.h the accesses to the shared queue state, in program order, with
    the flag `lexically under a lock on the queue's mutex` (hooks and NANO_VERIF branches removed)"""
    return c17_translate.translate()

TRUSTED = [
    "Lean 4.33.0 kernel (core library only for this property; no Mathlib import)",
    "axioms: at most propext, Classical.choice, Quot.sound (audited per theorem on every run)",
    "hand-written protocol model NanoVerif/Model/Pool.lean of parallel.h/parallel.cpp (every critical section = one atomic event); "
    "tied to the code by trace validation: lock discipline + per-thread program order on the raw hook trace, folding, path of `step`, "
    "quiescent-complete final state (Pool.checkTrace, run by the compiled driver on every recorded trace); a second, independent pass "
    "keyed on event kinds only (Pool.monitor in Model/PoolMon.lean): push/pop/clear/stop-set/predicate inside a critical section of the "
    "emitting thread, thread identity <-> worker index a bijection over the whole trace, no thread both worker and client, on the "
    "parallel path the operator runs only in the pool's worker thread of the tnum it receives, between run_begin and run_end, exactly "
    "one operator call per task, every position of every map call invoked exactly once before the call is left and never after "
    "(throwing tasks, raise on/off included), pool size = clamp(asked, 1, max_size())",
    "hand-written refinements Model/PoolSection.lean: section_t (block(raise) future by future, rethrow, ~section_t, unguarded exit), "
    "pool_t constructors / max_size / size, and the fine-grained wait (predicate evaluation and blocking as two events) used for the "
    "counterexample to writing m_stop outside the mutex; the section model is tied to the code through the base model only "
    "(exit_refines_cReturn: its exit IS the base model's cReturn, which the trace checker validates on every trace)",
    "hook H1 in /repo (NANO_VERIF) reports the synchronisation events in program order; the harness's pseudo-events (operator begin/"
    "arguments/end, call begin/return) are logged through the same atomic sequence counter",
    "std::mutex / condition_variable / packaged_task / shared_future behave as the model assumes (DESIGN.md §3)",
    "tools/props/c17_translate.py (preprocessing of the NANO_VERIF conditionals and hook statements, brace-depth tracking of the lock "
    "objects' lexical scopes, one regular expression per access kind, a count guard: every mention of m_tasks / m_stop / m_condition / "
    "m_mutex lies in one of the 7 listed functions or is a declaration) -> Gen/PoolScopes.lean; lexical scope = lifetime of the lock "
    "object (RAII; an explicit .unlock() ends it); the hand-written table modelScopes in Proofs/PoolScopesGen.lean is a reading of Model/Pool.lean",
    "tools/props/c17.py generator + python oracle; harness/c17.cpp monitors and watchdog; g++/libstdc++; ThreadSanitizer in the thorough tier",
]
ASSUMPTIONS = [
    "one critical section = one atomic event: checked per trace (lock discipline, twice) and, for the one place where it matters "
    "(predicate evaluation vs blocking in wait), proved: the fine-grained model refines the atomic one as long as m_stop is written "
    "under the mutex (locked_fine_grained_no_lost_wakeup); without that proviso the wake-up is lost (stop_without_lock_loses_wakeup)",
    "usage contract: nobody submits work once ~pool_t has started (cPush is disabled when stop); chunksize >= 1 (assert in map)",
    "the model's wRunEnd (future ready) is folded at the operator's last statement: the future becomes ready inside "
    "std::packaged_task::operator() between that point and the hook's run_end",
    "the woken thread of notify_one is not observable: the trace checker picks any sleeping worker (wWake is always enabled, so any choice gives a path)",
    "liveness: deadlock_free (some non-wake event of the pool is enabled in every incomplete reachable state) and the variant function "
    "(progress_measure_decreases, run_without_new_calls_bounded) are proved for the model; that the OS scheduler eventually runs an "
    "enabled thread (weak fairness) and that spurious wake-ups are finitely many is assumed; hangs of the real code are searched for by "
    "the watchdog under schedule fuzzing and the directed schedules (testing)",
    "std::thread::hardware_concurrency() may answer any number, 0 included (pool_size_bounds covers all); the value the library reports "
    "as max_size() is taken from the run",
    "the C++ memory model is outside the model; data races are searched for by the ThreadSanitizer flavour of the thorough tier (testing)",
]
RULE = ("exhaustive small scenarios (pool sizes {0,1,2,3,4,8,16,17}, elements 0..3 and 5, per-element and chunk sizes 1/2/n/n+1, raise on/off, "
        "throwing first/last/both task, with and without delays) + random structured scenarios (pool 1..16, elements 0..5000, chunk 1..n+1, 1..4 "
        "concurrent submitters with 1..3 calls each, enqueue with immediate/deferred/post-destruction waits, slow tasks so that the pool is destroyed "
        "idle/busy/with queued tasks, delays and spurious wake-ups injected at every synchronisation event); a scenario is non-trivial when a "
        "map call with >= 2 tasks goes through the queue of a pool with >= 2 workers (the evidence's distribution also counts the scenarios in "
        "which >= 2 workers really ran tasks of one call and >= 1 worker slept); default-constructed pools; DIRECTED schedules for pool "
        "sizes 1, 2, 3: the hook parks a worker that has just evaluated its wait predicate to false (mutex held, not yet blocked) until "
        "the destructor (mode 1) or a pushing client (mode 2) arrives - the client first makes a worker re-evaluate its predicate and "
        "waits until it is parked -, the evidence counts how often each interleaving was reached (run/directed_*); maps straddling the "
        "thresholds elements = 128 * size and 1024 chunks, both overloads, traced (run/large/*); distinct by op text")
FLAVOUR = {"quick": "plain", "thorough": "tsan"}
HARNESS_ENV = {"TSAN_OPTIONS": "halt_on_error=1:exitcode=66:second_deadlock_stack=1"}
HARNESS_TIMEOUT = 1500
BROKEN = "X"

# run statistics gathered by oracle() (the non-trivial rule refers to what really happened in the run)
STATS = {"multi_worker_calls": 0, "scenarios_with_sleep": 0, "scenarios_with_drop": 0, "traces_validated_against_impl": 0,
         "scenarios_without_trace": 0, "spurious_wakeups_injected": 0,
         # directed schedules: a worker parked between its predicate evaluation and its wait while ...
         "directed_scenarios": 0, "directed_parks": 0,
         "directed_destroy_reached/pool1": 0, "directed_destroy_reached/pool2+": 0,     # ... ~pool_t arrives (scenarios)
         "directed_push_reached/pool1": 0, "directed_push_reached/pool2+": 0,           # ... a client arrives with a push (scenarios)
         "directed_destroy_hits": 0, "directed_push_hits": 0,                           # (parks ended that way)
         "large/elements>128*size": 0, "large/chunks>1024": 0, "large/traced": 0}


# ---------------------------------------------------------------------------------------------------------------
# op lines

def call_m(n, c, raise_, work=0, throws=()):
    return dict(kind="m", n=n, c=c, raise_=int(bool(raise_)), work=work, throws=list(throws))


def call_e(raise_, work=0, throws=0, waitmode=0):
    return dict(kind="e", raise_=int(bool(raise_)), work=work, throws=[0] if throws else [], waitmode=waitmode)


def show_call(cl):
    if cl["kind"] == "m":
        return f"m {cl['n']} {cl['c']} {cl['raise_']} {cl['work']} {vlib.lst(cl['throws'])}"
    return f"e {cl['raise_']} {cl['work']} {1 if cl['throws'] else 0} {cl['waitmode']}"


def show_op(sc):
    progs = " ".join(f"{len(p)} " + " ".join(show_call(c) for c in p) if p else "0" for p in sc["progs"])
    return (f"pool run {sc['asked']} {sc['dprob']} {sc['dmax']} {sc['spur']} {sc['seed']} {sc['pre']} {sc['ty']} "
            f"{len(sc['progs'])} {progs}").strip()


def parse_op(line):
    t = vlib.Toks(line)
    assert t.s() == "pool" and t.s() == "run"
    sc = dict(asked=t.int(), dprob=t.int(), dmax=t.int(), spur=t.int(), seed=t.int(), pre=t.int(), ty=t.int(), progs=[])
    for _ in range(t.int()):
        prog = []
        for _ in range(t.int()):
            k = t.s()
            if k == "m":
                prog.append(dict(kind="m", n=t.int(), c=t.int(), raise_=t.int(), work=t.int(), throws=t.ints()))
            else:
                raise_, work, th, wm = t.int(), t.int(), t.int(), t.int()
                prog.append(dict(kind="e", raise_=raise_, work=work, throws=[0] if th else [], waitmode=wm))
        sc["progs"].append(prog)
    sc["size"] = None
    sc["max"] = None
    sc["notrace"] = False
    sc["dir"] = sc["ty"] // 10
    if not t.done():
        assert t.s() == "size"
        sc["size"] = t.int()
        if not t.done():
            k = t.s()
            if k == "max":
                sc["max"] = t.int()
                k = t.s() if not t.done() else ""
            sc["notrace"] = k == "notrace"
    return sc


def ranges_of(cl):
    """the operator calls the property promises: every index once / chunks tiling [0, n)"""
    if cl["kind"] == "e":
        return [(0, 1)]
    n, c = cl["n"], cl["c"]
    if c == 0:
        return [(i, i + 1) for i in range(n)]
    return [(b, min(b + c, n)) for b in range(0, n, c)]


def seq_path(cl, size):
    if cl["kind"] != "m":
        return False
    return size == 1 or (cl["n"] <= 1 if cl["c"] == 0 else cl["c"] >= cl["n"])


# ---------------------------------------------------------------------------------------------------------------
# generator

def scenario(rng, asked, progs, dprob=0, dmax=1, spur=0, pre=0, ty=0):
    return dict(asked=asked, dprob=dprob, dmax=dmax, spur=spur, seed=rng.below(1 << 30), pre=pre, ty=ty, progs=progs)


def rand_throws(rng, nops):
    if nops == 0 or rng.chance(0.6):
        return []
    k = rng.choice([0, 0, nops - 1, nops - 1, rng.below(nops)])
    out = [k]
    if rng.chance(0.3):
        out.append(rng.below(nops))
    return sorted(set(out))


def rand_delay(rng):
    return rng.choice([(0, 1), (30, 20), (100, 50), (300, 30), (600, 8), (150, 300)])


def rand_map(rng, maxn):
    n = rng.choice([0, 1, 2, 3, rng.range(0, 16), rng.range(0, maxn), rng.range(0, maxn)])
    mode = rng.below(6)
    if mode <= 1:
        c = 0
    elif mode == 2:
        c = rng.choice([1, max(n, 1), n + 1])
    else:
        c = rng.range(1, n + 1)
    nops = len(ranges_of(dict(kind="m", n=n, c=c)))
    return call_m(n, c, rng.chance(0.7), rng.choice([0, 0, 0, 5, 40]) if n <= 64 else 0, rand_throws(rng, nops))


def gen(rng, tier):
    ops = []
    cp = os.path.join(vlib.VERIF, "corpus", "C17", "ops.txt")
    if os.path.exists(cp):
        ops += [l.strip() for l in open(cp) if l.strip() and not l.startswith("#")]
    thorough = tier == "thorough"

    # exhaustive small: pool size x elements x chunk x throwing task x raise
    for asked in [0, 1, 2, 3, 4, 8, 16, 17]:
        for n in [0, 1, 2, 3, 5]:
            for c in sorted({0, 1, 2, max(n, 1), n + 1}):
                nops = len(ranges_of(dict(kind="m", n=n, c=c)))
                thr = [[]] + ([[0], [nops - 1], [0, nops - 1]] if nops >= 1 else [])
                for throws in thr:
                    throws = sorted(set(throws))
                    for raise_ in (1, 0):
                        if not throws and raise_ == 0 and not thorough and asked not in (1, 2):
                            continue
                        d = rng.choice([(0, 1), (200, 30), (500, 10)])
                        ops.append(show_op(scenario(rng, asked, [[call_m(n, c, raise_, 0, throws)]], d[0], d[1],
                                                    rng.choice([0, 0, 30]), rng.choice([0, 0, 300]), rng.below(3))))

    # destruction: idle / busy / with queued tasks
    for asked in ([1, 2, 3, 16] if not thorough else [1, 2, 3, 4, 8, 16]):
        for k in sorted({0, 1, asked, asked + 1, 2 * asked + 3}):
            for rep in range(2 if not thorough else 4):
                d = rand_delay(rng)
                prog = [call_e(rng.below(2), rng.choice([200, 1000, 3000]), rng.chance(0.2), 2) for _ in range(k)]
                pre = rng.choice([0, 0, 100, 1500])
                ops.append(show_op(scenario(rng, asked, [prog], d[0], d[1], rng.choice([0, 20]), pre)))

    # random structured scenarios
    for i in range(450 if not thorough else 1500):
        asked = rng.choice([1, 2, 2, 3, 4, rng.range(1, 16), rng.range(1, 16), 16])
        S = rng.choice([1, 1, 2, 3, 4])
        maxn = rng.choice([8, 40, 40, 200]) if not thorough else rng.choice([8, 40, 200, 600])
        progs = []
        for s in range(S):
            prog = []
            for _ in range(rng.range(1, 3)):
                if rng.chance(0.75):
                    prog.append(rand_map(rng, maxn))
                else:
                    prog.append(call_e(rng.below(2), rng.choice([0, 0, 20, 300, 1500]), rng.chance(0.25),
                                       rng.choice([0, 0, 1, 1, 2])))
            progs.append(prog)
        d = rand_delay(rng)
        ops.append(show_op(scenario(rng, asked, progs, d[0], d[1], rng.choice([0, 0, 10, 60]), rng.choice([0, 0, 0, 200, 2000]),
                                    rng.below(3))))

    # default constructor (asked = 1000)
    for rep in range(3 if not thorough else 8):
        d = rand_delay(rng)
        ops.append(show_op(scenario(rng, 1000, [[rand_map(rng, 200) for _ in range(rng.range(1, 2))]], d[0], d[1], rng.choice([0, 10]))))

    # directed schedules (harness header): a worker is parked between its predicate evaluation and its wait while
    # (mode 1) the destructor / (mode 2) a pushing client arrives; pool size 1 first (with one worker there is nobody else
    # to pick the work up or to see the stop flag)
    for rep in range(6 if not thorough else 20):
        for asked in (1, 1, 2, 3):
            # mode 1: destroy a freshly built pool / right after the last task / after an idle period with a spurious wake-up
            progs = rng.choice([[[]], [[]], [[call_e(rng.below(2), rng.choice([0, 50]), 0, rng.choice([0, 1]))]],
                                [[call_m(rng.range(2, 6), rng.choice([0, 1, 2]), 1, 0, rand_throws(rng, 2))]],
                                [[call_e(1, 0, 0, 0), call_e(0, 0, rng.below(2), 0)]]])
            ops.append(show_op(scenario(rng, asked, progs, 0, 1, rng.choice([0, 0, 40]), rng.choice([0, 0, 200]), 10 + rng.below(3))))
        for asked in (1, 1, 2):
            # mode 2 (and 3): enqueue / map arriving while the worker is parked
            prog = [rng.choice([call_e(rng.below(2), 0, rng.chance(0.2), rng.choice([0, 0, 1])),
                                call_m(rng.range(2, 5), rng.choice([0, 1]), rng.below(2), 0, rand_throws(rng, 2))])
                    for _ in range(rng.range(2, 5))]
            progs = [prog] if rng.chance(0.6) else [prog, [call_e(1, 0, 0, 0) for _ in range(rng.range(1, 3))]]
            ops.append(show_op(scenario(rng, asked, progs, 0, 1, 0, 0, rng.choice([20, 20, 30]) + rng.below(3))))

    # thresholds two seeded changes keyed on: elements around 128 * size, number of chunks around 1024 (traced: the
    # trace of ~1000 tasks fits), both overloads, with and without a throwing task
    thr = []
    for asked in ([2, 3, 16] if not thorough else [2, 3, 4, 5, 8, 16]):
        for n in (128 * asked - 1, 128 * asked, 128 * asked + 1, 129 * asked + 7):
            thr.append((asked, n, rng.choice([0, 1])))
            if thorough:
                thr.append((asked, n, rng.choice([2, 3, 5])))
    for asked, chunksn, c in [(2, 1023, 1), (3, 1024, 1), (2, 1025, 0), (4, 1026, 1), (16, 1025, 2), (2, 1030, 3), (3, 2048, 1)]:
        n = chunksn * c - rng.below(c) if c > 0 else chunksn
        thr.append((asked, n, c))
    for asked, n, c in thr:
        nops = len(ranges_of(dict(kind="m", n=n, c=c)))
        throws = rng.choice([[], [], [rng.below(nops)], [0, nops - 1]])
        ops.append(show_op(scenario(rng, asked, [[call_m(n, c, rng.chance(0.6), 0, throws)]], rng.choice([0, 0, 20]), 5, 0, 0, rng.below(3))))

    # large maps: elements up to 5000 (traced while the trace fits, monitors only otherwise)
    big = [(16, 5000, 0), (7, 5000, 1), (4, 4999, 7), (16, 3000, 3001), (2, 5000, 5000), (1, 5000, 0),
           (16, 2000, 0), (3, 2200, 1), (8, 4000, 2)]
    if thorough:
        big += [(rng.range(2, 16), rng.range(2000, 5000), rng.choice([0, 1, 3, 64])) for _ in range(10)]
    for asked, n, c in big:
        ops.append(show_op(scenario(rng, asked, [[call_m(n, c, 1, 0, rand_throws(rng, len(ranges_of(dict(kind='m', n=n, c=c)))))]],
                                    rng.choice([0, 20]), 10, rng.choice([0, 5]))))
    # four submitters with large maps on one pool: the trace does not fit -> monitors only
    for rep in range(1 if not thorough else 4):
        progs = [[call_m(rng.range(3000, 5000), rng.choice([0, 1, 2]), 1)] for _ in range(4)]
        ops.append(show_op(scenario(rng, rng.choice([3, 8, 16]), progs, 10, 5, 5)))
    return ops


# ---------------------------------------------------------------------------------------------------------------
# property oracle: an independent evaluation of the property statement on the monitors' summary

def kv(tokens):
    d = {}
    for tok in tokens:
        if "=" in tok:
            k, v = tok.split("=", 1)
            d[k] = v
    return d


def unrle(s):
    if s == "-":
        return []
    out = []
    for part in s.split(","):
        v, k = part.split("*")
        out += [int(v)] * int(k)
    return out


def trace_oracle(aug, sc, size):
    """the property's clauses read off the RAW event trace (independent of the harness's flag-based monitors and of the Lean
    checkers): operator intervals [op-begin, op-end] of one call with the same worker id never overlap; on the parallel
    path the operator runs in a pool thread whose run-begin events carry exactly that worker id (thread <-> id is a
    bijection), never in a client thread; a call is left only after every operator interval of the call is closed"""
    k = aug.find(" trace ")
    if k < 0:
        return None
    toks = aug[k + 7:].split()
    n = int(toks[0])
    calls = [c for p in sc["progs"] for c in p]
    tid2w, w2tid = {}, {}
    open_op = {}        # tid -> (call, tnum)
    busy = {}           # (call, tnum) -> tid
    open_cnt = [0] * len(calls)
    left = [False] * len(calls)
    for i in range(n):
        tid, kind, a, b = int(toks[1 + 4 * i]), int(toks[2 + 4 * i]), int(toks[3 + 4 * i]), int(toks[4 + 4 * i])
        if kind in (6, 7, 8, 9, 10, 11):      # pred, pop, clear, run_begin, run_end, worker_exit carry the worker index
            if tid2w.setdefault(tid, b) != b or w2tid.setdefault(b, tid) != tid:
                return f"worker-identity: thread {tid} / worker index {b}: thread <-> worker index is not a bijection (event {i})"
            if b >= size or tid < 10:
                return f"worker-identity: worker index {b} (pool {size}) in thread {tid} (event {i})"
        elif kind == 22:                       # op-begin: a = call, b = tnum
            if a >= len(calls):
                return f"format: operator of unknown call {a}"
            if left[a]:
                return f"early-return: call {a}: an operator call started after the call had been left (event {i})"
            if seq_path(calls[a], size):
                if tid >= 10 or b != 0:
                    return f"tnum-bound: call {a} (sequential path): operator in thread {tid} with tnum {b}"
            elif tid2w.get(tid) != b:
                return (f"caller-runs-task: call {a} (parallel path): the operator got tnum {b} in thread {tid}, which is not the "
                        f"pool's worker thread {b} (event {i})")
            if (a, b) in busy:
                return f"tnum-exclusive: call {a}: worker id {b} in use by threads {busy[(a, b)]} and {tid} at the same time (event {i})"
            busy[(a, b)] = tid
            open_op[tid] = (a, b)
            open_cnt[a] += 1
        elif kind == 24:                       # op-end
            cb = open_op.pop(tid, None)
            if cb is None:
                return f"format: op-end without op-begin in thread {tid}"
            busy.pop(cb, None)
            open_cnt[cb[0]] -= 1
        elif kind == 25:                       # call-ret: a = call
            if a < len(calls):
                if open_cnt[a] != 0:
                    return f"early-return: call {a} was left while {open_cnt[a]} of its operator calls were still running (event {i})"
                left[a] = True
    return None


def oracle(aug, res):
    if not res.startswith("ok "):
        return f"no-answer: implementation did not answer ok: {res[:120]}"
    sc = parse_op(aug)
    parts = res.split(" | ")
    if len(parts) != 2:
        return "format: no monitor part"
    summ = kv(parts[0].split())
    secs = parts[1].split(" ; ")
    head = kv(secs[0].split())
    size = int(summ["size"])
    maxsize = int(head["maxsize"])
    if size != min(max(sc["asked"], 1), maxsize) or (sc["size"] is not None and sc["size"] != size):
        return f"pool-size: size() = {size} for {sc['asked']} requested threads (max_size {maxsize})"
    if int(head["qmis"]) != 0:
        return "format: events from more than one queue"
    why = trace_oracle(aug, sc, size)
    if why:
        return why
    if maxsize < 1 or (sc["max"] is not None and sc["max"] != maxsize):
        return f"pool-size: max_size() = {maxsize}"
    if sc["asked"] == 1000 and size != maxsize:
        return f"pool-size: the default constructor made {size} workers, max_size() = {maxsize}"
    # directed schedules: with the lock discipline nobody gets past the mutex while a worker is parked between its
    # predicate evaluation and its wait
    if int(head.get("d1x", 0)) != 0:
        return (f"stop-outside-lock: m_stop was written {head['d1x']} time(s) while a worker held the mutex between its predicate "
                f"evaluation and its wait (lost wake-up: the worker blocks after the destructor's notify_all)")
    if int(head.get("d2x", 0)) != 0:
        return (f"push-outside-lock: a task was pushed {head['d2x']} time(s) while a worker held the mutex between its predicate "
                f"evaluation and its wait")
    calls = [c for p in sc["progs"] for c in p]
    if len(secs) - 1 != len(calls) or int(summ["calls"]) != len(calls):
        return "format: number of calls"
    tot_inv = 0
    queued = 0
    ran_queued = 0
    multi = False
    for i, cl in enumerate(calls):
        m = kv(secs[1 + i].split())
        want = ranges_of(cl)
        nops = len(want)
        seq = seq_path(cl, size)
        inv, fin = int(m["inv"]), int(m["fin"])
        tot_inv += inv
        if not seq:
            queued += nops
            ran_queued += inv
        what = f"call {i} ({show_call(cl)}, pool {size}, {'sequential' if seq else 'parallel'} path)"
        if int(m["nops"]) != nops:
            return f"format: {what}: harness expects {m['nops']} operator calls, the oracle {nops}"
        # worker ids
        if int(m["badtnum"]) != 0 or int(m["maxtnum"]) >= size:
            return f"tnum-bound: {what}: the operator received a worker id >= pool size (max {m['maxtnum']})"
        if int(m["excl"]) != 0:
            return f"tnum-exclusive: {what}: a worker id was in use by two tasks of the call at the same time ({m['excl']} times)"
        if seq and int(m["maxtnum"]) > 0:
            return f"tnum-bound: {what}: sequential path used tnum {m['maxtnum']}"
        if int(m["late"]) != 0:
            return f"early-return: {what}: {m['late']} operator call(s) started after the call had returned"
        throws = sorted(p for p in cl["throws"] if p < nops)
        first = throws[0] if throws else None
        code = m["res"]
        cnt = unrle(m["cnt"])
        cover = unrle(m["cover"])
        if cl["kind"] == "e" and cl["waitmode"] == 2 and inv == 0:
            # destroyed with the task still queued: it never runs, its future must not block
            want_code = BROKEN if cl["raise_"] else "0"
            if code != want_code:
                return f"dropped-future: {what}: result {code}, expected {want_code}"
            continue
        if code == "-":
            return f"no-return: {what} never returned"
        if seq and first is not None:
            # the loop of the sequential path is unprotected: the exception leaves map() at once
            if not cl["raise_"] and code != "0":
                return (f"seq-throw-ignores-raise-false: {what}: operator position {first} throws; the exception leaves map() although "
                        f"raise = false (result code {code}); invoked {inv} of {nops} operator calls")
            if inv != nops or cnt != [1] * nops:
                return (f"seq-throw-skips-rest: {what}: operator position {first} throws; invoked {inv} of {nops} operator calls "
                        f"(property: every index exactly once), result code {code}")
        if inv != nops or cnt != [1] * nops:
            bad = [k for k, v in enumerate(cnt) if v != 1][:5]
            return f"exactly-once: {what}: {inv} operator calls for {nops} positions; positions with count != 1: {bad}"
        n = cl["n"] if cl["kind"] == "m" else 1
        if cover != [1] * n or int(m["oob"]) != 0 or int(m["misal"]) != 0:
            bad = [k for k, v in enumerate(cover) if v != 1][:5]
            return f"tiling: {what}: ranges do not tile [0,{n}): oob={m['oob']} misaligned={m['misal']} elements with count != 1: {bad}"
        if nops > 0 and (int(m["minlen"]) < 1 or int(m["maxlen"]) > max(cl.get("c", 0), 1)):
            return f"tiling: {what}: range lengths in [{m['minlen']},{m['maxlen']}] for chunk size {cl.get('c', 0)}"
        if m["ranges"] not in ("many", "-"):
            got = sorted(tuple(int(x) for x in r.split(":")) for r in m["ranges"].split(","))
            if got != want:
                return f"tiling: {what}: ranges {got[:6]} != {want[:6]}"
        if fin != nops:
            return f"early-return: {what}: returned after {fin} of {nops} operator calls had finished"
        want_code = str(1 + first) if (cl["raise_"] and first is not None) else "0"
        if code != want_code:
            return f"rethrow: {what}: result code {code}, expected {want_code} (0 = no exception, 1+k = exception of position k)"
        if not seq and nops >= 2 and int(m["maxtnum"]) >= 1:
            multi = True
    if int(summ["execs"]) != tot_inv or int(summ["queued"]) != queued or int(summ["dropped"]) != queued - ran_queued:
        return "format: summary counts differ from the per-call monitors"
    if queued - ran_queued > 0 and not any(c["kind"] == "e" and c["waitmode"] == 2 for c in calls):
        return f"lost-task: {queued - ran_queued} queued task(s) never ran although every call was waited before destruction"
    STATS["multi_worker_calls"] += 1 if multi else 0
    STATS["scenarios_with_sleep"] += 1 if int(head["sleeps"]) > 0 else 0
    STATS["scenarios_with_drop"] += 1 if queued - ran_queued > 0 else 0
    STATS["spurious_wakeups_injected"] += int(head["spur"])
    STATS["scenarios_without_trace" if sc["notrace"] else "traces_validated_against_impl"] += 1
    if sc["dir"]:
        STATS["directed_scenarios"] += 1
        STATS["directed_parks"] += int(head.get("parks", 0))
        grp = "pool1" if size == 1 else "pool2+"
        if int(head.get("d1", 0)) > 0:
            STATS["directed_destroy_reached/" + grp] += 1
        if int(head.get("d2", 0)) > 0:
            STATS["directed_push_reached/" + grp] += 1
        STATS["directed_destroy_hits"] += int(head.get("d1", 0))
        STATS["directed_push_hits"] += int(head.get("d2", 0))
    big = False
    for cl in calls:
        if cl["kind"] == "m" and not seq_path(cl, size):
            if cl["n"] > 128 * size:
                STATS["large/elements>128*size"] += 1
                big = True
            if len(ranges_of(cl)) > 1024:
                STATS["large/chunks>1024"] += 1
                big = True
    if big and not sc["notrace"]:
        STATS["large/traced"] += 1
    return None


def static_checks():
    """tripwires: the two path conditions mirrored by Pool.seqPathElems / Pool.seqPathChunk and the hook events the trace
    automaton relies on must still be in the source (a change there needs the model to be re-read against the code)"""
    bad = []
    try:
        h = open(os.path.join(vlib.REPO, "include/nano/core/parallel.h")).read()
        c = open(os.path.join(vlib.REPO, "src/core/parallel.cpp")).read()
    except OSError as ex:
        return [f"cannot read the pool sources: {ex}"]
    for cond, name in (("if (size() == 1 || elements <= 1)", "seqPathElems"), ("if (size() == 1 || chunksize >= elements)", "seqPathChunk")):
        if h.count(cond) != 1:
            bad.append(f"parallel.h: the condition `{cond}` mirrored by Pool.{name} occurs {h.count(cond)} times (expected 1)")
    want = {"pre_lock": 5, "lock_acquired": 5, "lock_release": 6, "push": 2, "notify_one": 1, "notify_all": 4, "pred": 1, "pop": 1,
            "clear": 1, "run_begin": 1, "run_end": 1, "worker_exit": 1, "stop_set": 1, "join_begin": 1, "join_end": 1,
            "map_enter": 2, "map_parallel": 2, "block_begin": 2, "map_return": 2}
    for ev, n in want.items():
        k = (h + c).count(f"NANO_VERIF_POOL({ev},")
        if k != n:
            bad.append(f"hook H1: event `{ev}` is emitted at {k} places (the trace automaton of Pool.checkTrace expects {n})")
    bad += guarded_twins(h, "parallel.h") + guarded_twins(c, "parallel.cpp")
    # the small functions modelled literally in Model/PoolSection.lean (section_t's lifetime, the pool size): their text,
    # hook statements removed, must be the text the model was written against
    literal = {
        "section_t::block (Pool.step2 bWait/bDone)":
            "void section_t::block(const bool raise){for(const auto& future:*this){if(future.valid()){raise?future.get():future.wait();}}}",
        "section_t::~section_t (Pool.step2 dWait/exit, Pool.dtorSees)": "section_t::~section_t(){block(false);}",
        "pool_t::pool_t() (Pool.defaultSize)": "pool_t::pool_t():pool_t(max_size()){}",
        "pool_t::max_size (Pool.maxSize)":
            "size_t pool_t::max_size(){return std::max(size_t(1),static_cast<size_t>(std::thread::hardware_concurrency()));}",
        "pool_t::pool_t(threads) (Pool.clampSize)": "const auto n_workers=std::clamp(threads,size_t(1),max_size());",
    }
    cn = _norm2(re.sub(r"NANO_VERIF_POOL\((?:[^()]|\((?:[^()]|\([^()]*\))*\))*\);", "", c))
    for name, text in literal.items():
        if cn.count(_norm2(text)) != 1:
            bad.append(f"parallel.cpp: the text of {name} is not the one the Lean model was written against (expected `{text}`)")
    hn = _norm2(h)
    for name, text in {"pool_t::size (St.nw)": "size_t size() const { return m_threads.size(); }",
                       "section_t base (the futures of one map call)": "class NANO_PUBLIC section_t : public std::vector<future_t>",
                       "pool_t::enqueue (forwards to queue_t::enqueue)": "return m_queue.enqueue(std::forward<tfunction>(f));"}.items():
        if hn.count(_norm2(text)) != 1:
            bad.append(f"parallel.h: the text of {name} is not the one the Lean model was written against (expected `{text}`)")
    return bad


def _norm2(s):
    """whitespace-insensitive, but keeps one blank between two identifier characters"""
    s = re.sub(r"\s+", " ", s)
    return re.sub(r" ?([^A-Za-z0-9_ ]) ?", r"\1", s).strip()


def _norm(s):
    return re.sub(r"\s+", "", s)


def guarded_twins(text, name):
    """hook H1 is add-only, so the one place where an event has to be emitted from INSIDE an existing expression (the
    predicate of the worker's condition-variable wait) exists twice: `#ifdef NANO_VERIF <hooked copy> #else <original>
    #endif`. Every check builds with the guard on and would never see an edit of the original branch, so the two branches
    must stay the same code: the hooked copy with its NANO_VERIF_POOL(...) statements removed and `const auto ready = E;
    ...; return ready;` folded back to `return E;` must equal the original (whitespace-insensitive). Any other
    `#ifdef NANO_VERIF ... #else` with code in the #else branch is reported as well (none is expected)."""
    bad = []
    blocks, cur = [], None          # (hooked lines, original lines) of every `#ifdef NANO_VERIF … #else … #endif`
    for line in text.splitlines():
        t = line.strip()
        if t.startswith("#ifdef NANO_VERIF"):
            cur = [[], None]
        elif cur is not None and t.startswith("#else"):
            cur[1] = []
        elif cur is not None and t.startswith("#endif"):
            if cur[1] is not None:
                blocks.append(("\n".join(cur[0]), "\n".join(cur[1])))
            cur = None
        elif cur is not None:
            (cur[0] if cur[1] is None else cur[1]).append(line)
    for hooked, orig in blocks:
        if not orig.strip() or orig.lstrip().startswith("#define NANO_VERIF_POOL"):
            continue
        hk = re.sub(r"NANO_VERIF_POOL\((?:[^()]|\((?:[^()]|\([^()]*\))*\))*\);", "", hooked)
        mm = re.search(r"const auto ready\s*=\s*(.*?);", hk, re.S)
        if mm:
            hk = hk.replace(mm.group(0), "").replace("return ready;", "return " + mm.group(1).strip() + ";")
        if _norm(hk) != _norm(orig):
            bad.append(f"{name}: the code under `#ifdef NANO_VERIF` (what every check builds) and its `#else` twin (what a build "
                       f"without the guard runs) differ: hooked=`{' '.join(hk.split())[:200]}` original=`{' '.join(orig.split())[:200]}`")
    return bad


def compare(aug, impl, model):
    """the model recomputes the summary from the trace (counts, path=1 lock=1 quiet=1); exact string equality"""
    return impl.split(" | ")[0] == model


def model_skip(aug):
    return aug.endswith(" notrace")


def nontrivial(op):
    sc = parse_op(op)
    size = min(max(sc["asked"], 1), os.cpu_count() or 1)
    return size >= 2 and any(c["kind"] == "m" and not seq_path(c, size) and len(ranges_of(c)) >= 2
                             for p in sc["progs"] for c in p)


def distribution(ops):
    d = {}
    def inc(k):
        d[k] = d.get(k, 0) + 1
    for op in ops:
        sc = parse_op(op)
        inc(f"pool/{sc['asked']}" if sc["asked"] != 1000 else "pool/default-constructor")
        if sc["ty"] >= 10:
            inc(f"directed/mode{sc['ty'] // 10}/pool{sc['asked']}")
        inc(f"submitters/{len(sc['progs'])}")
        inc("delays/on" if sc["dprob"] else "delays/off")
        for p in sc["progs"]:
            for c in p:
                if c["kind"] == "m":
                    inc("map/elements" if c["c"] == 0 else "map/chunked")
                    inc("elements/" + ("0" if c["n"] == 0 else "1" if c["n"] == 1 else "2" if c["n"] == 2 else "3-64" if c["n"] <= 64
                                       else "65-1000" if c["n"] <= 1000 else "1001-5000"))
                    if c["throws"]:
                        inc("map/throwing/raise" if c["raise_"] else "map/throwing/noraise")
                else:
                    inc(f"enqueue/waitmode{c['waitmode']}")
    d.update({"run/" + k: v for k, v in STATS.items()})
    return d


def classify(op, kind, detail):
    if kind == "crash":
        if "hang:" in detail:
            return "hang"
        if "ThreadSanitizer" in detail:
            return "tsan-report"
        return "crash"
    if kind == "corr":
        return "trace-not-a-model-path"
    return detail.split(":", 1)[0]


def shrink_candidates(op):
    """few, strictly decreasing candidates (a hanging candidate costs the watchdog's timeout)"""
    sc = parse_op(op.split(" size ")[0])
    out = []
    def emit(s2):
        line = show_op(s2)
        if line != op and line not in out:
            out.append(line)
    if len(sc["progs"]) > 1:
        for k in range(len(sc["progs"])):
            emit(dict(sc, progs=sc["progs"][:k] + sc["progs"][k + 1:]))
    for k, p in enumerate(sc["progs"]):
        if len(p) > 1:
            for j in range(len(p)):
                emit(dict(sc, progs=sc["progs"][:k] + [p[:j] + p[j + 1:]] + sc["progs"][k + 1:]))
    for k, p in enumerate(sc["progs"]):
        for j, c in enumerate(p):
            if c["kind"] == "m" and c["n"] > 2:
                n2 = c["n"] // 2
                c2 = dict(c, n=n2, c=min(c["c"], n2 + 1), throws=[])
                emit(dict(sc, progs=sc["progs"][:k] + [p[:j] + [c2] + p[j + 1:]] + sc["progs"][k + 1:]))
    if sc["asked"] > 2:
        emit(dict(sc, asked=2))
    if sc["spur"]:
        emit(dict(sc, spur=0))
    return out[:8]
