"""C17 — translation of the LOCK SCOPES of the thread pool.

`src/core/parallel.cpp` and `include/nano/core/parallel.h` are re-read on every run: for each function that touches the shared
queue state (`m_tasks`, `m_stop`, `m_condition`) the ordered list of those accesses is emitted with the flag "lexically inside a block
that declared a `std::unique_lock` / `std::scoped_lock` on the queue's mutex before it" into `NanoVerif/Gen/PoolScopes.lean`:

    scopes : List (String × List (String × Bool))      function ↦ [(access, under the lock?)]

`Proofs/PoolScopesGen.lean` holds the hand-written table (the program order `Model/Pool.lean` / `Model/PoolSection.lean` follow and
the critical-section membership `Model/PoolMon.lean` demands of the trace) and `model_pool_scopes_is_generated` (rfl), from which
`shared_state_only_under_lock` follows: every read / write of `m_tasks` and `m_stop` is under the mutex, except inside
`enqueue_no_lock`, every call of which is under the mutex; `notify_*` after a push / the stop flag come after the lock is released;
a task runs outside the lock. The trace monitors check the same facts at run time THROUGH the hook statements; this table checks the
code the hooks sit in (a hook pair left in place around a statement that moved out of the scope is invisible to the trace).

The verification hooks (`NANO_VERIF_POOL(...)` statements, `#ifdef NANO_VERIF … #else … #endif`: the `#else` branch is what the
library compiles without the define) are removed first. Accesses outside the listed functions are a translation failure.
"""
import os, re
import vlib
from vlib import Broken

CPP = "src/core/parallel.cpp"
HDR = "include/nano/core/parallel.h"
# (label, file, regex of the function header up to its opening brace, which occurrence)
FUNCTIONS = [
    ("queue_t::enqueue", HDR, r"future_t\s+enqueue\s*\(\s*tfunction&&\s+f\s*\)\s*\{", 0),
    ("queue_t::enqueue_no_lock", HDR, r"future_t\s+enqueue_no_lock\s*\(\s*tfunction&&\s+f\s*\)\s*\{", 0),
    ("worker_t::operator()", CPP, r"void\s+worker_t::operator\(\)\s*\(\s*\)\s*const\s*\{", 0),
    ("pool_t::~pool_t", CPP, r"pool_t::~pool_t\s*\(\s*\)\s*\{", 0),
    ("pool_t::enqueue", HDR, r"future_t\s+enqueue\s*\(\s*tfunction&&\s+f\s*\)\s*\{", 1),
    ("pool_t::map(elements)", HDR, r"void\s+map\s*\(\s*tsize\s+elements\s*,\s*const\s+toperator&\s+op\s*,\s*bool\s+raise\s*=\s*true\s*\)\s*\{", 0),
    ("pool_t::map(elements,chunksize)", HDR,
     r"void\s+map\s*\(\s*tsize\s+elements\s*,\s*tsize\s+chunksize\s*,\s*const\s+toperator&\s+op\s*,\s*bool\s+raise\s*=\s*true\s*\)\s*\{", 0),
]

TOKEN = re.compile(
    r"(?P<open>\{)|(?P<close>\})"
    r"|(?P<lock>std::(?:unique_lock|scoped_lock|lock_guard)\s*(?:<[^>]*>)?\s+\w+\s*[({]\s*(?:m_queue\s*\.\s*)?m_mutex\s*[)}])"
    r"|(?P<unlock>\b\w+\s*\.\s*unlock\s*\(\s*\))"
    r"|(?P<tasks>(?:m_queue\s*\.\s*)?\bm_tasks\s*\.\s*(?P<tm>\w+))"
    r"|(?P<stopw>(?:m_queue\s*\.\s*)?\bm_stop\s*=(?!=))"
    r"|(?P<stopr>(?:m_queue\s*\.\s*)?\bm_stop\b)"
    r"|(?P<cond>(?:m_queue\s*\.\s*)?\bm_condition\s*\.\s*(?P<cm>\w+))"
    r"|(?P<nolock>\benqueue_no_lock\s*\()"
    r"|(?P<enq>\bm_queue\s*\.\s*enqueue\s*\()"
    r"|(?P<run>\btask\s*\(\s*m_tnum\s*\))"
    r"|(?P<block>\bsection\s*\.\s*block\s*\()"
    r"|(?P<join>\bthread\s*\.\s*join\s*\(\s*\))")


def preprocess(text):
    """the library as compiled without -DNANO_VERIF: hook statements and `#ifdef NANO_VERIF` branches removed, comments removed"""
    out, skip = [], []          # skip: stack of [in NANO_VERIF conditional?, currently skipping?]
    for line in text.split("\n"):
        s = line.strip()
        if re.match(r"#\s*ifdef\s+NANO_VERIF\b", s):
            skip.append([True, True]); continue
        if re.match(r"#\s*if", s):
            skip.append([False, False]); continue
        if re.match(r"#\s*else\b", s) and skip:
            if skip[-1][0]:
                skip[-1][1] = False
            continue
        if re.match(r"#\s*endif\b", s) and skip:
            skip.pop(); continue
        if any(k[1] for k in skip):
            continue
        out.append(line)
    text = "\n".join(out)
    text = re.sub(r"//[^\n]*", "", text)
    text = re.sub(r"/\*.*?\*/", "", text, flags=re.S)
    # hook statements (possibly spanning lines)
    text = re.sub(r"\bNANO_VERIF_POOL\s*\((?:[^()]|\((?:[^()]|\([^()]*\))*\))*\)\s*;", "", text)
    return text


def _body(text, i, where):
    depth = 0
    for j in range(i, len(text)):
        if text[j] == "{":
            depth += 1
        elif text[j] == "}":
            depth -= 1
            if depth == 0:
                return text[i:j + 1]
    raise Broken("translate", f"{where}: unbalanced braces")


def scan(body):
    """ordered accesses of one function body with the `under the lock` flag"""
    depth, locks, acc = 0, [], []      # locks: depths at which a lock object was declared (alive until that block closes)
    for m in TOKEN.finditer(body):
        k = m.lastgroup if m.lastgroup not in ("tm", "cm") else None
        # lastgroup is the LAST matched named group: for tasks / cond that is the method group
        if m.group("open"):
            depth += 1
        elif m.group("close"):
            locks = [d for d in locks if d < depth]
            depth -= 1
        elif m.group("lock"):
            locks.append(depth); acc.append(("lock", True))
        elif m.group("unlock"):
            if locks:
                locks.pop()
            acc.append(("unlock", False))
        else:
            held = bool(locks)
            if m.group("tasks"):
                acc.append(("tasks." + m.group("tm"), held))
            elif m.group("stopw"):
                acc.append(("stop:=", held))
            elif m.group("stopr"):
                acc.append(("stop?", held))
            elif m.group("cond"):
                acc.append(("cond." + m.group("cm"), held))
            elif m.group("nolock"):
                acc.append(("enqueue_no_lock", held))
            elif m.group("enq"):
                acc.append(("queue.enqueue", held))
            elif m.group("run"):
                acc.append(("run task", held))
            elif m.group("block"):
                acc.append(("section.block", held))
            elif m.group("join"):
                acc.append(("thread.join", held))
    return acc


SHARED = re.compile(r"\bm_tasks\b|\bm_stop\b|\bm_condition\b|\bm_mutex\b")


def scopes(repo=None):
    repo = repo or vlib.REPO
    texts = {f: preprocess(open(os.path.join(repo, f)).read()) for f in (CPP, HDR)}
    out, seen = [], {CPP: 0, HDR: 0}
    for label, f, pat, k in FUNCTIONS:
        ms = list(re.finditer(pat, texts[f]))
        if len(ms) <= k:
            raise Broken("translate", f"{f}: header of {label} not found (occurrence {k})")
        body = _body(texts[f], ms[k].end() - 1, f"{f} {label}")
        if label == "queue_t::enqueue_no_lock":
            # the definition itself: `enqueue_no_lock(` in the header line is not part of the body
            pass
        out.append((label, scan(body)))
        seen[f] += len(SHARED.findall(body))
    # every mention of the shared members is inside one of the listed functions, or is its declaration in queue_t
    for f in (CPP, HDR):
        total = len(SHARED.findall(texts[f]))
        decls = len(re.findall(r"^\s*(?:mutable\s+)?(?:std::deque<task_t>|std::mutex|std::condition_variable|bool)\s+"
                               r"(?:m_tasks|m_stop|m_condition|m_mutex)\b[^;]*;", texts[f], re.M))
        if total != seen[f] + decls:
            raise Broken("translate", f"{f}: {total} mentions of m_tasks / m_stop / m_condition / m_mutex, of which {seen[f]} in the "
                                      f"listed functions and {decls} declarations: the shared state is touched somewhere else")
    return out


def translate(repo=None):
    sc = scopes(repo)
    rows = []
    for label, acc in sc:
        items = ", ".join(f'("{a}", {"true" if h else "false"})' for a, h in acc)
        rows.append(f'  ("{label}", [{items}])')
    text = (
        "-- GENERATED by tools/props/c17_translate.py from src/core/parallel.cpp and include/nano/core/parallel.h — do not edit\n"
        "namespace NanoVerif.Gen.PoolScopes\n\n"
        "/-- per function: the accesses to the queue's shared state in program order, each with the flag `lexically inside a block\n"
        "    that declared a lock on the queue's mutex before it` (hook statements and NANO_VERIF branches removed) -/\n"
        "def scopes : List (String × List (String × Bool)) := [\n" + ",\n".join(rows) + "]\n\n"
        "end NanoVerif.Gen.PoolScopes\n")
    vlib.write_if_changed(os.path.join(vlib.LEAN, "NanoVerif", "Gen", "PoolScopes.lean"), text)
    return sc


if __name__ == "__main__":
    import sys
    for label, acc in scopes(sys.argv[1] if len(sys.argv) > 1 else None):
        print(label)
        for a in acc:
            print("   ", a)
