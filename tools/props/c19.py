"""C19 — parameters stay inside their declared domain; clones are configuration-equal (DESIGN.md §4 C19)."""
import itertools, math, os, re, struct, sys
from fractions import Fraction

import vlib
from vlib import Toks, Broken, f2h, h2f

sys.path.insert(0, os.path.dirname(os.path.abspath(__file__)))
import _c19_translate as T
from _c19_translate import q, unq

ID = "C19"
LEVEL = "proof"
HARNESS = "c19"
LEAN_MODULES = ["NanoVerif.Props.C19"]
NS = "NanoVerif.Param."
OBLIGATIONS = [NS + t for t in [
    "check_sound", "updateRange_accepts_iff", "updatePair_accepts_iff", "updateEnum_accepts_iff",
    "construct_in_domain", "step_preserves_domain", "reachable_in_domain", "rejected_is_noop",
    "accepted_reads_back", "read_is_pure", "mismatched_read_throws", "mismatched_assign_throws",
    "unknown_name_throws", "duplicate_register_throws", "register_then_found", "config_preserves_domain",
    "defaults_in_domain", "defaults_constructible", "type_ids_match",
]]
TRUSTED = [
    "Lean 4.33.0 kernel (core library only for this property; no Mathlib import)",
    "axioms: at most propext, Classical.choice, Quot.sound (audited per theorem on every run)",
    "tools/props/_c19_translate.py: the C++ -> Lean translation of check(LEorLT,…) and of the three update(name, param, value…) "
    "functions of src/parameter.cpp (Gen/ParamCheck.lean, regenerated on every run; the theorems are stated over it)",
    "harness/c19.cpp `factory dump` + the translation of its output into Gen/FactoryParams.lean (regenerated on every run)",
    "hand-written model NanoVerif/Model/Parameter.lean (dispatch of operator=/value<T>() on the stored alternative), "
    "ParamParse.lean (std::stoll/std::stod/split_pair), ParamFloat.lean (exact doubles, int64<->double casts as x86-64 does them), "
    "Configurable.lean; tied to the code by the correspondence run (exact comparison of every answer and every state)",
    "tools/props/c19.py generator + reference semantics; harness/c19.cpp; g++/libstdc++/glibc strtod",
]
ASSUMPTIONS = [
    "the write/read round trip is modelled as the identity on the stored alternative (the byte codec is C15's subject); the "
    "correspondence checks operator== after the round trip and that the stream is consumed",
    "static_cast<int64_t>(double) of NaN/inf/|x|>=2^63 is undefined behaviour in C++; the model follows x86-64 (cvttsd2si gives -2^63); "
    "the domain theorems hold for any conversion function, the reference semantics accepts either outcome",
    "the order in which g++ evaluates the two std::stoll/std::stod arguments of one call (right to left) only decides which "
    "exception is reported when both tokens of a pair are malformed",
    "'the clone behaves identically' is observed on one probe input per loss/function/splitter/deterministic solver only",
    "enumeration parameters are exercised through one enumeration declared in the harness (4 names, one with a blank)",
]
RULE = ("per kind x <=/< combination (4 integer, 4 scalar, 8 integer-pair, 8 scalar-pair specs, + enum, string, empty): every history "
        "of <= 2 operations over the full alphabet (bounds, bounds +- 1 / +- 1 ulp, NaN, +-inf, -0, 2^53+2, 1e19, numeric/garbage/"
        "overflowing strings, hex floats, pairs in/out of order, mismatched assignments, every typed read, write+read) and every "
        "history of <= 4 (quick) / <= 6 (thorough) operations over a core alphabet (each is a prefix of a generated line), random "
        "longer histories incl. extreme/empty/infinite/NaN domains; configurable_t histories (register/duplicate/lookup/config); every "
        "id of the 11 factories walked (type_id, defaults, clone equal, clone and second get() independent under modification, "
        "probe); a history is non-trivial when it contains an accepted and a rejected assignment; distinct by op text")
FLAVOUR = {"quick": "plain", "thorough": "asan"}
EXHAUSTIVE = {"quick": False, "thorough": False}
HARNESS_TIMEOUT = 1500

ENUM_NAMES = ["red", "green", "blue", "dark blue"]
I64MIN, I64MAX = -2 ** 63, 2 ** 63 - 1
INF, NAN = float("inf"), float("nan")
_ENTRIES = []       # the parsed `factory dump` of the current build (set by translate())


# ---------------------------------------------------------------------------------------------------------
# regenerated fragments

def _tier():
    a = sys.argv
    if "--tier" in a and a.index("--tier") + 1 < len(a):
        t = a[a.index("--tier") + 1]
        return t if t in ("quick", "thorough") else "quick"
    return os.environ.get("VERIF_TIER", "quick") if os.environ.get("VERIF_TIER") in ("quick", "thorough") else "quick"


def _dump():
    fl = FLAVOUR.get(_tier(), "plain")
    vlib.build_repo(fl)
    exe = vlib.build_harness(HARNESS, fl)
    aug, res, crash = vlib.run_harness(exe, ["factory dump"], timeout=300)
    if crash is not None or len(res) != 1:
        raise Broken("translate:FactoryParams", f"the factory dump crashed: {crash}")
    return T.parse_dump(res[0])


def translate():
    global _ENTRIES
    gen_dir = os.path.join(vlib.LEAN, "NanoVerif", "Gen")
    errors = []
    try:
        vlib.write_if_changed(os.path.join(gen_dir, "ParamCheck.lean"), T.paramcheck_text(vlib.REPO))
    except Broken as b:
        errors.append(b)
    try:
        _ENTRIES = _dump()
        vlib.write_if_changed(os.path.join(gen_dir, "FactoryParams.lean"), T.factoryparams_text(_ENTRIES))
    except Broken as b:
        errors.append(b)
    if errors:
        raise Broken("; ".join(e.what for e in errors), "\n".join(f"{e.what}: {e.detail or e}" for e in errors))


# ---------------------------------------------------------------------------------------------------------
# wire format

def ulp_next(x):
    return math.nextafter(x, INF)


def ulp_prev(x):
    return math.nextafter(x, -INF)


def hx(x):
    return f2h(x)


class Spec:
    """what a parameter is built from; `toks` is its wire form"""
    def __init__(self, kind, **kw):
        self.kind = kind
        self.__dict__.update(kw)

    def wire(self):
        k = self.kind
        if k == "mono":
            return "mono"
        if k == "enum":
            return f"enum {q(self.value)} {len(ENUM_NAMES)} " + " ".join(q(n) for n in ENUM_NAMES)
        if k == "str":
            return f"str {q(self.value)}"
        if k == "int":
            return f"int {self.min} {self.mincomp} {self.value} {self.maxcomp} {self.max}"
        if k == "float":
            return f"float {hx(self.min)} {self.mincomp} {hx(self.value)} {self.maxcomp} {hx(self.max)}"
        if k == "ipair":
            return f"ipair {self.min} {self.mincomp} {self.value1} {self.valcomp} {self.value2} {self.maxcomp} {self.max}"
        return (f"fpair {hx(self.min)} {self.mincomp} {hx(self.value1)} {self.valcomp} {hx(self.value2)} "
                f"{self.maxcomp} {hx(self.max)}")

    def state(self):
        """the state a successfully constructed parameter starts in"""
        d = dict(self.__dict__)
        if self.kind == "enum":
            d["domain"] = list(ENUM_NAMES)
        return d


def read_spec(t):
    k = t.s()
    if k == "mono":
        return Spec(k)
    if k == "enum":
        v = unq(t.s()); n = t.int(); dom = [unq(t.s()) for _ in range(n)]
        assert dom == ENUM_NAMES
        return Spec(k, value=v)
    if k == "str":
        return Spec(k, value=unq(t.s()))
    if k == "int":
        mn = t.int(); mc = t.s(); v = t.int(); xc = t.s(); mx = t.int()
        return Spec(k, min=mn, mincomp=mc, value=v, maxcomp=xc, max=mx)
    if k == "float":
        mn = t.f(); mc = t.s(); v = t.f(); xc = t.s(); mx = t.f()
        return Spec(k, min=mn, mincomp=mc, value=v, maxcomp=xc, max=mx)
    if k == "ipair":
        mn = t.int(); mc = t.s(); v1 = t.int(); vc = t.s(); v2 = t.int(); xc = t.s(); mx = t.int()
        return Spec(k, min=mn, mincomp=mc, value1=v1, valcomp=vc, value2=v2, maxcomp=xc, max=mx)
    if k == "fpair":
        mn = t.f(); mc = t.s(); v1 = t.f(); vc = t.s(); v2 = t.f(); xc = t.s(); mx = t.f()
        return Spec(k, min=mn, mincomp=mc, value1=v1, valcomp=vc, value2=v2, maxcomp=xc, max=mx)
    raise ValueError("spec kind " + k)


OP_ARITY = {"si": 1, "sf": 1, "spi": 2, "sp32": 2, "spf": 2, "ss": 1, "se": 1,
            "ri": 0, "rf": 0, "rpi": 0, "rpf": 0, "rs": 0, "re": 0, "wr": 0}
ASSIGN = ("si", "sf", "spi", "sp32", "spf", "ss", "se")


def read_op(t):
    """-> (kind, decoded args, wire tokens)"""
    k = t.s()
    raw = [t.s() for _ in range(OP_ARITY[k])]
    if k in ("si",):
        args = [int(raw[0])]
    elif k == "sf":
        args = [h2f(raw[0])]
    elif k in ("spi", "sp32"):
        args = [int(raw[0]), int(raw[1])]
    elif k == "spf":
        args = [h2f(raw[0]), h2f(raw[1])]
    elif k in ("ss", "se"):
        args = [unq(raw[0])]
    else:
        args = []
    return k, args, [k] + raw


def read_state(t):
    """state as printed by the harness -> dict with python values"""
    st = T.read_state(t)
    if st["kind"] == "float":
        for f in ("value", "min", "max"):
            st[f] = h2f(st[f])
    if st["kind"] == "fpair":
        for f in ("value1", "value2", "min", "max"):
            st[f] = h2f(st[f])
    return st


# ---------------------------------------------------------------------------------------------------------
# reference semantics, coded from the property statement (independent of the Lean model)

def same(a, b):
    """same value, doubles bit for bit"""
    if isinstance(a, float) or isinstance(b, float):
        return isinstance(a, float) and isinstance(b, float) and f2h(a) == f2h(b)
    return a == b


def finite(v):
    return not isinstance(v, float) or (v == v and v not in (INF, -INF))


def rel(c, a, b):
    return a <= b if c == "le" else a < b


def in_domain(st):
    k = st["kind"]
    if k in ("mono", "str"):
        return True
    if k == "enum":
        return st["value"] in st["domain"]
    if k in ("int", "float"):
        v = st["value"]
        return finite(v) and rel(st["mincomp"], st["min"], v) and rel(st["maxcomp"], v, st["max"])
    a, b = st["value1"], st["value2"]
    return (finite(a) and finite(b) and rel(st["mincomp"], st["min"], a) and rel(st["valcomp"], a, b)
            and rel(st["maxcomp"], b, st["max"]))


UNDEF = object()     # a conversion the C++ standard leaves undefined: either outcome is accepted
REJECT = object()    # the assignment must be rejected (malformed text, wrong type)

SPACE = " \t\n\x0b\x0c\r"
INT_RE = re.compile(r"[+-]?[0-9]+")
FLT_RE = re.compile(
    r"([+-]?)(?:(?P<inf>[iI][nN][fF](?:[iI][nN][iI][tT][yY])?)|(?P<nan>[nN][aA][nN](?:\([0-9A-Za-z_]*\))?)|"
    r"(?P<hex>0[xX](?:[0-9a-fA-F]+\.?[0-9a-fA-F]*|\.[0-9a-fA-F]+)(?:[pP][+-]?[0-9]+)?)|"
    r"(?P<dec>(?:[0-9]+\.?[0-9]*|\.[0-9]+)(?:[eE][+-]?[0-9]+)?))")


def text_to_int(s):
    m = INT_RE.match(s.lstrip(SPACE))
    if not m:
        return REJECT
    v = int(m.group(0))
    return v if I64MIN <= v <= I64MAX else REJECT


def exact_of(m):
    """the exact rational a numeric literal denotes"""
    if m.group("hex"):
        body = m.group("hex")[2:]
        exp = 0
        if "p" in body.lower():
            body, e = re.split("[pP]", body)
            exp = int(e)
        ip, _, fp = body.partition(".")
        mant = int((ip + fp) or "0", 16)
        return Fraction(mant) * Fraction(2) ** (exp - 4 * len(fp))
    body = m.group("dec")
    exp = 0
    if "e" in body.lower():
        body, e = re.split("[eE]", body)
        exp = int(e)
    ip, _, fp = body.partition(".")
    mant = int((ip + fp) or "0")
    if mant == 0:
        return Fraction(0)
    if abs(exp) > 5000:
        return Fraction(10) ** (5000 if exp > 0 else -5000)
    return Fraction(mant) * Fraction(10) ** (exp - len(fp))


def text_to_float(s):
    m = FLT_RE.match(s.lstrip(SPACE))
    if not m:
        return REJECT
    sign = -1.0 if m.group(1) == "-" else 1.0
    if m.group("inf"):
        return sign * INF
    if m.group("nan"):
        return NAN
    exact = exact_of(m)
    if exact == 0:
        return sign * 0.0
    if exact >= Fraction(2) ** 1024:
        return REJECT                      # not representable: the conversion reports a range error
    try:
        v = exact.numerator / exact.denominator     # correctly rounded true division of integers
    except OverflowError:
        return REJECT
    if v == INF:
        return REJECT
    if v < 2.0 ** -1022 and Fraction(v) != exact:
        return REJECT                      # underflow: range error as well
    return sign * v


def float_to_int(v):
    if v != v or v in (INF, -INF):
        return UNDEF
    i = math.trunc(v)
    return i if I64MIN <= i <= I64MAX else UNDEF


def split_pair(s):
    toks = [x for x in re.split(r"[;,:|/ ]", s) if x != ""]
    return (toks[0] if toks else "", toks[-1] if len(toks) > 1 else "")


def assigned(st, op, args):
    """the value(s) the assignment asks for, converted to the parameter's kind: a list of field updates,
    REJECT when the assignment cannot apply to this kind / the text is malformed, UNDEF when the conversion is undefined"""
    k = st["kind"]
    isint = k in ("int", "ipair")
    def num(v, src):
        if isint:
            return v if src == "i" else float_to_int(v)
        return float(v) if src == "i" else v
    if op == "si" or op == "sf":
        if k not in ("int", "float"):
            return REJECT
        v = num(args[0], "i" if op == "si" else "f")
        return UNDEF if v is UNDEF else {"value": v}
    if op in ("spi", "sp32", "spf"):
        if k not in ("ipair", "fpair"):
            return REJECT
        a, b = (num(x, "f" if op == "spf" else "i") for x in args)
        return UNDEF if (a is UNDEF or b is UNDEF) else {"value1": a, "value2": b}
    if op == "se":
        return {"value": args[0]} if k == "enum" else REJECT
    if op == "ss":
        s = args[0]
        if k == "mono":
            return REJECT
        if k in ("enum", "str"):
            return {"value": s}
        conv = text_to_int if isint else text_to_float
        if k in ("int", "float"):
            v = conv(s)
            return REJECT if v is REJECT else {"value": v}
        s1, s2 = split_pair(s)
        a, b = conv(s1), conv(s2)
        return REJECT if (a is REJECT or b is REJECT) else {"value1": a, "value2": b}
    raise ValueError(op)


def ref_step(st, op, args):
    """-> (state afterwards | None when it cannot be predicted, expectation)
    expectation: ('ok', [values…]) | ('throw',) | ('any',)"""
    k = st["kind"]
    if op in ASSIGN:
        upd = assigned(st, op, args)
        if upd is REJECT:
            return st, ("throw",)
        if upd is UNDEF:
            return None, ("any",)
        new = dict(st); new.update(upd)
        if in_domain(new):
            return new, ("ok", [])
        return st, ("throw",)
    if op == "ri":
        if k == "int":
            return st, ("ok", [st["value"]])
        if k == "float":
            v = float_to_int(st["value"])
            return st, (("any",) if v is UNDEF else ("ok", [v]))
        return st, ("throw",)
    if op == "rf":
        if k in ("int", "float"):
            return st, ("ok", [float(st["value"])])
        return st, ("throw",)
    if op == "rpi":
        if k == "ipair":
            return st, ("ok", [st["value1"], st["value2"]])
        if k == "fpair":
            a, b = float_to_int(st["value1"]), float_to_int(st["value2"])
            return st, (("any",) if (a is UNDEF or b is UNDEF) else ("ok", [a, b]))
        return st, ("throw",)
    if op == "rpf":
        if k in ("ipair", "fpair"):
            return st, ("ok", [float(st["value1"]), float(st["value2"])])
        return st, ("throw",)
    if op == "rs":
        return st, (("ok", [st["value"]]) if k == "str" else ("throw",))
    if op == "re":
        return st, (("ok", [st["value"]]) if k == "enum" else ("throw",))
    if op == "wr":
        return st, ("ok", [1, 1])
    raise ValueError(op)


def same_state(a, b):
    if a["kind"] != b["kind"]:
        return False
    keys = set(a) | set(b)
    return all(k in a and k in b and (a[k] == b[k] if isinstance(a[k], (str, list)) else same(a[k], b[k])) for k in keys)


def same_domain(a, b):
    """same kind, bounds, comparators (the value may differ)"""
    if a["kind"] != b["kind"]:
        return False
    return all(same(a[k], b[k]) if not isinstance(a[k], (str, list)) else a[k] == b[k]
               for k in a if k not in ("value", "value1", "value2"))


def read_answer(t, op, k):
    """the values an `ok` answer carries, as python values"""
    if op in ("ri",):
        return [t.int()]
    if op == "rf":
        return [t.f()]
    if op == "rpi":
        return [t.int(), t.int()]
    if op == "rpf":
        return [t.f(), t.f()]
    if op in ("rs", "re"):
        return [unq(t.s())]
    if op == "wr":
        return [t.int(), t.int()]
    return []


def check_answer(t, op, expect):
    """consumes one answer (`ok …` / `throw kind`) from t; returns (threw, why-or-None)"""
    w = t.s()
    if w == "throw":
        t.s()
        if expect[0] == "ok":
            return True, f"[spurious-throw] `{op}` threw although the property requires it to succeed"
        return True, None
    if w != "ok":
        return False, f"[answer] unreadable answer `{w}`"
    got = read_answer(t, op, None)
    if expect[0] == "throw":
        return False, f"[missing-throw] `{op}` was accepted although the property requires a throw"
    if expect[0] == "ok" and op not in ASSIGN:
        if len(got) != len(expect[1]) or not all(same(g, e) for g, e in zip(got, expect[1])):
            return False, f"[read-back] `{op}` returned {got}, the reference value is {expect[1]}"
    return False, None


def oracle_param(t, r):
    spec = read_spec(t)
    n = t.int()
    ops = [read_op(t) for _ in range(n)]
    st0 = spec.state()
    first = r.s()
    if first == "throw":
        r.s()
        if in_domain(st0):
            return "[ctor-spurious-throw] construction with a default inside the domain threw"
        return None
    if first != "ok":
        return f"[answer] implementation did not answer ok/throw: {first}"
    got = read_state(r)
    if not in_domain(st0):
        return "[ctor-missing-throw] a parameter whose default is outside its domain was constructed"
    if not same_state(got, st0):
        return f"[ctor-state] constructed parameter {got} differs from its specification {st0}"
    cur = st0          # reference state (None = unknown after an undefined conversion)
    prev = got         # the implementation's previous state
    for (op, args, _) in ops:
        if r.s() != ";":
            return "[answer] malformed history answer"
        if cur is not None:
            new, expect = ref_step(cur, op, args)
        else:
            new, expect = None, ("any",)
        threw, why = check_answer(r, op, expect)
        if why:
            return why
        if r.s() != "/":
            return "[answer] malformed history answer"
        got = read_state(r)
        # the statement, directly on what the implementation reports
        if not same_domain(got, st0):
            return f"[domain-changed] kind/bounds/comparators changed: {got}"
        if not in_domain(got):
            return f"[out-of-domain] stored value outside the declared domain after `{op}`: {got}"
        if threw and not same_state(got, prev):
            return f"[rejected-not-noop] `{op}` threw but the stored value changed: {prev} -> {got}"
        if op not in ASSIGN and not same_state(got, prev):
            return f"[read-mutates] `{op}` changed the stored value: {prev} -> {got}"
        if new is not None and not same_state(got, new):
            return f"[read-back] after `{op}` the parameter holds {got}, the reference semantics says {new}"
        cur = new if new is not None else got
        prev = got
    return None if r.done() else "[answer] trailing tokens"


def oracle_config(t, r):
    n = t.int()
    if r.s() != "ok":
        return "[answer] implementation did not answer ok"
    params = []      # [(name, state | None)]
    def find(name):
        for i, (nm, _) in enumerate(params):
            if nm == name:
                return i
        return None
    for _ in range(n):
        cop = t.s(); name = unq(t.s())
        if r.s() != ";":
            return "[answer] malformed history answer"
        if cop == "reg":
            spec = read_spec(t)
            st = spec.state()
            expect_ok = in_domain(st) and find(name) is None
            w = r.s()
            if w == "throw":
                r.s()
                if expect_ok:
                    return f"[register-spurious-throw] registering the new parameter `{name}` threw"
            elif w == "ok":
                if find(name) is not None:
                    return f"[duplicate-register] a second parameter called `{name}` was registered"
                if not in_domain(st):
                    return "[ctor-missing-throw] a parameter whose default is outside its domain was registered"
                params.append((name, st))
            else:
                return "[answer] malformed answer"
        elif cop == "has":
            w = r.s(); v = r.s()
            if w != "ok" or v != ("1" if find(name) is not None else "0"):
                return f"[lookup] parameter_if(`{name}`) answered {w} {v}"
        else:
            op, args, _ = read_op(t)
            i = find(name)
            if i is None:
                w = r.s()
                if w != "throw":
                    return f"[unknown-name] the unknown name `{name}` did not throw"
                r.s()
                continue
            st = params[i][1]
            if st is None:
                new, expect = None, ("any",)
            else:
                new, expect = ref_step(st, op, args)
            if cop == "cfg":
                w = r.s()
                threw = w == "throw"
                if threw:
                    r.s()
                if expect[0] == "ok" and threw:
                    return f"[spurious-throw] config(`{name}`) threw although the value is inside the domain"
                if expect[0] == "throw" and not threw:
                    return f"[missing-throw] config(`{name}`) accepted a value outside the domain"
            else:
                threw, why = check_answer(r, op, expect)
                if why:
                    return why
            params[i] = (name, new)
    if r.s() != ";" or r.s() != "state":
        return "[answer] malformed history answer"
    k = r.int()
    if k != len(params):
        return f"[registered] {k} parameters registered, the reference semantics has {len(params)}"
    for (name, st) in params:
        nm = unq(r.s()); got = read_state(r)
        if nm != name:
            return f"[registered] parameter `{nm}` where `{name}` was registered"
        if not in_domain(got):
            return f"[out-of-domain] `{name}` is outside its declared domain: {got}"
        if st is not None and not same_state(got, st):
            return f"[read-back] `{name}` holds {got}, the reference semantics says {st}"
    return None if r.done() else "[answer] trailing tokens"


def oracle_factory(t, r):
    what = t.s()
    if what == "dump":
        return None
    f = t.s()
    if r.s() != "ok":
        return f"[factory-throws] the factory `{f}` did not answer: {' '.join(r.t[:3])}"
    if what == "ids":
        n = r.int()
        ids = []
        for _ in range(n):
            ids.append(unq(r.s()))
            if r.s() != "1":
                return f"[ids] has(`{ids[-1]}`) is false for a listed id"
        if r.s() != "0":
            return "[ids] an unregistered id is reported as present"
        if len(set(ids)) != len(ids) or (n == 0):
            return "[ids] duplicated or missing ids"
        return None
    id_ = unq(t.s())
    w = r.s()
    if w == "missing":
        # get() of an id that was never registered returns null; the generator names such ids `no-such-…`
        return None if id_.startswith("no-such-") and r.done() else f"[missing-id] the factory `{f}` has no object `{id_}`"
    ty = unq(w)
    if ty != id_:
        return f"[type-id] `{f}`/`{id_}` reports type_id `{ty}`"
    n = r.int()
    params = []
    for _ in range(n):
        name = unq(r.s()); st = read_state(r)
        if not in_domain(st):
            return f"[default-out-of-domain] `{f}`/`{id_}` parameter `{name}` has its default outside the domain: {st}"
        params.append((name, st))
    if len({p[0] for p in params}) != len(params):
        return f"[duplicate-register] `{f}`/`{id_}` has two parameters with one name"
    if r.s() != "cloneeq" or r.s() != "1":
        return f"[clone-differs] the clone of `{f}`/`{id_}` does not have equal parameters / type_id"
    if r.s() != "probe" or r.s() not in ("1", "-1"):
        return f"[clone-behaves-differently] the clone of `{f}`/`{id_}` answers the probe input differently"
    if r.s() != "origsame" or r.s() != "1":
        return f"[clone-not-independent] modifying the clone (or a second object) of `{f}`/`{id_}` changed the original/prototype"
    if r.s() != "reclone" or r.s() != "1":
        return f"[clone-differs] the clone of a modified `{f}`/`{id_}` does not carry the modified parameters"
    if r.s() != "clone" or r.int() != n:
        return f"[clone-differs] the clone of `{f}`/`{id_}` has a different number of parameters"
    for (name, st) in params:
        nm = unq(r.s()); got = read_state(r)
        if nm != name or not same_domain(got, st):
            return f"[clone-differs] clone parameter `{nm}` does not match `{name}`"
        if not in_domain(got):
            return f"[out-of-domain] clone parameter `{name}` left its domain: {got}"
    return None if r.done() else "[answer] trailing tokens"


def oracle(op, res):
    t = Toks(op); r = Toks(res)
    fam = t.s()
    if res.startswith("bad-op"):
        return "[bad-op] the harness rejected the line: " + res[:120]
    if fam == "factory":
        return oracle_factory(t, r)
    t.s()
    if fam == "param":
        return oracle_param(t, r)
    if fam == "config":
        return oracle_config(t, r)
    return f"unknown family {fam}"


# ---------------------------------------------------------------------------------------------------------
# generator

COMBOS2 = list(itertools.product(("le", "lt"), repeat=2))
COMBOS3 = list(itertools.product(("le", "lt"), repeat=3))


def main_specs():
    out = []
    for mc, xc in COMBOS2:
        out.append(Spec("int", min=-2, mincomp=mc, value=1, maxcomp=xc, max=5))
    for mc, xc in COMBOS2:
        out.append(Spec("float", min=-1.0, mincomp=mc, value=0.5, maxcomp=xc, max=2.5))
    for mc, vc, xc in COMBOS3:
        out.append(Spec("ipair", min=-2, mincomp=mc, value1=0, valcomp=vc, value2=3, maxcomp=xc, max=5))
    for mc, vc, xc in COMBOS3:
        out.append(Spec("fpair", min=-1.0, mincomp=mc, value1=0.25, valcomp=vc, value2=1.5, maxcomp=xc, max=2.5))
    out.append(Spec("enum", value="green"))
    out.append(Spec("str", value="abc"))
    out.append(Spec("mono"))
    return out


READS = ["ri", "rf", "rpi", "rpf", "rs", "re", "wr"]


def S(s):
    return "ss " + q(s)


_ALPHA = {}


def alphabet(spec):
    """(full alphabet, core alphabet) of op texts for a spec"""
    w = spec.wire()
    if w not in _ALPHA:
        _ALPHA[w] = alphabet_(spec)
    return _ALPHA[w]


def alphabet_(spec):
    k = spec.kind
    if k == "int":
        mn, mx = spec.min, spec.max
        full = [f"si {v}" for v in (mn - 1, mn, mn + 1, 0, mx - 1, mx, mx + 1, I64MAX, I64MIN)]
        full += ["sf " + hx(v) for v in (float(mn), ulp_prev(float(mn)), ulp_next(float(mn)), float(mx), ulp_prev(float(mx)),
                                         ulp_next(float(mx)), 0.5, -0.0, NAN, INF, -INF, 9007199254740994.0, 1e19, -1e19)]
        full += [S(s) for s in ("3", " 4", "+5", str(mn), str(mx + 1), "abc", "", "3x", "0x10", "99999999999999999999",
                                "-99999999999999999999", "1e1", "2.9", "-", "inf", "\t-1", "+-1", "00000000000000000000001")]
        full += ["spi 1 2", "spf " + hx(0.5) + " " + hx(1.5), "se " + q("red")] + READS
        core = [f"si {mn}", f"si {mx}", "si 0", f"si {mx + 1}", "sf " + hx(NAN), S("3x"), S("abc"), "ri", "wr"]
        return full, core
    if k == "float":
        mn, mx = spec.min, spec.max
        full = ["sf " + hx(v) for v in (mn, ulp_prev(mn), ulp_next(mn), mx, ulp_prev(mx), ulp_next(mx), 0.5, -0.0, 0.0, NAN,
                                        INF, -INF, 1e308, 5e-324, -5e-324)]
        full += [f"si {v}" for v in (-2, -1, 0, 2, 3, 9007199254740993, I64MIN)]
        full += [S(s) for s in ("0.5", "-1", "-1.0000000000000002", "-0.99999999999999989", "2.5", "2.5000000000000004",
                                "2.4999999999999996", ".5", "5.", "1e0", "1e", "1e400", "1e-400", "1e-320", "0x1p-1", "0x", "0x.8",
                                "0x1.8p0", "0X1P+1", "inf", "-inf", "nan", "NAN(1)", "abc", "", " 1 ", "1,2", "+.e1", "-0",
                                "Infinity", "infinit", "1e+0x", "1.5e-1", "1e99999999999999999999", "0e99999999999999999999",
                                "1e-99999999999999999999", "2.2250738585072011e-308", "4.9e-324", "2e-324",
                                "0.1", "100000000000000000000000e-23", ".", "-.", "0x1p-1080", "1.7976931348623157e308",
                                "1.7976931348623159e308", "\t\n 2")]
        full += ["spi 1 2", "spf " + hx(0.5) + " " + hx(1.5), "se " + q("red")] + READS
        core = ["sf " + hx(mn), "sf " + hx(mx), "sf " + hx(0.25), "sf " + hx(ulp_next(mx)), "sf " + hx(NAN), S("1e0"), S("x"),
                "rf", "wr"]
        return full, core
    if k == "ipair":
        mn, mx = spec.min, spec.max
        pairs = [(mn, mn), (mn, mx), (0, 3), (3, 0), (3, 3), (mn - 1, 0), (0, mx + 1), (mx, mx), (mn, mn + 1), (mx - 1, mx),
                 (I64MIN, I64MAX)]
        full = [f"spi {a} {b}" for a, b in pairs] + ["sp32 1 2", "sp32 2 1", "sp32 -2147483648 2147483647"]
        full += [f"spf {hx(a)} {hx(b)}" for a, b in ((0.5, 1.5), (float(mn), ulp_prev(float(mx))), (NAN, 1.0), (1.0, INF),
                                                     (ulp_next(float(mn)), float(mx)), (mn - 0.5, mx + 0.9), (-0.0, 0.0),
                                                     (1e19, 1.0), (1.0, 1e19))]
        full += [S(s) for s in ("1,2", "1;2", "2,1", "1", "", "1,2,3", "a,2", "1,b", "a,99999999999999999999",
                                "99999999999999999999,b", " 1  2 ", "1:2|3/4", f"{mn},{mx}", f"{mn - 1},{mx}", f"{mn},{mx + 1}",
                                "1,1", ",;", "1.5,2.5", "1,2x", "1\t2", "+1,-0", "a,b", "99999999999999999999,1")]
        full += ["si 1", "sf " + hx(0.5), "se " + q("red")] + READS
        core = [f"spi {mn} {mx}", "spi 1 1", "spi 1 2", "spi 3 0", f"spi {mn} {mx + 1}", S("1,b"), S("2;4"), "rpi", "wr"]
        return full, core
    if k == "fpair":
        mn, mx = spec.min, spec.max
        pairs = [(mn, mn), (mn, mx), (0.25, 1.5), (1.5, 0.25), (0.5, 0.5), (ulp_prev(mn), 0.0), (0.0, ulp_next(mx)), (mx, mx),
                 (ulp_next(mn), ulp_prev(mx)), (NAN, 1.0), (1.0, NAN), (-INF, 1.0), (1.0, INF), (-0.0, 0.0), (0.0, -0.0),
                 (0.5, ulp_next(0.5)), (ulp_next(0.5), 0.5)]
        full = [f"spf {hx(a)} {hx(b)}" for a, b in pairs]
        full += ["spi 0 1", "spi 1 0", "spi -1 2", "spi -2 1", "spi 1 3", "sp32 1 2", "spi 2 2"]
        full += [S(s) for s in ("0.5,1.5", "1.5;0.5", "1", "", "0.1,0.2,0.3", "a,2", "1,b", "a,1e400", "1e400,b", " .5  1. ",
                                "-1,2.5", "-1.0000000000000002,2.5", "-1,2.5000000000000004", "1,1", ",;", "nan,1", "0,inf",
                                "-inf,inf", "0x1p-1,0x1p0", "1e0:2e0|7/1.25", "1e-320,1", "1,1e-320", "-0,0", "a,b", "1e400,1")]
        full += ["si 1", "sf " + hx(0.5), "se " + q("red")] + READS
        core = [f"spf {hx(mn)} {hx(mx)}", f"spf {hx(1.0)} {hx(1.0)}", f"spf {hx(0.5)} {hx(2.0)}", f"spf {hx(2.0)} {hx(0.5)}",
                f"spf {hx(mn)} {hx(ulp_next(mx))}", S("1,b"), S(".5;2"), "rpf", "wr"]
        return full, core
    if k == "enum":
        full = [S(s) for s in ("red", "green", "blue", "dark blue", "pink", "", "Red", "redx", "dark", "dark  blue", " red")]
        full += ["se " + q(n) for n in ENUM_NAMES] + ["si 1", "sf " + hx(0.5), "spi 1 2", "spf " + hx(0.5) + " " + hx(1.5)] + READS
        core = [S("red"), S("dark blue"), S("pink"), "se " + q("blue"), S(""), "si 0", "re", "rs", "wr"]
        return full, core
    if k == "str":
        full = [S(s) for s in ("", "abc", "a b", "%41", "x'y", "1", "red", "\t", "z" * 40)]
        full += ["se " + q("red"), "si 1", "sf " + hx(0.5), "spi 1 2", "spf " + hx(0.5) + " " + hx(1.5)] + READS
        core = [S(""), S("a b"), S("%"), "si 1", "se " + q("red"), "rs", "ri", "re", "wr"]
        return full, core
    full = [S("x"), S(""), "se " + q("red"), "si 1", "sf " + hx(0.5), "spi 1 2", "spf " + hx(0.5) + " " + hx(1.5)] + READS
    return full, full[:9]


def tame(spec):
    if spec.kind in ("enum", "str", "mono"):
        return True
    return all(finite(b) and abs(b) < 2 ** 62 for b in (spec.min, spec.max))


def alphabet_for(spec):
    """the alphabet is written relative to the bounds; wild bounds borrow the alphabet of the first spec of the kind"""
    if tame(spec):
        return alphabet(spec)
    return alphabet([s for s in main_specs() if s.kind == spec.kind][0])


def extra_specs(rng):
    """domains at the edges: extreme, empty, single point, infinite, NaN bounds, defaults outside the domain"""
    big = 9007199254740992.0
    out = [
        Spec("int", min=I64MIN, mincomp="le", value=0, maxcomp="le", max=I64MAX),
        Spec("int", min=I64MIN, mincomp="lt", value=I64MIN + 1, maxcomp="lt", max=I64MAX),
        Spec("int", min=0, mincomp="lt", value=1, maxcomp="lt", max=1),
        Spec("int", min=3, mincomp="le", value=3, maxcomp="le", max=3),
        Spec("int", min=3, mincomp="lt", value=3, maxcomp="le", max=3),
        Spec("int", min=5, mincomp="le", value=2, maxcomp="le", max=1),
        Spec("int", min=-2, mincomp="le", value=6, maxcomp="le", max=5),
        Spec("int", min=9007199254740991, mincomp="le", value=9007199254740993, maxcomp="lt", max=9007199254740995),
        Spec("float", min=-INF, mincomp="lt", value=0.0, maxcomp="lt", max=INF),
        Spec("float", min=-INF, mincomp="le", value=0.0, maxcomp="le", max=INF),
        Spec("float", min=0.0, mincomp="lt", value=5e-324, maxcomp="le", max=1e-300),
        Spec("float", min=1.5, mincomp="le", value=1.5, maxcomp="le", max=1.5),
        Spec("float", min=1.5, mincomp="le", value=1.5, maxcomp="lt", max=1.5),
        Spec("float", min=-0.0, mincomp="le", value=0.0, maxcomp="le", max=0.0),
        Spec("float", min=NAN, mincomp="le", value=0.0, maxcomp="le", max=1.0),
        Spec("float", min=0.0, mincomp="le", value=NAN, maxcomp="le", max=1.0),
        Spec("float", min=0.0, mincomp="le", value=INF, maxcomp="le", max=INF),
        Spec("float", min=big, mincomp="le", value=big + 2, maxcomp="lt", max=big + 4),
        Spec("float", min=-1e308, mincomp="lt", value=1e308, maxcomp="le", max=1.7976931348623157e308),
        Spec("float", min=-1.0, mincomp="le", value=3.0, maxcomp="le", max=2.5),
        Spec("ipair", min=0, mincomp="le", value1=0, valcomp="lt", value2=0, maxcomp="le", max=10),
        Spec("ipair", min=0, mincomp="lt", value1=1, valcomp="lt", value2=2, maxcomp="lt", max=3),
        Spec("ipair", min=I64MIN, mincomp="le", value1=I64MIN, valcomp="le", value2=I64MAX, maxcomp="le", max=I64MAX),
        Spec("ipair", min=0, mincomp="le", value1=7, valcomp="le", value2=3, maxcomp="le", max=10),
        Spec("fpair", min=0.0, mincomp="lt", value1=0.1, valcomp="lt", value2=0.5, maxcomp="le", max=0.5),
        Spec("fpair", min=-INF, mincomp="lt", value1=-1e20, valcomp="lt", value2=1e20, maxcomp="lt", max=INF),
        Spec("fpair", min=0.0, mincomp="le", value1=0.0, valcomp="le", value2=-0.0, maxcomp="le", max=0.0),
        Spec("fpair", min=0.0, mincomp="le", value1=NAN, valcomp="le", value2=1.0, maxcomp="le", max=2.0),
        Spec("fpair", min=0.0, mincomp="le", value1=1.5, valcomp="lt", value2=1.5, maxcomp="le", max=2.0),
        Spec("enum", value="dark blue"),
        Spec("str", value=""),
        Spec("str", value="a b%c"),
    ]
    return out


def near(rng, spec):
    """a random value at / next to a bound of the spec (python number of the spec's kind)"""
    if spec.kind in ("int", "ipair"):
        b = rng.choice([spec.min, spec.max, 0])
        return max(I64MIN, min(I64MAX, b + rng.range(-2, 2)))
    b = rng.choice([spec.min, spec.max, 0.0, 1.0])
    if b != b or b in (INF, -INF):
        return rng.choice([b, 0.0, 1e300, -1e300])
    for _ in range(rng.range(0, 2)):
        b = ulp_next(b) if rng.chance(0.5) else ulp_prev(b)
    return b


def fmt_num(rng, v):
    """a numeric text for v in one of several spellings"""
    if isinstance(v, int):
        return rng.choice([str(v), " " + str(v), ("+" if v >= 0 else "") + str(v), str(v) + "x", str(v) + ".7"])
    r = repr(v)
    return rng.choice([r, " " + r, r + "e0" if "e" not in r and "n" not in r else r, r + "#", float.hex(v) if v == v and abs(v) != INF else r])


def random_op(rng, spec, full):
    u = rng.unit()
    if u < 0.45 or spec.kind in ("enum", "str", "mono"):
        return rng.choice(full)
    k = spec.kind
    if k in ("int", "float"):
        v = near(rng, spec)
        c = rng.below(3)
        if c == 0:
            return f"si {v if isinstance(v, int) else max(I64MIN, min(I64MAX, int(v) if finite(v) else 0))}"
        if c == 1:
            return "sf " + hx(float(v))
        return S(fmt_num(rng, v))
    a, b = near(rng, spec), near(rng, spec)
    c = rng.below(3)
    if c == 0:
        f = lambda v: v if isinstance(v, int) else max(I64MIN, min(I64MAX, int(v) if finite(v) else 0))
        return f"spi {f(a)} {f(b)}"
    if c == 1:
        return f"spf {hx(float(a))} {hx(float(b))}"
    return S(fmt_num(rng, a) + rng.choice([",", ";", " , ", ":", "|", "/", "  "]) + fmt_num(rng, b))


def hist(spec, ops):
    return f"param hist {spec.wire()} {len(ops)} " + " ".join(ops) if ops else f"param hist {spec.wire()} 0"


_ACCEPT = {}


def accepts(spec, optext):
    """True / False for an assignment the reference semantics accepts / rejects, None for reads and undefined conversions"""
    key = (spec.wire(), optext)
    if key not in _ACCEPT:
        op, args, _ = read_op(Toks(optext))
        if op not in ASSIGN:
            _ACCEPT[key] = None
        else:
            st = spec.state()
            if not in_domain(st):
                _ACCEPT[key] = None
            else:
                _, e = ref_step(st, op, args)
                _ACCEPT[key] = True if e[0] == "ok" else (False if e[0] == "throw" else None)
    return _ACCEPT[key]


def corpus():
    cp = os.path.join(vlib.VERIF, "corpus", "C19", "ops.txt")
    if os.path.exists(cp):
        return [l.strip() for l in open(cp) if l.strip() and not l.startswith("#")]
    return []


FCANDS = [0.5, 1.0, 0.25, 2.0, 0.0, 1e-3, 10.0, 1e3, -1.0, 1e-8, 0.75, 0.9, 3.0, 100.0, 1e6, -1e-3, 1e-12, 0.1, 7.0]
ICANDS = [1, 2, 3, 0, 5, 10, 7, 100, 1000, -1, 50, 20, 31, 64]


def factory_ops(rng, entries, nvariants):
    ops = [f"factory ids {f}" for f in T.FACTORIES]
    for (f, id_, _, _) in entries:
        for v in range(nvariants):
            ic = ICANDS if v == 0 else rng.shuffle(ICANDS)[:rng.range(2, 8)] + [rng.range(-3, 2000)]
            fc = FCANDS if v == 0 else rng.shuffle(FCANDS)[:rng.range(2, 8)] + [rng.uniform(-1.0, 3.0), NAN]
            ops.append(f"factory walk {f} {q(id_)} {len(ic)} " + " ".join(str(i) for i in ic) + f" {len(fc)} " +
                       " ".join(hx(x) for x in fc))
    ops.append("factory walk solver " + q("no-such-solver") + " 0 0")
    return ops


def config_ops(rng, count):
    names = ["a", "b", "solver::epsilon", "a b", "", "A"]
    specs = [s for s in main_specs() if s.kind != "mono"] + [Spec("int", min=0, mincomp="le", value=11, maxcomp="le", max=10)]
    vals_i = [-3, -2, 0, 1, 5, 6]
    vals_f = [-1.0, 0.5, 2.5, 2.6, 1e300]
    out = []
    for _ in range(count):
        n = rng.range(1, 10)
        cops = []
        for _ in range(n):
            u = rng.unit()
            name = rng.choice(names)
            if u < 0.35:
                cops.append(f"reg {q(name)} {rng.choice(specs).wire()}")
            elif u < 0.45:
                cops.append(f"has {q(name)}")
            elif u < 0.75:
                sp = rng.choice(specs)
                full, _ = alphabet(sp)
                op = rng.choice(full)
                # conversions the C++ standard leaves undefined make the final state unpredictable: kept out of this family
                if op.split()[0] in ("sf", "spf") and not all(finite(h2f(x)) and abs(h2f(x)) < 2.0 ** 62 for x in op.split()[1:]):
                    op = "ri"
                cops.append(f"get {q(name)} {op}")
            else:
                c = rng.below(3)
                if c == 0:
                    cops.append(f"cfg {q(name)} si {rng.choice(vals_i)}")
                elif c == 1:
                    cops.append(f"cfg {q(name)} sf {hx(rng.choice(vals_f))}")
                else:
                    cops.append(f"cfg {q(name)} ss {q(rng.choice(['1', '0.5', 'red', 'x', '1,2', '']))}")
        out.append(f"config hist {n} " + " ".join(cops))
    return out


def gen(rng, tier):
    thorough = tier == "thorough"
    ops = corpus()
    entries = _ENTRIES
    if not entries:
        try:
            entries = _dump()
        except Broken:
            entries = []      # a factory that throws is reported by the `factory ids` lines below
    ops += factory_ops(rng, entries, 3 if thorough else 1)
    specs = main_specs()
    deep = 6 if thorough else 4
    ncore = 5 if thorough else 6
    for spec in specs:
        full, core = alphabet(spec)
        # every history of <= 2 operations over the full alphabet (length-1 histories are prefixes)
        for a in full:
            for b in full:
                ops.append(hist(spec, [a, b]))
        # every history of <= deep operations over a core alphabet
        c = core[:ncore]
        if spec.kind in ("enum", "str", "mono") and thorough:
            c = core[:4]
        for h in itertools.product(c, repeat=deep):
            ops.append(hist(spec, list(h)))
        if thorough:
            for h in itertools.product(core, repeat=4):
                ops.append(hist(spec, list(h)))
        else:
            for h in itertools.product(core, repeat=3):
                ops.append(hist(spec, list(h)))
    # random longer histories, boundary-biased values, edge domains
    allspecs = specs + extra_specs(rng)
    for spec in extra_specs(rng):
        full, core = alphabet_for(spec)
        ops.append(hist(spec, []))
        for a in full:
            ops.append(hist(spec, [a, rng.choice(full)]))
    nrand = 60000 if thorough else 9000
    for _ in range(nrand):
        spec = rng.choice(allspecs)
        full, _ = alphabet_for(spec)
        n = rng.range(5, 30 if thorough else 12)
        ops.append(hist(spec, [random_op(rng, spec, full) for _ in range(n)]))
    ops += config_ops(rng, 20000 if thorough else 3000)
    # distinct by text, order kept
    seen, out = set(), []
    for o in ops:
        if o not in seen:
            seen.add(o); out.append(o)
    return out


def nontrivial(op):
    t = Toks(op)
    fam = t.s(); what = t.s()
    if fam == "factory":
        return what == "walk"
    if fam == "config":
        return " reg " in op and (" get " in op or " cfg " in op)
    spec = read_spec(t)
    n = t.int()
    acc = rej = False
    for _ in range(n):
        _, _, raw = read_op(t)
        a = accepts(spec, " ".join(raw))
        acc = acc or a is True
        rej = rej or a is False
    return acc and rej


def distribution(ops):
    d = {}
    for op in ops:
        t = op.split()
        if t[0] == "param":
            n = Toks(op); n.s(); n.s(); read_spec(n); k = n.int()
            key = f"param/{t[2]}/len{k if k <= 6 else '7+'}"
        elif t[0] == "config":
            key = "config/len" + (t[2] if int(t[2]) <= 6 else "7+")
        else:
            key = f"factory/{t[1]}" + (f"/{t[2]}" if t[1] == "walk" else "")
        d[key] = d.get(key, 0) + 1
    return d


def classify(op, kind, detail):
    t = op.split()
    fam = t[0] if t else "?"
    sub = t[2] if fam in ("param", "factory") and len(t) > 2 else ""
    if kind == "oracle":
        m = re.match(r"\[([a-z-]+)\]", detail or "")
        return f"{fam}/{sub}/{m.group(1) if m else 'oracle'}"
    return f"{fam}/{sub}/{kind}"


def model_skip(aug):
    return aug.startswith("factory dump")


def shrink_candidates(op):
    """drop operations of a history one at a time (later ones first)"""
    t = Toks(op)
    fam = t.s(); what = t.s()
    if fam == "param":
        spec = read_spec(t)
        n = t.int()
        raws = [" ".join(read_op(t)[2]) for _ in range(n)]
        for i in reversed(range(n)):
            yield hist(spec, raws[:i] + raws[i + 1:])
    elif fam == "config":
        n = t.int()
        cops = []
        for _ in range(n):
            start = t.i
            cop = t.s(); t.s()
            if cop == "reg":
                read_spec(t)
            elif cop in ("get", "cfg"):
                read_op(t)
            cops.append(" ".join(t.t[start:t.i]))
        for i in reversed(range(n)):
            rest = cops[:i] + cops[i + 1:]
            yield f"config hist {len(rest)} " + " ".join(rest) if rest else "config hist 0"
    elif fam == "factory" and what == "walk" and " probe " in op:
        yield op[:op.rfind(" probe ")]
